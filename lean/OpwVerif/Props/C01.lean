/-
  C01 — Every inverse-kinematics solution returned reproduces the requested pose: the run-time
  forward-kinematics cross-check (`compare_poses` / `compare_xyz_only` against
  `DISTANCE_TOLERANCE`, `ANGULAR_TOLERANCE`) is on every path that produces a returned vector.

  All theorems are of kind [G]: generic in the number type `{R : Type} [OpwNum R]` with NO
  assumption on the arithmetic, so they hold of the IEEE `Float` reading of the model itself.
  `Sound p pose s`  := `comparePoses pose (forward p s) distTol angTol = true`
  `Sound5 p pose s` := `compareXyz pose.t (forward p s).t distTol = true`
  (definitions and helper lemmas in `Lemmas/Sound.lean`).
-/
import OpwVerif.Lemmas.Sound
namespace Opw.C01
open Opw
variable {R : Type} [OpwNum R]

/-! ### 1, 2 — the two internal solvers -/

/-- [G] Every vector `inverse_intern` returns passed the FK cross-check against the requested pose,
and is the `normPi`-normalisation of one of the eight closed-form candidates, all of whose
components were finite. -/
theorem inverseIntern_sound {p : Params R} {pose : Iso R} {s : J6 R}
    (h : s ∈ inverseIntern p pose) :
    Sound p pose s ∧
      ∃ t ∈ thetaCandidates p pose,
        (jointsOf p t).allFinite = true ∧ s = (jointsOf p t).map normPi := by
  obtain ⟨t, ht, hf, hs, hsound⟩ := mem_inverseIntern.mp h
  exact ⟨hsound, t, ht, hf, hs⟩

example {s : J6 Float} (h : s ∈ inverseIntern Ex.p6 Ex.pose) : Sound Ex.p6 Ex.pose s :=
  (inverseIntern_sound h).1

/-- [G] Every vector `inverse_intern_5_dof` returns passed the position cross-check and carries the
requested J6 unchanged. -/
theorem inverseIntern5_sound {p : Params R} {pose : Iso R} {j6 : R} {s : J6 R}
    (h : s ∈ inverseIntern5 p pose j6) : Sound5 p pose s ∧ s.j6 = j6 :=
  sound5_of_mem_inverseIntern5 h

example {s : J6 Float} (h : s ∈ inverseIntern5 Ex.p5 Ex.pose 0.25) :
    Sound5 Ex.p5 Ex.pose s ∧ s.j6 = 0.25 :=
  inverseIntern5_sound h

/-! ### 3 — `inverse`, `inverse_5dof` -/

/-- [G] `inverse` of a robot not declared 5-DOF (with or without constraints). -/
theorem inverse_sound {k : Opw R} {pose : Iso R} {s : J6 R}
    (hd : k.p.dof ≠ 5) (h : s ∈ k.inverse pose) : Sound k.p pose s := by
  unfold Opw.inverse at h
  rw [if_neg (by simpa using hd)] at h
  exact sound_of_mem_inverseIntern (mem_of_mem_filterCompliant h)

example {s : J6 Float} (h : s ∈ Ex.k6c.inverse Ex.pose) : Sound Ex.k6c.p Ex.pose s :=
  inverse_sound Ex.p6_dof h

/-- [G] `inverse_5dof` (any robot, with or without constraints). -/
theorem inverse5dof_sound {k : Opw R} {pose : Iso R} {j6 : R} {s : J6 R}
    (h : s ∈ k.inverse5dof pose j6) : Sound5 k.p pose s ∧ s.j6 = j6 := by
  unfold Opw.inverse5dof at h
  exact sound5_of_mem_inverseIntern5 (mem_of_mem_filterCompliant h)

example {s : J6 Float} (h : s ∈ Ex.k6c.inverse5dof Ex.pose 0.25) :
    Sound5 Ex.k6c.p Ex.pose s ∧ s.j6 = 0.25 :=
  inverse5dof_sound h

/-- [G] `inverse` of a robot declared 5-DOF: position check only, J6 = 0. -/
theorem inverse_sound5 {k : Opw R} {pose : Iso R} {s : J6 R}
    (hd : k.p.dof = 5) (h : s ∈ k.inverse pose) : Sound5 k.p pose s ∧ s.j6 = 0 := by
  unfold Opw.inverse at h
  rw [if_pos (by simpa using hd)] at h
  exact inverse5dof_sound h

example {s : J6 Float} (h : s ∈ Ex.k5c.inverse Ex.pose) :
    Sound5 Ex.k5c.p Ex.pose s ∧ s.j6 = 0 :=
  inverse_sound5 Ex.p5_dof h

/-! ### 4 — `inverse_continuing`, 6-DOF path -/

/-- [G] Origin of every vector returned by `inverse_continuing` (robot not declared 5-DOF):
it is `normalize_near(s0, reference)` of some `s0` that either passed the cross-check against the
REQUESTED pose (the recovered singular candidate), or is a raw solution of the first pose in the
shift list `[+0, +x, +y, +z]` whose raw solution list is non-empty — raw solutions of a shifted
pose were cross-checked against the SHIFTED pose only. -/
theorem inverseContinuing_origin {k : Opw R} {pose : Iso R} {prev s : J6 R}
    (hd : k.p.dof ≠ 5) (h : s ∈ k.inverseContinuing pose prev) :
    ∃ s0, s = s0.normalizeNear (k.reference prev) ∧
      (Sound k.p pose s0 ∨
        ∃ pre d post, (shifts : List (V3 R)) = pre ++ d :: post ∧
          (∀ d' ∈ pre, inverseIntern k.p (shiftPose pose d') = []) ∧
          s0 ∈ inverseIntern k.p (shiftPose pose d)) := by
  unfold Opw.inverseContinuing at h
  rw [if_neg (by simpa using hd)] at h
  unfold Opw.inverseContinuing6 at h
  have h1 := mem_sortByCloseness.mp (mem_of_mem_filterCompliant h)
  obtain ⟨s0, hs0, rfl⟩ := List.mem_map.mp h1
  refine ⟨s0, rfl, ?_⟩
  rcases mem_shiftLoop _ _ _ hs0 with h | h | ⟨_, h⟩
  · cases h
  · exact Or.inl h.1
  · exact Or.inr h

/-- [G] `inverse_continuing`, robot not declared 5-DOF.  Every returned vector is
`normalize_near(s0, reference)` for an `s0` with: `s0` passed the cross-check against the requested
pose, OR `s0` passed the cross-check against one of the four shifted poses `pose + d`, `d ∈ shifts`,
where for `d` other than the zero shift this happens only if the solve for `pose + 0` came back empty.

The zero shift is written `shiftPose pose ⟨0,0,0⟩` (translation `x + 0, y + 0, z + 0`): generically,
and for `Float` (`-0.0 + 0.0 = +0.0`), this is not syntactically `pose`; see
`inverseContinuing_sound_partial_of_add_zero` for the form with `pose` itself.

FULL: `k.p.dof ≠ 5 → s ∈ k.inverseContinuing pose prev →
         ∃ s0, s = s0.normalizeNear (k.reference prev) ∧ Sound k.p pose s0`
(every returned vector, before the final `normalize_near`, reproduces the REQUESTED pose).
Gap: `shiftStep` appends the raw `inverse_intern` solutions of a shifted pose while the solution
list is empty, which also happens in the iterations with a non-zero shift when the unshifted solve is
empty; these raw solutions were cross-checked against the shifted pose (`DISTANCE_TOLERANCE` around
a point `SINGULARITY_SHIFT` away), not against the requested one, and nothing re-checks them.  Only
the recovered singular candidate is checked against the requested pose.  The FULL statement is
therefore not a control-structure fact of the code (and the final `normalize_near` is outside the
check in any case). -/
theorem inverseContinuing_sound_partial {k : Opw R} {pose : Iso R} {prev s : J6 R}
    (hd : k.p.dof ≠ 5) (h : s ∈ k.inverseContinuing pose prev) :
    ∃ s0, s = s0.normalizeNear (k.reference prev) ∧
      (Sound k.p pose s0 ∨
        ∃ d ∈ (shifts : List (V3 R)), Sound k.p (shiftPose pose d) s0 ∧
          (d = ⟨0, 0, 0⟩ ∨ inverseIntern k.p (shiftPose pose ⟨0, 0, 0⟩) = [])) := by
  obtain ⟨s0, hs, h | ⟨pre, d, post, hds, hpre, hmem⟩⟩ := inverseContinuing_origin hd h
  · exact ⟨s0, hs, Or.inl h⟩
  · refine ⟨s0, hs, Or.inr ⟨d, ?_, sound_of_mem_inverseIntern hmem, ?_⟩⟩
    · rw [hds]; simp
    · cases pre with
      | nil =>
        left
        simp only [shifts, List.nil_append, List.cons.injEq] at hds
        exact hds.1.symm
      | cons a pre' =>
        right
        simp only [shifts, List.cons_append, List.cons.injEq] at hds
        rw [hds.1]
        exact hpre a (List.mem_cons_self ..)

example {s : J6 Float} (h : s ∈ Ex.k6c.inverseContinuing Ex.pose Ex.prev) :
    ∃ s0, s = s0.normalizeNear (Ex.k6c.reference Ex.prev) ∧
      (Sound Ex.k6c.p Ex.pose s0 ∨
        ∃ d ∈ (shifts : List (V3 Float)), Sound Ex.k6c.p (shiftPose Ex.pose d) s0 ∧
          (d = ⟨0, 0, 0⟩ ∨ inverseIntern Ex.k6c.p (shiftPose Ex.pose ⟨0, 0, 0⟩) = [])) :=
  inverseContinuing_sound_partial Ex.p6_dof h

/-- [G] The same in the form with `pose` itself, for poses whose translation is unchanged by
adding zero (every real pose; every `Float` pose without a `-0.0` translation component). -/
theorem inverseContinuing_sound_partial_of_add_zero {k : Opw R} {pose : Iso R} {prev s : J6 R}
    (hz : pose.t.x + 0 = pose.t.x ∧ pose.t.y + 0 = pose.t.y ∧ pose.t.z + 0 = pose.t.z)
    (hd : k.p.dof ≠ 5) (h : s ∈ k.inverseContinuing pose prev) :
    ∃ s0, s = s0.normalizeNear (k.reference prev) ∧
      (Sound k.p pose s0 ∨
        (inverseIntern k.p pose = [] ∧
          ∃ d ∈ (shifts : List (V3 R)),
            Sound k.p ⟨⟨pose.t.x + d.x, pose.t.y + d.y, pose.t.z + d.z⟩, pose.q⟩ s0)) := by
  have hp : shiftPose pose ⟨0, 0, 0⟩ = pose := by
    obtain ⟨⟨x, y, z⟩, q⟩ := pose
    simp only [shiftPose] at hz ⊢
    rw [hz.1, hz.2.1, hz.2.2]
  obtain ⟨s0, hs, h | ⟨d, hd', hsd, rfl | he⟩⟩ := inverseContinuing_sound_partial hd h
  · exact ⟨s0, hs, Or.inl h⟩
  · rw [hp] at hsd; exact ⟨s0, hs, Or.inl hsd⟩
  · rw [hp] at he; exact ⟨s0, hs, Or.inr ⟨he, d, hd', hsd⟩⟩

/-! ### 5 — `inverse_continuing_5dof` -/

/-- [G] Every vector `inverse_continuing_5dof` returns is `normalize_near(s0, reference)` of a
vector `s0` returned by `inverse_intern_5_dof` for the requested pose and `previous[5]`; hence `s0`
passed the position cross-check and `s0.j6 = prev.j6`. -/
theorem inverseContinuing5dof_sound {k : Opw R} {pose : Iso R} {prev s : J6 R}
    (h : s ∈ k.inverseContinuing5dof pose prev) :
    ∃ s0 ∈ inverseIntern5 k.p pose prev.j6,
      s = s0.normalizeNear (k.reference prev) ∧ Sound5 k.p pose s0 ∧ s0.j6 = prev.j6 := by
  unfold Opw.inverseContinuing5dof at h
  have h1 := mem_sortByCloseness.mp (mem_of_mem_filterCompliant h)
  obtain ⟨s0, hs0, rfl⟩ := List.mem_map.mp h1
  exact ⟨s0, hs0, rfl, sound5_of_mem_inverseIntern5 hs0⟩

example {s : J6 Float} (h : s ∈ Ex.k5c.inverseContinuing5dof Ex.pose Ex.prev) :
    ∃ s0 ∈ inverseIntern5 Ex.k5c.p Ex.pose Ex.prev.j6,
      s = s0.normalizeNear (Ex.k5c.reference Ex.prev) ∧ Sound5 Ex.k5c.p Ex.pose s0 ∧
        s0.j6 = Ex.prev.j6 :=
  inverseContinuing5dof_sound h

/-- [G] … and through the dispatch of `inverse_continuing` for a robot declared 5-DOF. -/
theorem inverseContinuing_sound5 {k : Opw R} {pose : Iso R} {prev s : J6 R}
    (hd : k.p.dof = 5) (h : s ∈ k.inverseContinuing pose prev) :
    ∃ s0 ∈ inverseIntern5 k.p pose prev.j6,
      s = s0.normalizeNear (k.reference prev) ∧ Sound5 k.p pose s0 ∧ s0.j6 = prev.j6 := by
  unfold Opw.inverseContinuing at h
  rw [if_pos (by simpa using hd)] at h
  exact inverseContinuing5dof_sound h

/-! ### 6 — unreachable poses give the empty list -/

/-- [G] If no joint vector passes the cross-check for `pose`, `inverse_intern` returns nothing. -/
theorem empty_of_unreachable {p : Params R} {pose : Iso R}
    (h : ∀ s, ¬ Sound p pose s) : inverseIntern p pose = [] :=
  List.eq_nil_iff_forall_not_mem.mpr fun s hs => h s (sound_of_mem_inverseIntern hs)

/-- [G] … and so does `inverse` (robot not declared 5-DOF, with or without constraints). -/
theorem inverse_empty_of_unreachable {k : Opw R} {pose : Iso R}
    (hd : k.p.dof ≠ 5) (h : ∀ s, ¬ Sound k.p pose s) : k.inverse pose = [] :=
  List.eq_nil_iff_forall_not_mem.mpr fun s hs => h s (inverse_sound hd hs)

/-- [G] 5-DOF analogue: no vector passing the position check ⇒ `inverse_5dof` returns nothing. -/
theorem inverse5dof_empty_of_unreachable {k : Opw R} {pose : Iso R} {j6 : R}
    (h : ∀ s, ¬ Sound5 k.p pose s) : k.inverse5dof pose j6 = [] :=
  List.eq_nil_iff_forall_not_mem.mpr fun s hs => h s (inverse5dof_sound hs).1

example (h : ∀ s, ¬ Sound Ex.k6c.p Ex.pose s) : Ex.k6c.inverse Ex.pose = [] :=
  inverse_empty_of_unreachable Ex.p6_dof h

/-! ### 7 — wrapper stacks -/

/-- [G] A stack of `Tool` / `Base` / `Frame` wrappers answers `inverse` with exactly what the
innermost solver answers for the pose with the wrappers stripped (`pose * tool⁻¹`, `base⁻¹ * pose`,
`pose * frame⁻¹`, from outside in). -/
theorem stack_inverse_eq {k : Kin R} (hk : k.plain) (pose : Iso R) :
    k.inverse pose = k.core.inverse (k.localPose pose) :=
  Kin.plain_inverse_eq k hk pose

theorem stack_inverseContinuing_eq {k : Kin R} (hk : k.plain) (pose : Iso R) (prev : J6 R) :
    k.inverseContinuing pose prev = k.core.inverseContinuing (k.localPose pose) prev :=
  Kin.plain_inverseContinuing_eq k hk pose prev

theorem stack_inverse5dof_eq {k : Kin R} (hk : k.plain) (pose : Iso R) (j6 : R) :
    k.inverse5dof pose j6 = k.core.inverse5dof (k.localPose pose) j6 :=
  Kin.plain_inverse5dof_eq k hk pose j6

theorem stack_inverseContinuing5dof_eq {k : Kin R} (hk : k.plain) (pose : Iso R) (prev : J6 R) :
    k.inverseContinuing5dof pose prev = k.core.inverseContinuing5dof (k.localPose pose) prev :=
  Kin.plain_inverseContinuing5dof_eq k hk pose prev

/-- [G] membership form of `stack_inverse_eq` -/
theorem stack_inverse_mem {k : Kin R} (hk : k.plain) {pose : Iso R} {s : J6 R}
    (h : s ∈ k.inverse pose) : s ∈ k.core.inverse (k.localPose pose) := by
  rwa [stack_inverse_eq hk] at h

/-- [G] Stacks that may also contain collision filtering (`KinematicsWithShape`) but no
`Parallelogram`: every returned vector passed the cross-check of the innermost solver for the local
pose.  (Stated on the local pose: that `forward` of the stack then reproduces the outer pose is the
isometry algebra `(x * t⁻¹) * t = x`, a fact about real arithmetic proved elsewhere.) -/
theorem stack_inverse_sound {k : Kin R} (hk : k.noPara) (hd : k.core.p.dof ≠ 5)
    {pose : Iso R} {s : J6 R} (h : s ∈ k.inverse pose) :
    Sound k.core.p (k.localPose pose) s :=
  inverse_sound hd (Kin.noPara_inverse_mem k hk pose s h)

theorem stack_inverse5dof_sound {k : Kin R} (hk : k.noPara)
    {pose : Iso R} {j6 : R} {s : J6 R} (h : s ∈ k.inverse5dof pose j6) :
    Sound5 k.core.p (k.localPose pose) s ∧ s.j6 = j6 :=
  inverse5dof_sound (Kin.noPara_inverse5dof_mem k hk pose j6 s h)

example : Ex.stack6.inverse Ex.pose =
    Ex.k6c.inverse (((Ex.pose.mul Ex.tcp.inv) |> (Ex.tcp.inv.mul ·)).mul Ex.tcp.inv) :=
  stack_inverse_eq Ex.stack6_plain Ex.pose

example {s : J6 Float} (h : s ∈ Ex.stack6s.inverse Ex.pose) :
    Sound Ex.p6 (Ex.stack6s.localPose Ex.pose) s :=
  stack_inverse_sound Ex.stack6s_noPara Ex.p6_dof h

end Opw.C01
