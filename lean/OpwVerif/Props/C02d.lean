/-
  C02 (soundness part) — ANALYTIC SOUNDNESS of the closed-form inverse kinematics on ALL EIGHT
  branches: for an ARBITRARY pose with a unit quaternion, every raw candidate of
  `thetaCandidates p pose` whose branch conditions hold reproduces the pose under the forward model.
  The counterpart of the completeness theorem C02b (which says that ONE candidate is the originating
  configuration); here nothing is assumed about where the pose comes from, and every row — both
  shoulders, both elbows, both wrists — is covered.  In the code this is only checked at run time
  (`compare_poses` in `inverse_intern`).

  All theorems are [R]: the model text of `Kin.lean` evaluated with exact real arithmetic.
  Property theorems only; the staged lemmas live in `Lemmas/IkSound.lean`.

  Vocabulary (θ-space: `θ = joint · sign − offset`; defined in `Lemmas/IkComplete.lean` and
  `Lemmas/IkSound.lean`):
  * `wc p pose = pose.t − c4 · (R ẑ)`, `R = pose.q.toMat`: the wrist centre of the pose as the solver
    computes it; `s1sq p c`, `s2sq p c`, `kappa2 p`, `tmp9 p`, `nx1 p c`: the intermediate values of
    `inverse_intern` with the names of the source (`thetaCandidates_eq` ties them to the model);
  * `wcθ p θ`: the wrist centre of the forward model at `θ` (`forwardTheta p θ` has translation
    `wcθ p θ + c4 · (roe θ) ẑ`, lemma `forwardTheta_snd`); `roe θ`: its rotation matrix;
  * `kappa p = √(a2² + c3²)`;
  * `FrontReach p c`: `0 ≤ c.x² + c.y² − b²` (the shoulder square root is real) and the argument of the
    elbow `acos` of rows 1, 2 (`tmp11`: `(s1sq − c2² − κ²) / (2 c2 κ)`) lies in `[−1, 1]`;
    `BackReach p c`: the same with `s2sq` (`tmp12`, rows 3, 4).  NO hypothesis on the shoulder `acos`
    (`tmp13`, `tmp15`) is needed: its argument is then in `[−1, 1]` by itself
    (`shoulder_ratio_range`), and the degenerate case `s1 = 0` (division by zero in the source) is
    covered.  Nothing is strict: stretched/folded elbows and `c.x² + c.y² = b²` are included;
  * `ArmCond p pose i`: `FrontReach` for the candidates number 0, 1, 4, 5 (front shoulder),
    `BackReach` for 2, 3, 6, 7 (back shoulder); the list is four rows followed by their wrist-flipped
    twins (`C02.candidates_flip_closed`);
  * wrist condition of a candidate `t`: `sin t.j5 ≠ 0` for the `θ5` the solver computed, which is
    the same as `m² ≠ 1` for the `(3,3)` entry `m` of `R0c(θ1,θ2,θ3)ᵀ · R` (`wrist_cond_iff`);
  * `SignsOk p` (from C02): all sign corrections are `±1`;
  * `Iso.Same a b` (from C09): the same rigid motion — equal translation, equal rotation MATRIX.
-/
import OpwVerif.Lemmas.IkSound
import OpwVerif.Props.C02b
namespace Opw.C02d
open Opw Opw.Wrist Opw.C02 Opw.IkComplete Opw.IkSound

attribute [-simp] Opw.ofNatLit_real

/-! ### 1. The arm: wrist centre -/

/-- [R] Arm soundness, all four arm rows and their twins.  If the arm condition of the `i`-th raw
candidate `t` holds (square root real, elbow `acos` argument in `[−1, 1]` for that shoulder), the wrist
centre the forward model computes for `(θ1, θ2, θ3)` of `t` is the wrist centre `pose.t − c4·(R ẑ)` of
the pose.  No assumption on the quaternion, none on the wrist. -/
theorem candidate_arm_sound (p : Params ℝ) (pose : Iso ℝ) (hc : 0 < p.c2) (hk : 0 < kappa p)
    (i : ℕ) (t : J6 ℝ) (ht : (thetaCandidates p pose)[i]? = some t) (ha : ArmCond p pose i) :
    wcθ p t = wc p pose :=
  arm_sound_idx p pose hc hk i t ht ha

/-- [R] the same read off the output of `forwardTheta`: translation minus `c4` times the tool axis -/
theorem candidate_arm_sound_fk (p : Params ℝ) (pose : Iso ℝ) (hc : 0 < p.c2) (hk : 0 < kappa p)
    (i : ℕ) (t : J6 ℝ) (ht : (thetaCandidates p pose)[i]? = some t) (ha : ArmCond p pose i) :
    (forwardTheta p t).2.sub ((M3.scaleL p.c4 (forwardTheta p t).1).mulVec V3.ez) = wc p pose := by
  rw [← candidate_arm_sound p pose hc hk i t ht ha, forwardTheta_snd, forwardTheta_fst]
  apply V3.ext' <;> simp only [V3.sub, V3.add] <;> ring

/-- [R] the four arm rows spelled out (`th1i … th3iv` are the values of the source with these names;
`m` is any matrix: the arm angles of `cand` do not depend on it) -/
theorem arm_rows_sound (p : Params ℝ) (c : V3 ℝ) (m : M3 ℝ) (hc : 0 < p.c2) (hk : 0 < kappa p) :
    (FrontReach p c → wcθ p (cand m (th1i p c) (th2i p c) (th3i p c)) = c ∧
      wcθ p (cand m (th1i p c) (th2ii p c) (th3ii p c)) = c) ∧
    (BackReach p c → wcθ p (cand m (th1ii p c) (th2iii p c) (th3iii p c)) = c ∧
      wcθ p (cand m (th1ii p c) (th2iv p c) (th3iv p c)) = c) :=
  ⟨fun h => ⟨arm_row1 p c m hc hk h, arm_row2 p c m hc hk h⟩,
   fun h => ⟨arm_row3 p c m hc hk h, arm_row4 p c m hc hk h⟩⟩

/-- [R] the shoulder `acos` needs no hypothesis of its own: elbow ratio in `[−1, 1]` and `s > 0` put
the shoulder ratio `(s + c2² − κ²) / (2 √s c2)` in `[−1, 1]` -/
theorem shoulder_acos_in_range (c2 κ s : ℝ) (hc : 0 < c2) (hk : 0 < κ) (hs : 0 < s)
    (hb1 : -1 ≤ (s - c2 * c2 - κ * κ) / (2 * c2 * κ)) (hb2 : (s - c2 * c2 - κ * κ) / (2 * c2 * κ) ≤ 1) :
    -1 ≤ (s + c2 * c2 - κ * κ) / (2 * Real.sqrt s * c2) ∧
      (s + c2 * c2 - κ * κ) / (2 * Real.sqrt s * c2) ≤ 1 :=
  shoulder_ratio_range c2 κ s hc hk hs hb1 hb2

/-- [R] the reach conditions are what the pose of a configuration satisfies: wrist centre in front
of the J1 axis — front shoulder reaches; behind — back shoulder reaches -/
theorem reach_of_poseOf (p : Params ℝ) (θ : J6 ℝ) (hc : 0 < p.c2) (hk : 0 < kappa p) :
    (0 < cx1 p θ → FrontReach p (wc p (poseOf p θ))) ∧
      (cx1 p θ < 0 → BackReach p (wc p (poseOf p θ))) :=
  ⟨frontReach_poseOf p θ hc hk, backReach_poseOf p θ hc hk⟩

/-! ### 2. The wrist: rotation -/

/-- [R] Wrist soundness, all eight candidates.  For a unit quaternion and a raw candidate `t` with
`sin θ5 ≠ 0`, the rotation matrix of the forward model at `t` is the rotation matrix of the pose
(ZYZ decomposition of `R0cᵀ R`; the flipped rows through `C02.forwardTheta_flip`).  Holds whether or
not the arm part of `t` reaches the wrist centre. -/
theorem candidate_wrist_sound (p : Params ℝ) (pose : Iso ℝ) (hq : pose.q.normSq = 1) (t : J6 ℝ)
    (ht : t ∈ thetaCandidates p pose) (h5 : Real.sin t.j5 ≠ 0) :
    (forwardTheta p t).1 = pose.q.toMat := by
  rw [forwardTheta_fst]; exact wrist_sound_mem p pose hq t ht h5

/-- [R] the wrist condition in terms of the matrix entry: for a rotation matrix `R` and ANY arm
angles, `sin θ5 ≠ 0` for the computed `θ5` iff the `(3,3)` entry `m` of `R0cᵀ R` has `m² ≠ 1` -/
theorem wrist_cond_iff {R : M3 ℝ} (hR : IsRot R) (t1 t2 t3 : ℝ) :
    Real.sin (cand R t1 t2 t3).j5 ≠ 0 ↔ mmOf R t1 (t2 + t3) * mmOf R t1 (t2 + t3) ≠ 1 :=
  ⟨mm_ne_of_sin_j5 R t1 t2 t3, sin_j5_of_mm_ne hR t1 t2 t3⟩

/-- [R] the rotation for explicit arm angles: `R0c(θ1,θ2,θ3) · Rce(θ4,θ5,θ6) = R` for the wrist angles
the solver computes from `R` and `(θ1, θ2 + θ3)` -/
theorem wrist_row_sound {R : M3 ℝ} (hR : IsRot R) (t1 t2 t3 : ℝ)
    (hm : mmOf R t1 (t2 + t3) * mmOf R t1 (t2 + t3) ≠ 1) : roe (cand R t1 t2 t3) = R :=
  roe_cand hR t1 t2 t3 hm

/-! ### 3. The whole candidate -/

/-- [R] Soundness of a raw candidate: arm condition of its row and `sin θ5 ≠ 0` — the forward model
returns exactly the rotation matrix and the translation of the pose. -/
theorem candidate_sound (p : Params ℝ) (pose : Iso ℝ) (hc : 0 < p.c2) (hk : 0 < kappa p)
    (hq : pose.q.normSq = 1) (i : ℕ) (t : J6 ℝ) (ht : (thetaCandidates p pose)[i]? = some t)
    (ha : ArmCond p pose i) (h5 : Real.sin t.j5 ≠ 0) :
    forwardTheta p t = (pose.q.toMat, pose.t) :=
  candidate_sound_idx p pose hc hk hq i t ht ha h5

/-- [R] in joint space: `forward` of the joint vector built from the candidate is the same rigid
motion as the pose (the quaternion may differ in sign: `from_rotation_matrix ∘ to_rotation_matrix`);
the `[−π, π]` normalisation does not change it, and the candidate passes the run-time cross-check. -/
theorem candidate_sound_joint (p : Params ℝ) (hs : SignsOk p) (pose : Iso ℝ) (hc : 0 < p.c2)
    (hk : 0 < kappa p) (hq : pose.q.normSq = 1) (i : ℕ) (t : J6 ℝ)
    (ht : (thetaCandidates p pose)[i]? = some t) (ha : ArmCond p pose i) (h5 : Real.sin t.j5 ≠ 0) :
    Iso.Same (forward p (jointsOf p t)) pose ∧
      Iso.Same (forward p ((jointsOf p t).map normPi)) pose ∧
      finishCandidate p pose (jointsOf p t) = some ((jointsOf p t).map normPi) := by
  obtain ⟨h1, h2, h3⟩ := finish_of_forwardTheta p hs pose hq
    (candidate_sound p pose hc hk hq i t ht ha h5)
  exact ⟨h1, h2 ▸ h1, h3⟩

/-- [R] … hence the normalised joint vector IS among the answers of `inverse_intern` -/
theorem candidate_is_answer (p : Params ℝ) (hs : SignsOk p) (pose : Iso ℝ) (hc : 0 < p.c2)
    (hk : 0 < kappa p) (hq : pose.q.normSq = 1) (i : ℕ) (t : J6 ℝ)
    (ht : (thetaCandidates p pose)[i]? = some t) (ha : ArmCond p pose i) (h5 : Real.sin t.j5 ≠ 0) :
    (jointsOf p t).map normPi ∈ inverseIntern p pose :=
  List.mem_filterMap.mpr ⟨t, List.mem_of_getElem? ht,
    (candidate_sound_joint p hs pose hc hk hq i t ht ha h5).2.2⟩

/-! ### 4a. All branch conditions: eight answers -/

/-- [R] If both shoulders reach the wrist centre and no candidate is at the wrist singularity, ALL
eight raw candidates pass the run-time cross-check (position error `0`, angle `0`):
`inverse_intern` returns exactly the eight normalised candidates, in order, and each is the same rigid
motion as the pose.  (Stated with the non-strict reach conditions; the eight answers need not be
distinct then; for distinctness of the raw candidates under strict conditions see
`C02c.candidates_pairwise_distinct_of`.) -/
theorem all_reachable_eight_answers (p : Params ℝ) (hs : SignsOk p) (pose : Iso ℝ) (hc : 0 < p.c2)
    (hk : 0 < kappa p) (hq : pose.q.normSq = 1) (hf : FrontReach p (wc p pose))
    (hb : BackReach p (wc p pose)) (hw : ∀ t ∈ thetaCandidates p pose, Real.sin t.j5 ≠ 0) :
    inverseIntern p pose = (thetaCandidates p pose).map (fun t => (jointsOf p t).map normPi) ∧
      (inverseIntern p pose).length = 8 ∧
      ∀ s ∈ inverseIntern p pose, Sound p pose s ∧ Iso.Same (forward p s) pose := by
  have hfin : ∀ t ∈ thetaCandidates p pose,
      Iso.Same (forward p (jointsOf p t)) pose ∧
        forward p ((jointsOf p t).map normPi) = forward p (jointsOf p t) ∧
        finishCandidate p pose (jointsOf p t) = some ((jointsOf p t).map normPi) :=
    fun t ht => finish_of_forwardTheta p hs pose hq
      (candidate_sound_mem p pose hc hk hq hf hb t ht (hw t ht))
  have e : inverseIntern p pose =
      (thetaCandidates p pose).map (fun t => (jointsOf p t).map normPi) :=
    filterMap_eq_map_of_forall _ _ _ (fun t ht => (hfin t ht).2.2)
  refine ⟨e, by rw [e, List.length_map]; rfl, ?_⟩
  intro s hsm
  refine ⟨sound_of_mem_inverseIntern hsm, ?_⟩
  rw [e] at hsm
  obtain ⟨t, ht, rfl⟩ := List.mem_map.mp hsm
  obtain ⟨h1, h2, -⟩ := hfin t ht
  exact h2 ▸ h1

/-- [R] the same for the public `inverse` of a 6-DOF robot without constraints -/
theorem inverse_eight_answers (k : Opw ℝ) (hs : SignsOk k.p) (hdof : k.p.dof ≠ 5) (hcons : k.cons = none)
    (pose : Iso ℝ) (hc : 0 < k.p.c2) (hk : 0 < kappa k.p) (hq : pose.q.normSq = 1)
    (hf : FrontReach k.p (wc k.p pose)) (hb : BackReach k.p (wc k.p pose))
    (hw : ∀ t ∈ thetaCandidates k.p pose, Real.sin t.j5 ≠ 0) :
    (k.inverse pose).length = 8 ∧ ∀ s ∈ k.inverse pose, Iso.Same (forward k.p s) pose := by
  rw [C02b.inverse_eq_intern k hdof hcons]
  obtain ⟨-, h2, h3⟩ := all_reachable_eight_answers k.p hs pose hc hk hq hf hb hw
  exact ⟨h2, fun s h => (h3 s h).2⟩

/-! ### 4b. The 5-DOF solver: exact tool point and tool axis -/

/-- [R] `inverse_intern_5_dof`: the answer built from a raw candidate whose branch conditions hold
is returned, whatever J6 is requested, and has EXACTLY the requested tool point and the requested
tool axis `R ẑ` (the position check passes at distance `0`; the rotation about the tool axis is what
J6 changes). -/
theorem inverse5_candidate_exact (p : Params ℝ) (hs : SignsOk p) (pose : Iso ℝ) (hc : 0 < p.c2)
    (hk : 0 < kappa p) (hq : pose.q.normSq = 1) (j6 : ℝ) (i : ℕ) (t : J6 ℝ)
    (ht : (thetaCandidates p pose)[i]? = some t) (ha : ArmCond p pose i) (h5 : Real.sin t.j5 ≠ 0) :
    norm5 (jointsOf p t) j6 ∈ inverseIntern5 p pose j6 ∧
      (forward p (norm5 (jointsOf p t) j6)).t = pose.t ∧
      (forward p (norm5 (jointsOf p t) j6)).q.toMat.mulVec V3.ez = pose.q.toMat.mulVec V3.ez := by
  obtain ⟨h1, h2, h3⟩ := finish5_of_forwardTheta p hs pose j6
    (candidate_sound p pose hc hk hq i t ht ha h5)
  exact ⟨List.mem_filterMap.mpr ⟨t, List.mem_of_getElem? ht, h1⟩, h2, h3⟩

/-- [R] all branch conditions: `inverse_intern_5_dof` returns eight answers, each with J6 as
requested and exactly the requested tool point and tool axis -/
theorem inverse5_eight_answers (p : Params ℝ) (hs : SignsOk p) (pose : Iso ℝ) (hc : 0 < p.c2)
    (hk : 0 < kappa p) (hq : pose.q.normSq = 1) (hf : FrontReach p (wc p pose))
    (hb : BackReach p (wc p pose)) (hw : ∀ t ∈ thetaCandidates p pose, Real.sin t.j5 ≠ 0) (j6 : ℝ) :
    (inverseIntern5 p pose j6).length = 8 ∧
      ∀ s ∈ inverseIntern5 p pose j6, s.j6 = j6 ∧ (forward p s).t = pose.t ∧
        (forward p s).q.toMat.mulVec V3.ez = pose.q.toMat.mulVec V3.ez := by
  have hfin : ∀ t ∈ thetaCandidates p pose,
      finishCandidate5 p pose j6 (jointsOf p t) = some (norm5 (jointsOf p t) j6) ∧
        (forward p (norm5 (jointsOf p t) j6)).t = pose.t ∧
        (forward p (norm5 (jointsOf p t) j6)).q.toMat.mulVec V3.ez = pose.q.toMat.mulVec V3.ez :=
    fun t ht => finish5_of_forwardTheta p hs pose j6
      (candidate_sound_mem p pose hc hk hq hf hb t ht (hw t ht))
  have e : inverseIntern5 p pose j6 =
      (thetaCandidates p pose).map (fun t => norm5 (jointsOf p t) j6) :=
    filterMap_eq_map_of_forall _ _ _ (fun t ht => (hfin t ht).1)
  refine ⟨by rw [e, List.length_map]; rfl, ?_⟩
  intro s hsm
  rw [e] at hsm
  obtain ⟨t, ht, rfl⟩ := List.mem_map.mp hsm
  exact ⟨rfl, (hfin t ht).2⟩

/-! ### Non-vacuity

`pX`: `a1 = 1/2`, `a2 = 3/5`, `b = 0`, `c1 = 1/2`, `c2 = 1`, `c3 = 4/5`, `c4 = 1/4`, signs
`(1, 1, −1, −1, 1, −1)`, offsets `(0, 0.3, 0, −0.2, 0, 1)`.  `poseX`: translation `(1, 6/25, 143/100)`,
quaternion `(3/5, −4/5, 0, 0)` (tool tilted about `x`); wrist centre `(1, 0, 3/2)`, front elbow ratio
`−3/8`, back elbow ratio `5/8`, `cos² θ5 ≤ 49/625` in every row. -/

example : SignsOk pX ∧ 0 < pX.c2 ∧ 0 < kappa pX ∧ poseX.q.normSq = 1 ∧ FrontReach pX (wc pX poseX) ∧
    BackReach pX (wc pX poseX) ∧ ∀ t ∈ thetaCandidates pX poseX, Real.sin t.j5 ≠ 0 :=
  ⟨signsOk_pX, c2_pX, by rw [kappa_pX]; exact one_pos, poseX_unit, frontReach_X, backReach_X,
    wristCond_X⟩

/-- conclusion of `candidate_sound` for the instance: every one of the eight candidates -/
example (i : ℕ) (t : J6 ℝ) (ht : (thetaCandidates pX poseX)[i]? = some t) :
    forwardTheta pX t = (poseX.q.toMat, poseX.t) :=
  candidate_sound pX poseX c2_pX (by rw [kappa_pX]; exact one_pos) poseX_unit i t ht (armCond_X i)
    (wristCond_X t (List.mem_of_getElem? ht))

/-- conclusion of `candidate_arm_sound` and `candidate_wrist_sound` for the instance -/
example (i : ℕ) (t : J6 ℝ) (ht : (thetaCandidates pX poseX)[i]? = some t) :
    wcθ pX t = wc pX poseX ∧ (forwardTheta pX t).1 = poseX.q.toMat :=
  ⟨candidate_arm_sound pX poseX c2_pX (by rw [kappa_pX]; exact one_pos) i t ht (armCond_X i),
   candidate_wrist_sound pX poseX poseX_unit t (List.mem_of_getElem? ht)
     (wristCond_X t (List.mem_of_getElem? ht))⟩

/-- the solver for `pX` returns eight answers for `poseX`, all the same rigid motion as `poseX` -/
example : (inverseIntern pX poseX).length = 8 ∧
    ∀ s ∈ inverseIntern pX poseX, Iso.Same (forward pX s) poseX :=
  let h := all_reachable_eight_answers pX signsOk_pX poseX c2_pX (by rw [kappa_pX]; exact one_pos)
    poseX_unit frontReach_X backReach_X wristCond_X
  ⟨h.2.1, fun s hs => (h.2.2 s hs).2⟩

/-- and the 5-DOF solver, asked for J6 = 0.7: eight answers with the exact tool point and axis -/
example : (inverseIntern5 pX poseX 0.7).length = 8 ∧
    ∀ s ∈ inverseIntern5 pX poseX 0.7, s.j6 = 0.7 ∧ (forward pX s).t = poseX.t ∧
      (forward pX s).q.toMat.mulVec V3.ez = poseX.q.toMat.mulVec V3.ez :=
  inverse5_eight_answers pX signsOk_pX poseX c2_pX (by rw [kappa_pX]; exact one_pos) poseX_unit
    frontReach_X backReach_X wristCond_X 0.7

end Opw.C02d
