/-
  C02, clause "the answer set … has the same size for the pose of each returned solution".

  `inverse_intern` reads the requested pose only through its translation and its rotation MATRIX
  (`thetaCandidates` uses `pose.t` and `pose.q.toMat`; the run-time cross-check `compare_poses` uses the
  translation and `angle_to`, which does not see the sign of a unit quaternion).  A returned answer `s`
  reproduces the requested pose as a rigid motion (C02d) — its quaternion may be `−q` instead of `q`
  (`from_rotation_matrix ∘ to_rotation_matrix`) — so asking the solver for `forward s` gives THE SAME
  LIST of answers, in particular a list of the same size.  This removes the assumption
  `forward p s = forward p j` (equality of quaternions) of `C02c.same_count`.

  All theorems are [R]: the model text of `Kin.lean` evaluated with exact real arithmetic.
  Property theorems only; the staged lemmas live in `Lemmas/IkSame.lean`.
  Vocabulary (`Iso.Same`, `FrontReach`, `BackReach`, `wc`, `kappa`, `SignsOk`): see `Props/C02d.lean`.
-/
import OpwVerif.Lemmas.IkSame
import OpwVerif.Props.C02d
namespace Opw.C02e
open Opw Opw.Wrist Opw.C02 Opw.IkComplete Opw.IkSound Opw.IkSame

attribute [-simp] Opw.ofNatLit_real

/-! ### 1. The solver sees the rigid motion only -/

/-- [R] two poses with unit quaternions that are the same rigid motion (equal translation, equal
rotation matrix; the quaternions may differ in sign) get the same answer list from `inverse_intern`. -/
theorem inverseIntern_congr_same (p : Params ℝ) {a b : Iso ℝ} (ha : a.q.normSq = 1)
    (hb : b.q.normSq = 1) (h : Iso.Same a b) : inverseIntern p a = inverseIntern p b :=
  inverseIntern_congr p ha hb h

/-- [R] the second unit hypothesis is redundant: a pose that is the same rigid motion as a pose with
a unit quaternion has a unit quaternion -/
theorem inverseIntern_congr_same' (p : Params ℝ) {a b : Iso ℝ} (ha : a.q.normSq = 1)
    (h : Iso.Same a b) : inverseIntern p a = inverseIntern p b :=
  inverseIntern_congr p ha (unit_of_same ha h) h

/-- [R] the two ingredients: the raw candidates coincide, and `compare_poses` against either pose
gives the same verdict for every third pose and all tolerances (`angle_to` is literally invariant:
`Quat.angleTo a.neg x = Quat.angleTo a x`) -/
theorem solver_reads_motion_only (p : Params ℝ) {a b : Iso ℝ} (ha : a.q.normSq = 1)
    (hb : b.q.normSq = 1) (h : Iso.Same a b) :
    thetaCandidates p a = thetaCandidates p b ∧
      ∀ (x : Iso ℝ) (dT aT : ℝ), comparePoses a x dT aT = comparePoses b x dT aT :=
  ⟨thetaCandidates_congr p h, comparePoses_congr_left ha hb h⟩

/-- [R] the same for the public `inverse` of a robot not declared 5-DOF, without constraints -/
theorem inverse_congr_same (k : Opw ℝ) (hdof : k.p.dof ≠ 5) (hcons : k.cons = none) {a b : Iso ℝ}
    (ha : a.q.normSq = 1) (h : Iso.Same a b) : k.inverse a = k.inverse b := by
  rw [C02b.inverse_eq_intern k hdof hcons, C02b.inverse_eq_intern k hdof hcons]
  exact inverseIntern_congr_same' k.p ha h

/-! ### 2. Same size for the pose of a returned solution -/

/-- [R] C02, same size, no reachability assumption on the other branches: for ANY pose and any answer
`s` of `inverse_intern` that reproduces the pose as a rigid motion (true of every answer coming from
a reaching, wrist-regular candidate: `C02d.candidate_sound_joint`), the solver asked for the pose of `s`
returns the same list, hence a list of the same size.  The pose need not be assumed to have a unit
quaternion (it is the same rigid motion as `forward p s`, which has one). -/
theorem same_size_of_sound_answer (p : Params ℝ) (pose : Iso ℝ) (s : J6 ℝ)
    (h : Iso.Same (forward p s) pose) :
    inverseIntern p (forward p s) = inverseIntern p pose ∧
      (inverseIntern p (forward p s)).length = (inverseIntern p pose).length := by
  have e := inverseIntern_congr_same' p (forward_unit p s) h
  exact ⟨e, by rw [e]⟩

/-- [R] … for the answer built from the `i`-th raw candidate when the branch conditions of that
candidate hold (arm condition of its row, `sin θ5 ≠ 0`): it IS an answer, and the answer list for its
pose is the answer list for the requested pose -/
theorem same_size_of_candidate (p : Params ℝ) (hs : SignsOk p) (pose : Iso ℝ) (hc : 0 < p.c2)
    (hk : 0 < kappa p) (hq : pose.q.normSq = 1) (i : ℕ) (t : J6 ℝ)
    (ht : (thetaCandidates p pose)[i]? = some t) (ha : ArmCond p pose i) (h5 : Real.sin t.j5 ≠ 0) :
    (jointsOf p t).map normPi ∈ inverseIntern p pose ∧
      inverseIntern p (forward p ((jointsOf p t).map normPi)) = inverseIntern p pose :=
  ⟨C02d.candidate_is_answer p hs pose hc hk hq i t ht ha h5,
   (same_size_of_sound_answer p pose _
     (C02d.candidate_sound_joint p hs pose hc hk hq i t ht ha h5).2.1).1⟩

/-- [R] C02, same size for EVERY returned solution: if both shoulders reach the wrist centre and no
candidate is at the wrist singularity, then for every answer `s` of `inverse_intern p pose` the solver
asked for `forward p s` returns the same list, which has eight entries. -/
theorem same_size_for_every_answer (p : Params ℝ) (hs : SignsOk p) (pose : Iso ℝ) (hc : 0 < p.c2)
    (hk : 0 < kappa p) (hq : pose.q.normSq = 1) (hf : FrontReach p (wc p pose))
    (hb : BackReach p (wc p pose)) (hw : ∀ t ∈ thetaCandidates p pose, Real.sin t.j5 ≠ 0) :
    ∀ s ∈ inverseIntern p pose,
      inverseIntern p (forward p s) = inverseIntern p pose ∧
        (inverseIntern p (forward p s)).length = 8 := by
  obtain ⟨-, h8, hall⟩ := C02d.all_reachable_eight_answers p hs pose hc hk hq hf hb hw
  intro s hsm
  have e := (same_size_of_sound_answer p pose s (hall s hsm).2).1
  exact ⟨e, by rw [e, h8]⟩

/-- [R] the same for the public `inverse` of a 6-DOF robot without constraints -/
theorem inverse_same_size_for_every_answer (k : Opw ℝ) (hs : SignsOk k.p) (hdof : k.p.dof ≠ 5)
    (hcons : k.cons = none) (pose : Iso ℝ) (hc : 0 < k.p.c2) (hk : 0 < kappa k.p)
    (hq : pose.q.normSq = 1) (hf : FrontReach k.p (wc k.p pose)) (hb : BackReach k.p (wc k.p pose))
    (hw : ∀ t ∈ thetaCandidates k.p pose, Real.sin t.j5 ≠ 0) :
    ∀ s ∈ k.inverse pose,
      k.inverse (forward k.p s) = k.inverse pose ∧ (k.inverse (forward k.p s)).length = 8 := by
  intro s hsm
  rw [C02b.inverse_eq_intern k hdof hcons] at hsm ⊢
  rw [C02b.inverse_eq_intern k hdof hcons]
  exact same_size_for_every_answer k.p hs pose hc hk hq hf hb hw s hsm

/-- [R] … and any two returned solutions have answer sets of the same size (the same list) -/
theorem same_size_pairwise (p : Params ℝ) (hs : SignsOk p) (pose : Iso ℝ) (hc : 0 < p.c2)
    (hk : 0 < kappa p) (hq : pose.q.normSq = 1) (hf : FrontReach p (wc p pose))
    (hb : BackReach p (wc p pose)) (hw : ∀ t ∈ thetaCandidates p pose, Real.sin t.j5 ≠ 0)
    (s s' : J6 ℝ) (h : s ∈ inverseIntern p pose) (h' : s' ∈ inverseIntern p pose) :
    inverseIntern p (forward p s) = inverseIntern p (forward p s') :=
  ((same_size_for_every_answer p hs pose hc hk hq hf hb hw s h).1).trans
    ((same_size_for_every_answer p hs pose hc hk hq hf hb hw s' h').1).symm

/-! ### Non-vacuity (`pX`, `poseX` of `Lemmas/IkSound.lean`, see `Props/C02d.lean`) -/

/-- `poseX` and its sign-flipped twin are different poses that are the same rigid motion -/
example : Iso.Same poseX ⟨poseX.t, poseX.q.neg⟩ ∧ poseX ≠ ⟨poseX.t, poseX.q.neg⟩ ∧
    inverseIntern pX poseX = inverseIntern pX ⟨poseX.t, poseX.q.neg⟩ := by
  refine ⟨Iso.same_neg poseX, ?_, inverseIntern_congr_same' pX poseX_unit (Iso.same_neg poseX)⟩
  intro h
  have hw : (3 / 5 : ℝ) = -(3 / 5) := congrArg (fun x : Iso ℝ => x.q.w) h
  norm_num at hw

/-- every one of the eight answers for `poseX`: the solver asked for its pose returns the same eight -/
example : (inverseIntern pX poseX).length = 8 ∧ ∀ s ∈ inverseIntern pX poseX,
    inverseIntern pX (forward pX s) = inverseIntern pX poseX ∧
      (inverseIntern pX (forward pX s)).length = 8 :=
  ⟨(C02d.all_reachable_eight_answers pX signsOk_pX poseX c2_pX (by rw [kappa_pX]; exact one_pos)
      poseX_unit frontReach_X backReach_X wristCond_X).2.1,
   same_size_for_every_answer pX signsOk_pX poseX c2_pX (by rw [kappa_pX]; exact one_pos)
      poseX_unit frontReach_X backReach_X wristCond_X⟩

/-- the public `inverse` of the robot `⟨pX, none⟩` -/
example : ∀ s ∈ (⟨pX, none⟩ : Opw ℝ).inverse poseX,
    (⟨pX, none⟩ : Opw ℝ).inverse (forward pX s) = (⟨pX, none⟩ : Opw ℝ).inverse poseX ∧
      ((⟨pX, none⟩ : Opw ℝ).inverse (forward pX s)).length = 8 :=
  inverse_same_size_for_every_answer ⟨pX, none⟩ signsOk_pX (by simp only [pX]; decide) rfl poseX c2_pX
    (by rw [kappa_pX]; exact one_pos) poseX_unit frontReach_X backReach_X wristCond_X

/-- hypotheses of `same_size_of_sound_answer` / `same_size_of_candidate` for the instance: each raw
candidate gives an answer that is the same rigid motion as `poseX` -/
example (i : ℕ) (t : J6 ℝ) (ht : (thetaCandidates pX poseX)[i]? = some t) :
    (jointsOf pX t).map normPi ∈ inverseIntern pX poseX ∧
      Iso.Same (forward pX ((jointsOf pX t).map normPi)) poseX ∧
      inverseIntern pX (forward pX ((jointsOf pX t).map normPi)) = inverseIntern pX poseX :=
  have h5 := wristCond_X t (List.mem_of_getElem? ht)
  have hk : 0 < kappa pX := by rw [kappa_pX]; exact one_pos
  ⟨(same_size_of_candidate pX signsOk_pX poseX c2_pX hk poseX_unit i t ht (armCond_X i) h5).1,
   (C02d.candidate_sound_joint pX signsOk_pX poseX c2_pX hk poseX_unit i t ht (armCond_X i) h5).2.1,
   (same_size_of_candidate pX signsOk_pX poseX c2_pX hk poseX_unit i t ht (armCond_X i) h5).2⟩

end Opw.C02e
