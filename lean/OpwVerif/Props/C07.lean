/-
  C07 — Joint limits (`constraints.rs`): a joint vector is accepted by a constraint set exactly
  when, for every joint, the angle taken modulo 2π lies on the arc that starts at `from` and runs in
  the positive direction to `to` (wrapping when `from > to`), boundaries included.  Acceptance is
  invariant under adding whole turns to the angle or to both limits, a span of a full turn or more
  accepts everything, `from == to` means the joint is unconstrained, and the reported centre of every
  range is itself accepted.
  Property theorems only; helper lemmas live in `Lemmas/Limits.lean`.
  Kinds: [R] real arithmetic (the model text evaluated at `ℝ`), [G] generic (any number type, holds
  of the Float reading itself).
  Over `ℝ` there is no infinity (`infTol = 1/0 = 0`, `isInfinite` is constantly `false`), so the
  [R] theorems carry the hypothesis `from ≠ to`; the unconstrained case `from == to` is covered by
  the [G] theorems `centerTol_eq`, `insideBounds_of_infinite`, `unconstrained_accepts`.
-/
import OpwVerif.Lemmas.Limits
namespace Opw.C07
open Opw Opw.Limits Real

attribute [-simp] ofNatLit_real

/-! ### Specification vocabulary -/

/-- Upper end of the arc that starts at `f`: `t` itself when `f ≤ t`; when `t < f` the least
`t + 2πn` (`n : ℕ`) that is `≥ f` (see `unwrapTop_ge`, `unwrapTop_least`, `unwrapTop_sub_lt`).
Defined by a ceiling, not by the loop. -/
noncomputable def unwrapTop (f t : ℝ) : ℝ :=
  if t < f then t + 2 * π * (⌈(f - t) / (2 * π)⌉₊ : ℝ) else t

/-- `x`, taken modulo whole turns, lies on the closed arc from `f` in the positive direction to `t`. -/
def OnArc (f t x : ℝ) : Prop :=
  ∃ k : ℤ, f ≤ x + 2 * π * k ∧ x + 2 * π * k ≤ unwrapTop f t

/-- Hypothesis on one joint's limits for the [R] theorems: constrained (`from ≠ to`) and the
unwrap loop's fuel (`normFuel = 100000` iterations) suffices.  Implied by `|f|, |t| ≤ 4π`
(`limOk_of_abs_le`). -/
def LimOk (f t : ℝ) : Prop := f ≠ t ∧ (f - t) / (2 * π) < (normFuel : ℝ)

/-- `LimOk` for all six joints. -/
def LimsOk (fr tt : J6 ℝ) : Prop :=
  LimOk fr.j1 tt.j1 ∧ LimOk fr.j2 tt.j2 ∧ LimOk fr.j3 tt.j3 ∧
  LimOk fr.j4 tt.j4 ∧ LimOk fr.j5 tt.j5 ∧ LimOk fr.j6 tt.j6

/-- [R] limits within `±4π` (any robot's limits in radians) satisfy the fuel hypothesis -/
theorem limOk_of_abs_le {f t : ℝ} (hne : f ≠ t) (hf : |f| ≤ 4 * π) (ht : |t| ≤ 4 * π) : LimOk f t :=
  ⟨hne, fuel_of_abs_le hf ht⟩

/-- non-vacuity: the wrapping pair `from = 3`, `to = 1` -/
example : LimOk 3 1 :=
  limOk_of_abs_le (by norm_num) (by rw [abs_of_pos (by norm_num)]; linarith [pi_gt_three])
    (by rw [abs_of_pos (by norm_num)]; linarith [pi_gt_three])

/-! ### The spec's `unwrapTop` is what its doc comment says -/

/-- [R] uniform closed form (the ceiling is `0` when `f ≤ t`) -/
theorem unwrapTop_eq (f t : ℝ) : unwrapTop f t = t + 2 * π * (⌈(f - t) / (2 * π)⌉₊ : ℝ) := by
  unfold unwrapTop
  split_ifs with h
  · rfl
  · exact (ceilTop_of_le (not_lt.mp h)).symm

/-- [R] no wrapping when `f ≤ t` -/
theorem unwrapTop_of_le {f t : ℝ} (h : f ≤ t) : unwrapTop f t = t := if_neg (not_lt.mpr h)

/-- [R] the top is `t` plus a natural number of turns -/
theorem unwrapTop_turns (f t : ℝ) : ∃ n : ℕ, unwrapTop f t = t + 2 * π * n :=
  ⟨_, unwrapTop_eq f t⟩

/-- [R] the top is not below `f` -/
theorem unwrapTop_ge (f t : ℝ) : f ≤ unwrapTop f t := by
  rw [unwrapTop_eq]; exact le_ceilTop f t

/-- [R] the top is the least `t + 2πn`, `n : ℕ`, not below `f` -/
theorem unwrapTop_least {f t : ℝ} (n : ℕ) (h : f ≤ t + 2 * π * n) : unwrapTop f t ≤ t + 2 * π * n := by
  rw [unwrapTop_eq]; exact ceilTop_least n h

/-- [R] when wrapping, the top is less than one turn above `f` -/
theorem unwrapTop_sub_lt {f t : ℝ} (h : t < f) : unwrapTop f t - 2 * π < f := by
  rw [unwrapTop_eq]; exact ceilTop_sub_lt h.le

/-- [R] the usual case `t < f ≤ t + 2π` (e.g. both limits in `(-π, π]`): exactly one turn is added -/
theorem unwrapTop_of_wrap {f t : ℝ} (h1 : t < f) (h2 : f ≤ t + 2 * π) : unwrapTop f t = t + 2 * π := by
  rw [unwrapTop_eq]
  have h := turn_count_unique (n := ⌈(f - t) / (2 * π)⌉₊) (m := 1) (le_ceilTop f t)
    (ceilTop_sub_lt h1.le) (by push_cast; linarith) (by push_cast; linarith)
  rw [h]; push_cast; ring

example : unwrapTop 3 1 = 1 + 2 * π :=
  unwrapTop_of_wrap (by norm_num) (by linarith [pi_gt_three])

/-! ### 1. Core: `insideBounds` is "some whole-turn translate of the angle is within `tol` of the centre" -/

/-- [R] `inside_bounds` over the reals -/
theorem insideBounds_iff (a c tol : ℝ) :
    insideBounds a c tol = true ↔ ∃ k : ℤ, |a + 2 * π * k - c| ≤ tol :=
  insideBounds_real_iff a c tol

/-- non-vacuity: angle `7`, centre `1`, tolerance `1/2` is accepted (via `k = -1`, `7 − 2π ≈ 0.717`);
with tolerance `0` the centre itself is accepted -/
example : insideBounds (7 : ℝ) 1 (1 / 2) = true ∧ insideBounds (1 : ℝ) 1 0 = true := by
  constructor
  · rw [insideBounds_iff]
    refine ⟨-1, ?_⟩
    rw [abs_le]; push_cast
    constructor <;> linarith [pi_gt_three, pi_lt_d2]
  · rw [insideBounds_iff]
    exact ⟨0, by push_cast; norm_num⟩

/-! ### 2. The unwrap loop `while to < from { to += 2π }` -/

/-- [R] with enough fuel the loop returns `b` plus a natural number of turns, the first value that
is `≥ a` -/
theorem unwrapTo_spec (fuel : ℕ) (a b : ℝ) (hab : b < a) (hfuel : (a - b) / (2 * π) < fuel) :
    a ≤ unwrapTo fuel a b ∧ unwrapTo fuel a b - 2 * π < a ∧
      ∃ n : ℕ, unwrapTo fuel a b = b + 2 * π * n := by
  rw [unwrapTo_eq fuel a b hfuel]
  exact ⟨le_ceilTop a b, ceilTop_sub_lt hab.le, _, rfl⟩

/-- [R] the number of turns is unique: any `n : ℕ` with `b + 2π(n−1) < a ≤ b + 2πn` gives the result -/
theorem unwrapTo_unique (fuel : ℕ) (a b : ℝ) (hab : b < a) (hfuel : (a - b) / (2 * π) < fuel)
    (n : ℕ) (h1 : a ≤ b + 2 * π * n) (h2 : b + 2 * π * n - 2 * π < a) :
    unwrapTo fuel a b = b + 2 * π * n := by
  rw [unwrapTo_eq fuel a b hfuel,
    turn_count_unique (le_ceilTop a b) (ceilTop_sub_lt hab.le) h1 h2]

/-- [R] the loop computes the spec's `unwrapTop` (for either order of `a`, `b`) -/
theorem unwrapTo_eq_unwrapTop (fuel : ℕ) (a b : ℝ) (hfuel : (a - b) / (2 * π) < fuel) :
    unwrapTo fuel a b = unwrapTop a b := by
  rw [unwrapTo_eq fuel a b hfuel, unwrapTop_eq]

/-- [R] specialisation to the model's fuel for limits within `±4π` -/
theorem unwrapTo_normFuel (a b : ℝ) (ha : |a| ≤ 4 * π) (hb : |b| ≤ 4 * π) (hab : b < a) :
    a ≤ unwrapTo normFuel a b ∧ unwrapTo normFuel a b - 2 * π < a ∧
      ∃ n : ℕ, unwrapTo normFuel a b = b + 2 * π * n :=
  unwrapTo_spec normFuel a b hab (fuel_of_abs_le ha hb)

/-- non-vacuity: `from = 3`, `to = 1` unwraps to `1 + 2π` -/
example : unwrapTo normFuel (3 : ℝ) 1 = 1 + 2 * π := by
  have h : ((3 : ℝ) - 1) / (2 * π) < (normFuel : ℝ) :=
    fuel_of_abs_le (by rw [abs_of_pos (by norm_num)]; linarith [pi_gt_three])
      (by rw [abs_of_pos (by norm_num)]; linarith [pi_gt_three])
  rw [unwrapTo_eq_unwrapTop _ _ _ h]
  exact unwrapTop_of_wrap (by norm_num) (by linarith [pi_gt_three])

/-! ### 3. Acceptance is membership of the arc -/

/-- [R] one joint: the centre/tolerance pair computed by `compute_centers` makes `inside_bounds`
accept exactly the angles on the closed arc from `f` to `t` -/
theorem inside_iff_onArc {f t : ℝ} (h : LimOk f t) (x : ℝ) :
    insideBounds x (centerTol f t).1 (centerTol f t).2 = true ↔ OnArc f t x := by
  rw [centerTol_real h.1 h.2]
  dsimp only
  rw [insideBounds_mid_iff]
  unfold OnArc
  rw [unwrapTop_eq]

/-- [R] the same with the explicit bound `|f|, |t| ≤ 4π` -/
theorem inside_iff_onArc_of_bounds {f t : ℝ} (hne : f ≠ t) (hf : |f| ≤ 4 * π) (ht : |t| ≤ 4 * π)
    (x : ℝ) : insideBounds x (centerTol f t).1 (centerTol f t).2 = true ↔ OnArc f t x :=
  inside_iff_onArc (limOk_of_abs_le hne hf ht) x

/-- [R] boundaries included: `from` is accepted -/
theorem from_accepted {f t : ℝ} (h : LimOk f t) :
    insideBounds f (centerTol f t).1 (centerTol f t).2 = true := by
  rw [inside_iff_onArc h]
  exact ⟨0, by push_cast; linarith, by push_cast; linarith [unwrapTop_ge f t]⟩

/-- [R] boundaries included: `to` is accepted -/
theorem to_accepted {f t : ℝ} (h : LimOk f t) :
    insideBounds t (centerTol f t).1 (centerTol f t).2 = true := by
  rw [inside_iff_onArc h]
  refine ⟨(⌈(f - t) / (2 * π)⌉₊ : ℕ), ?_, ?_⟩
  · push_cast; exact le_ceilTop f t
  · push_cast; rw [unwrapTop_eq]

/-- [R] `OnArc` without wrapping (`f < t`): some translate of `x` lies in `[f, t]` -/
theorem onArc_iff_of_lt {f t : ℝ} (h : f < t) (x : ℝ) :
    OnArc f t x ↔ ∃ k : ℤ, f ≤ x + 2 * π * k ∧ x + 2 * π * k ≤ t := by
  unfold OnArc; rw [unwrapTop_of_le h.le]

/-- [R] `OnArc` with wrapping (`t < f ≤ t + 2π`): some translate of `x` lies in `[f, t + 2π]` -/
theorem onArc_iff_of_wrap {f t : ℝ} (h1 : t < f) (h2 : f ≤ t + 2 * π) (x : ℝ) :
    OnArc f t x ↔ ∃ k : ℤ, f ≤ x + 2 * π * k ∧ x + 2 * π * k ≤ t + 2 * π := by
  unfold OnArc; rw [unwrapTop_of_wrap h1 h2]

/-- non-vacuity and discrimination: for `from = 3`, `to = 1` (arc `[3, 1 + 2π]`) the angle `0`
(≡ `2π`) is accepted and the angle `2` is rejected -/
example : insideBounds (0 : ℝ) (centerTol (3 : ℝ) 1).1 (centerTol (3 : ℝ) 1).2 = true ∧
    insideBounds (2 : ℝ) (centerTol (3 : ℝ) 1).1 (centerTol (3 : ℝ) 1).2 = false := by
  have hl : LimOk 3 1 :=
    limOk_of_abs_le (by norm_num) (by rw [abs_of_pos (by norm_num)]; linarith [pi_gt_three])
      (by rw [abs_of_pos (by norm_num)]; linarith [pi_gt_three])
  have h1 : (1 : ℝ) < 3 := by norm_num
  have h2 : (3 : ℝ) ≤ 1 + 2 * π := by linarith [pi_gt_three]
  constructor
  · rw [inside_iff_onArc hl, onArc_iff_of_wrap h1 h2]
    exact ⟨1, by push_cast; linarith [pi_gt_three], by push_cast; linarith [pi_gt_three]⟩
  · rw [← Bool.not_eq_true, inside_iff_onArc hl, onArc_iff_of_wrap h1 h2]
    rintro ⟨k, hk1, hk2⟩
    rcases le_or_gt k 0 with hk | hk
    · have : (k : ℝ) ≤ 0 := by exact_mod_cast hk
      nlinarith [pi_pos]
    · have : (1 : ℝ) ≤ k := by exact_mod_cast hk
      nlinarith [pi_pos]

/-- [R] `Constraints::compliant` on a constraint set built by `Constraints::new`: accepted exactly
when every joint is on its arc -/
theorem compliant_iff_arc (fr tt : J6 ℝ) (w : ℝ) (h : LimsOk fr tt) (a : J6 ℝ) :
    (Constraints.mk' fr tt w).compliant a = true ↔
      OnArc fr.j1 tt.j1 a.j1 ∧ OnArc fr.j2 tt.j2 a.j2 ∧ OnArc fr.j3 tt.j3 a.j3 ∧
      OnArc fr.j4 tt.j4 a.j4 ∧ OnArc fr.j5 tt.j5 a.j5 ∧ OnArc fr.j6 tt.j6 a.j6 := by
  obtain ⟨h1, h2, h3, h4, h5, h6⟩ := h
  rw [compliant_mk']
  simp only [Bool.and_eq_true, inside_iff_onArc h1, inside_iff_onArc h2, inside_iff_onArc h3,
    inside_iff_onArc h4, inside_iff_onArc h5, inside_iff_onArc h6, and_assoc]

/-- non-vacuity: a constraint set mixing wrapping and non-wrapping joints satisfies `LimsOk` -/
example : LimsOk ⟨3, -1, 3, -2, 3, -3⟩ ⟨1, 1, 1, 2, 1, 3⟩ := by
  have hp := pi_gt_three
  have ok : ∀ f t : ℝ, f ≠ t → |f| ≤ 3 → |t| ≤ 3 → LimOk f t := fun f t hne hf ht =>
    limOk_of_abs_le hne (by linarith) (by linarith)
  refine ⟨ok _ _ ?_ ?_ ?_, ok _ _ ?_ ?_ ?_, ok _ _ ?_ ?_ ?_, ok _ _ ?_ ?_ ?_, ok _ _ ?_ ?_ ?_,
    ok _ _ ?_ ?_ ?_⟩ <;> norm_num [abs_le]

/-! ### 4. Corollaries -/

/-- [R] `OnArc` only depends on the angle modulo whole turns -/
theorem onArc_add_turn_angle (f t x : ℝ) (k : ℤ) : OnArc f t (x + 2 * π * k) ↔ OnArc f t x := by
  unfold OnArc
  constructor
  · rintro ⟨j, h1, h2⟩
    refine ⟨k + j, ?_, ?_⟩ <;> push_cast <;> linarith
  · rintro ⟨j, h1, h2⟩
    refine ⟨j - k, ?_, ?_⟩ <;> push_cast <;> linarith

/-- [R] "the angle taken modulo 2π": `x` is on the arc iff its representative in `[0, 2π)` is -/
theorem onArc_mod (f t x : ℝ) : OnArc f t x ↔ OnArc f t (x - 2 * π * ⌊x / (2 * π)⌋) := by
  have h := onArc_add_turn_angle f t x (-⌊x / (2 * π)⌋)
  rw [← h]
  have e : x + 2 * π * ((-⌊x / (2 * π)⌋ : ℤ) : ℝ) = x - 2 * π * ⌊x / (2 * π)⌋ := by
    push_cast; ring
  rw [e]

/-- [R] one joint: adding whole turns to the angle does not change the verdict (any centre, any
tolerance) -/
theorem inside_add_turn_angle (x c tol : ℝ) (k : ℤ) :
    insideBounds (x + 2 * π * k) c tol = insideBounds x c tol :=
  insideBounds_add_turn x c tol k

/-- [R] `compliant` is invariant under adding whole turns (independently per joint) to the angles,
for every constraint set -/
theorem compliant_add_turn_angle (c : Constraints ℝ) (a : J6 ℝ) (k1 k2 k3 k4 k5 k6 : ℤ) :
    c.compliant ⟨a.j1 + 2 * π * k1, a.j2 + 2 * π * k2, a.j3 + 2 * π * k3,
                 a.j4 + 2 * π * k4, a.j5 + 2 * π * k5, a.j6 + 2 * π * k6⟩ = c.compliant a := by
  unfold Constraints.compliant
  simp only [insideBounds_add_turn]

example : ∀ c : Constraints ℝ, c.compliant ⟨7 + 2 * π * (3 : ℤ), 0 + 2 * π * (-2 : ℤ), 1 + 2 * π * (0 : ℤ),
    2 + 2 * π * (1 : ℤ), 3 + 2 * π * (5 : ℤ), 4 + 2 * π * (-1 : ℤ)⟩ = c.compliant ⟨7, 0, 1, 2, 3, 4⟩ :=
  fun c => compliant_add_turn_angle c ⟨7, 0, 1, 2, 3, 4⟩ 3 (-2) 0 1 5 (-1)

/-- [R] shifting both limits by the same whole number of turns shifts the spec's top likewise -/
theorem unwrapTop_add_turn (f t : ℝ) (m : ℤ) :
    unwrapTop (f + 2 * π * m) (t + 2 * π * m) = unwrapTop f t + 2 * π * m := by
  rw [unwrapTop_eq, unwrapTop_eq, show f + 2 * π * m - (t + 2 * π * m) = f - t by ring]
  ring

/-- [R] the arc, as a set of angles modulo 2π, is unchanged when both limits are shifted by the same
whole number of turns -/
theorem onArc_add_turn_limits (f t x : ℝ) (m : ℤ) :
    OnArc (f + 2 * π * m) (t + 2 * π * m) x ↔ OnArc f t x := by
  unfold OnArc
  rw [unwrapTop_add_turn]
  constructor
  · rintro ⟨j, h1, h2⟩
    refine ⟨j - m, ?_, ?_⟩ <;> push_cast <;> linarith
  · rintro ⟨j, h1, h2⟩
    refine ⟨j + m, ?_, ?_⟩ <;> push_cast <;> linarith

/-- [R] `compute_centers` under a whole-turn shift of both limits: the centre shifts, the tolerance
stays -/
theorem centerTol_add_turn_limits {f t : ℝ} (h : LimOk f t) (m : ℤ) :
    centerTol (f + 2 * π * m) (t + 2 * π * m) = ((centerTol f t).1 + 2 * π * m, (centerTol f t).2) :=
  centerTol_shift h.1 h.2 m

/-- [R] one joint: both limits shifted by the same whole number of turns give the same verdict -/
theorem inside_add_turn_limits {f t : ℝ} (h : LimOk f t) (m : ℤ) (x : ℝ) :
    insideBounds x (centerTol (f + 2 * π * m) (t + 2 * π * m)).1
        (centerTol (f + 2 * π * m) (t + 2 * π * m)).2 =
      insideBounds x (centerTol f t).1 (centerTol f t).2 := by
  rw [centerTol_add_turn_limits h m]
  exact insideBounds_add_turn_centre _ _ _ _

/-- [R] `compliant` is unchanged when, per joint, both limits are shifted by the same whole number
of turns -/
theorem compliant_add_turn_limits (fr tt : J6 ℝ) (w : ℝ) (h : LimsOk fr tt)
    (m1 m2 m3 m4 m5 m6 : ℤ) (a : J6 ℝ) :
    (Constraints.mk'
        ⟨fr.j1 + 2 * π * m1, fr.j2 + 2 * π * m2, fr.j3 + 2 * π * m3,
         fr.j4 + 2 * π * m4, fr.j5 + 2 * π * m5, fr.j6 + 2 * π * m6⟩
        ⟨tt.j1 + 2 * π * m1, tt.j2 + 2 * π * m2, tt.j3 + 2 * π * m3,
         tt.j4 + 2 * π * m4, tt.j5 + 2 * π * m5, tt.j6 + 2 * π * m6⟩ w).compliant a =
      (Constraints.mk' fr tt w).compliant a := by
  obtain ⟨h1, h2, h3, h4, h5, h6⟩ := h
  rw [compliant_mk', compliant_mk']
  dsimp only
  rw [inside_add_turn_limits h1, inside_add_turn_limits h2, inside_add_turn_limits h3,
    inside_add_turn_limits h4, inside_add_turn_limits h5, inside_add_turn_limits h6]

/-- non-vacuity: `from = 3`, `to = 1` and `from = 3 − 2π`, `to = 1 − 2π` accept the same angles -/
example (x : ℝ) :
    insideBounds x (centerTol (3 + 2 * π * (-1 : ℤ)) (1 + 2 * π * (-1 : ℤ))).1
        (centerTol (3 + 2 * π * (-1 : ℤ)) (1 + 2 * π * (-1 : ℤ))).2 =
      insideBounds x (centerTol (3 : ℝ) 1).1 (centerTol (3 : ℝ) 1).2 :=
  inside_add_turn_limits
    (limOk_of_abs_le (by norm_num) (by rw [abs_of_pos (by norm_num)]; linarith [pi_gt_three])
      (by rw [abs_of_pos (by norm_num)]; linarith [pi_gt_three])) (-1) x

/-- [R] a span of a full turn or more accepts every angle -/
theorem full_turn_accepts_all {f t : ℝ} (h1 : f < t) (h2 : 2 * π ≤ t - f) (x : ℝ) :
    insideBounds x (centerTol f t).1 (centerTol f t).2 = true := by
  have h2p := Real.two_pi_pos
  rw [centerTol_real_lt h1]
  dsimp only
  rw [insideBounds_mid_iff]
  refine ⟨⌈(f - x) / (2 * π)⌉, ?_, ?_⟩
  · have h := Int.le_ceil ((f - x) / (2 * π))
    have h3 := mul_le_mul_of_nonneg_left h h2p.le
    have e : 2 * π * ((f - x) / (2 * π)) = f - x := by field_simp
    linarith
  · have h := Int.ceil_lt_add_one ((f - x) / (2 * π))
    have h3 := mul_lt_mul_of_pos_left h h2p
    have e : 2 * π * ((f - x) / (2 * π) + 1) = f - x + 2 * π := by field_simp
    linarith

/-- [R] the same for the whole constraint set: if every joint spans a full turn or more, every joint
vector is compliant -/
theorem full_turn_compliant (fr tt : J6 ℝ) (w : ℝ)
    (h1 : fr.j1 < tt.j1 ∧ 2 * π ≤ tt.j1 - fr.j1) (h2 : fr.j2 < tt.j2 ∧ 2 * π ≤ tt.j2 - fr.j2)
    (h3 : fr.j3 < tt.j3 ∧ 2 * π ≤ tt.j3 - fr.j3) (h4 : fr.j4 < tt.j4 ∧ 2 * π ≤ tt.j4 - fr.j4)
    (h5 : fr.j5 < tt.j5 ∧ 2 * π ≤ tt.j5 - fr.j5) (h6 : fr.j6 < tt.j6 ∧ 2 * π ≤ tt.j6 - fr.j6)
    (a : J6 ℝ) : (Constraints.mk' fr tt w).compliant a = true := by
  rw [compliant_mk', full_turn_accepts_all h1.1 h1.2, full_turn_accepts_all h2.1 h2.2,
    full_turn_accepts_all h3.1 h3.2, full_turn_accepts_all h4.1 h4.2,
    full_turn_accepts_all h5.1 h5.2, full_turn_accepts_all h6.1 h6.2]
  rfl

/-- non-vacuity: limits `[-4, 4]` (span `8 > 2π`) accept every angle -/
example (x : ℝ) : insideBounds x (centerTol (-4 : ℝ) 4).1 (centerTol (-4 : ℝ) 4).2 = true :=
  full_turn_accepts_all (by norm_num) (by linarith [pi_lt_d2]) x

/-- [R] the reported centre of a range is itself accepted -/
theorem centre_accepted {f t : ℝ} (h : LimOk f t) :
    insideBounds (centerTol f t).1 (centerTol f t).1 (centerTol f t).2 = true := by
  rw [insideBounds_iff]
  refine ⟨0, ?_⟩
  have e : (centerTol f t).1 + 2 * π * ((0 : ℤ) : ℝ) - (centerTol f t).1 = 0 := by
    push_cast; ring
  rw [e, abs_zero]
  exact centerTol_tol_nonneg h.1 h.2

/-- [R] the centres reported by a constructed constraint set form a compliant joint vector -/
theorem centres_compliant (fr tt : J6 ℝ) (w : ℝ) (h : LimsOk fr tt) :
    (Constraints.mk' fr tt w).compliant (Constraints.mk' fr tt w).centers = true := by
  obtain ⟨h1, h2, h3, h4, h5, h6⟩ := h
  rw [compliant_mk']
  show (insideBounds (centerTol fr.j1 tt.j1).1 _ _ && insideBounds (centerTol fr.j2 tt.j2).1 _ _ &&
    insideBounds (centerTol fr.j3 tt.j3).1 _ _ && insideBounds (centerTol fr.j4 tt.j4).1 _ _ &&
    insideBounds (centerTol fr.j5 tt.j5).1 _ _ && insideBounds (centerTol fr.j6 tt.j6).1 _ _) = true
  rw [centre_accepted h1, centre_accepted h2, centre_accepted h3, centre_accepted h4,
    centre_accepted h5, centre_accepted h6]
  rfl

/-- non-vacuity: the centre of the wrapping range `from = 3`, `to = 1` is `2 + π` -/
example : (centerTol (3 : ℝ) 1).1 = 2 + π ∧
    insideBounds (2 + π) (centerTol (3 : ℝ) 1).1 (centerTol (3 : ℝ) 1).2 = true := by
  have hl : LimOk 3 1 :=
    limOk_of_abs_le (by norm_num) (by rw [abs_of_pos (by norm_num)]; linarith [pi_gt_three])
      (by rw [abs_of_pos (by norm_num)]; linarith [pi_gt_three])
  have hc : (centerTol (3 : ℝ) 1).1 = 2 + π := by
    rw [centerTol_real hl.1 hl.2, ← unwrapTop_eq,
      unwrapTop_of_wrap (by norm_num) (by linarith [pi_gt_three])]
    show (3 + (1 + 2 * π)) / 2 = 2 + π
    ring
  refine ⟨hc, ?_⟩
  have h := centre_accepted hl
  rw [hc] at h ⊢
  exact h

/-! ### Generic statements (any number type; hold of the Float reading itself) -/

/-- [G] an infinite tolerance accepts every angle -/
theorem insideBounds_of_infinite {R : Type} [OpwNum R] (a c tol : R) :
    isInfinite tol = true → insideBounds a c tol = true :=
  insideBounds_of_isInfinite a c tol

/-- [G] `from == to` (Rust `==`) gives the infinite tolerance `1.0 / 0.0` -/
theorem centerTol_eq {R : Type} [OpwNum R] (a b : R) :
    feq a b = true → (centerTol a b).2 = infTol := fun h => by
  rw [centerTol_of_feq a b h]

/-- [G] `from == to` means unconstrained: every angle is accepted, provided `1.0 / 0.0` is infinite in
the number type (true for `f64`; false for `ℝ`, which is why the [R] theorems assume `from ≠ to`) -/
theorem unconstrained_accepts {R : Type} [OpwNum R] (a b x : R) (h : feq a b = true)
    (hinf : isInfinite (infTol : R) = true) :
    insideBounds x (centerTol a b).1 (centerTol a b).2 = true := by
  rw [centerTol_of_feq a b h]
  exact insideBounds_of_isInfinite _ _ _ hinf

/-- [G] `Constraints::from_degrees` is `Constraints::new` on the limits converted by `to_radians` -/
theorem ofDegrees_eq_mk' {R : Type} [OpwNum R] (f t : J6 R) (w : R) :
    Constraints.ofDegrees f t w = Constraints.mk' (f.map toRadians) (t.map toRadians) w := rfl

/-- [G] `Constraints::filter` keeps exactly the compliant elements (order and multiplicity preserved:
it is `List.filter`) -/
theorem filter_spec {R : Type} [OpwNum R] (c : Constraints R) (l : List (J6 R)) (s : J6 R) :
    s ∈ c.filter l ↔ s ∈ l ∧ c.compliant s = true := by
  unfold Constraints.filter
  exact List.mem_filter

/-- [G] `filter` is literally `List.filter compliant` -/
theorem filter_eq {R : Type} [OpwNum R] (c : Constraints R) (l : List (J6 R)) :
    c.filter l = l.filter c.compliant := rfl

end Opw.C07
