/-
  C13 (addendum) — what `plan_rrt` makes of `dual_rrt_connect`: the acceptance test of a tree node is the closure that the
  translator reads from the CURRENT text of `RRTPlanner::plan_path` (`Generated/SrcRrt.lean`, rewritten by
  `tools/rs2lean_rrt.py` on every run): "inside the joint limits of the robot AND not reported colliding by the same robot".
  With the generic theorems of `Props/C13.lean` this gives the statement of the property for the real planner entry point:
  every interior node of a returned path is a six-joint vector that is within limits and collision-free, and a cancellation
  flag that is already raised yields no path.  [G] generic in the number type.
-/
import OpwVerif.Props.C13
import OpwVerif.Generated.SrcRrt
namespace Opw.C13b
open Opw

variable {R : Type} [OpwNum R]

/-- [G] what acceptance by the source's closure means -/
theorem collisionFree_spec (cons : Option (Constraints R)) (collides : J6 R → Bool) (q : List R)
    (h : SrcRrt.collisionFreeSrc cons collides q = true) :
    ∃ j : J6 R, q = [j.j1, j.j2, j.j3, j.j4, j.j5, j.j6] ∧ (∀ c, cons = some c → c.compliant j = true) ∧ collides j = false := by
  unfold SrcRrt.collisionFreeSrc at h
  match q, h with
  | [a, b, c, d, e, f], h =>
    refine ⟨⟨a, b, c, d, e, f⟩, rfl, ?_, ?_⟩
    · intro cc hcc
      subst hcc
      simp only [Bool.and_eq_true] at h
      exact h.1
    · simp only [Bool.and_eq_true, Bool.not_eq_true'] at h
      exact h.2

/-- [G] C13 for the planner entry point: every node of a returned path other than the given start and goal is a six-joint
vector inside the joint limits of the robot and not reported colliding by that robot — for every robot (`cons`, `collides`),
sample stream, step, try budget and cancellation history -/
theorem plan_rrt_nodes_legal_and_free (cons : Option (Constraints R)) (collides : J6 R → Bool)
    {start goal : Cfg R} {samples : List (Cfg R)} {ext : R} {maxTry : Nat} {stop : Nat → Bool} {p : List (Cfg R)}
    (h : dualRrtConnect start goal (SrcRrt.collisionFreeSrc cons collides) samples ext maxTry stop = .path p)
    (k : Nat) (h1 : 0 < k) (h2 : k + 1 < p.length) :
    ∃ j : J6 R, p[k]'(by omega) = [j.j1, j.j2, j.j3, j.j4, j.j5, j.j6] ∧ (∀ c, cons = some c → c.compliant j = true) ∧
      collides j = false :=
  collisionFree_spec cons collides _ (C13.path_free h k h1 h2)

/-- [G] non-vacuity: a vector inside the limits that the robot reports free is accepted -/
example (c : Constraints R) (collides : J6 R → Bool) (j : J6 R) (hc : c.compliant j = true) (hf : collides j = false) :
    SrcRrt.collisionFreeSrc (some c) collides [j.j1, j.j2, j.j3, j.j4, j.j5, j.j6] = true := by
  cases j
  simp_all [SrcRrt.collisionFreeSrc]

end Opw.C13b
