/-
  C01c — C01 closed over ℝ: every joint vector RETURNED by an inverse entry point (after constraint
  filtering, sorting and the final `normalize_near`) reproduces the REQUESTED pose under the
  independent forward kinematics `forward`:

    entry point                          position error                       rotation error
    `inverse` (not 5-DOF)                ≤ DISTANCE_TOLERANCE                 ≤ ANGULAR_TOLERANCE
    `inverse_continuing` (not 5-DOF)     ≤ DISTANCE_TOLERANCE + SING._SHIFT   ≤ ANGULAR_TOLERANCE
      … unshifted solve non-empty        ≤ DISTANCE_TOLERANCE                 ≤ ANGULAR_TOLERANCE
    `inverse_5dof`, `inverse` (5-DOF)    ≤ DISTANCE_TOLERANCE                 (not checked)
    `inverse_continuing_5dof`, …         ≤ DISTANCE_TOLERANCE                 (not checked)

  with `DISTANCE_TOLERANCE ≤ 1e-6`, `ANGULAR_TOLERANCE ≤ 1e-6`,
  `DISTANCE_TOLERANCE + SINGULARITY_SHIFT ≤ 1.125e-6` (section 6).

  This closes the two gaps `C01.inverseContinuing_sound_partial` leaves:
  (a) raw solutions of a SHIFTED pose were cross-checked against the shifted pose only — the shift is
      `SINGULARITY_SHIFT` long and does not touch the rotation, so the triangle inequality gives
      `distTol + singShift` against the requested pose;
  (b) the final `normalize_near` moves every joint by whole turns, which `forward` does not see.

  (b) needs a hypothesis on the sign corrections: `SignsInt p` — every sign correction is an
  INTEGER (weaker than `C02.SignsOk p`, "every sign is ±1", which implies it:
  `SoundReal.SignsInt.of_signsOk`).  It cannot be dropped: with a sign `1/2` a whole turn of the
  joint is half a turn of θ (`SoundReal.mul_half_not_turnEq`).  The entry points without a final
  `normalize_near` (`inverse`, `inverse_5dof`) need no hypothesis on the signs at all.

  All theorems are [R]: the model text of `Kin.lean` evaluated with exact real arithmetic.
  Helper lemmas live in `Lemmas/SoundReal.lean`.
-/
import OpwVerif.Lemmas.SoundReal
import OpwVerif.Lemmas.Stack
import OpwVerif.Props.C01
import OpwVerif.Props.C04
import OpwVerif.Props.C06b
namespace Opw.C01c
open Opw Opw.SoundReal

attribute [-simp] Opw.ofNatLit_real

/-! ### Example data: the robot `pEx` of C02 (mixed signs `+ + − − − −`, offsets) and the joint
vector `jEx` of C02b, whose pose the solver is asked for -/

/-- `pEx` without constraints -/
noncomputable def kEx : Opw ℝ := ⟨C02.pEx, none⟩
/-- `pEx` declared 5-DOF, without constraints -/
noncomputable def kEx5 : Opw ℝ := ⟨C06b.pEx5, none⟩

theorem kEx_dof : kEx.p.dof ≠ 5 := by decide
theorem kEx_signs : SignsInt kEx.p := SignsInt.of_signsOk C02b.signsOk_pEx
theorem kEx5_signs : SignsInt kEx5.p := SignsInt.of_signsOk C02b.signsOk_pEx

theorem kEx_mem_inverse : C02b.jEx ∈ kEx.inverse (forward C02.pEx C02b.jEx) :=
  C02b.inverse_roundtrip kEx C02b.signsOk_pEx (by decide) rfl C02b.offsets_pEx C02b.jEx
    C02b.insidePi_jEx C02b.nonSingular_ex

theorem kEx_mem_intern : C02b.jEx ∈ inverseIntern kEx.p (forward C02.pEx C02b.jEx) := by
  have h := kEx_mem_inverse
  unfold Opw.inverse at h
  rw [if_neg (by simpa using kEx_dof)] at h
  exact mem_of_mem_filterCompliant h

theorem kEx_mem_continuing (prev : J6 ℝ) :
    C02b.jEx.normalizeNear prev ∈ kEx.inverseContinuing (forward C02.pEx C02b.jEx) prev :=
  C04.inverse_subset_inverseContinuing kEx _ prev kEx_dof _ kEx_mem_inverse

theorem kEx5_mem_inverse5dof (j6 : ℝ) :
    ({ C02b.jEx with j6 := j6 } : J6 ℝ) ∈ kEx5.inverse5dof (forward C06b.pEx5 C02b.jEx) j6 :=
  C06b.inverse5dof_roundtrip kEx5 C02b.signsOk_pEx rfl C02b.offsets_pEx C02b.jEx j6
    C06b.insidePi5_jEx C06b.nonSingular_ex5

theorem kEx5_mem_continuing5dof :
    ({ C02b.jEx with j6 := C02b.jEx.j6 } : J6 ℝ) ∈
      kEx5.inverseContinuing5dof (forward C06b.pEx5 C02b.jEx) C02b.jEx :=
  C06b.inverseContinuing5dof_roundtrip kEx5 C02b.signsOk_pEx rfl C02b.offsets_pEx C02b.jEx C02b.jEx
    C06b.insidePi5_jEx
    (by
      have := Real.pi_pos
      refine ⟨?_, ?_, ?_, ?_, ?_⟩ <;> rw [sub_self, abs_zero] <;> exact this.le)
    C06b.nonSingular_ex5

/-! ### 1. `inverse_continuing`, robot not declared 5-DOF -/

/-- [R] Every vector `s` RETURNED by `inverse_continuing` (robot not declared 5-DOF, integer sign
corrections; with or without constraints, any `previous`, including the constraint-centred
sentinel) reproduces the REQUESTED pose: position within `DISTANCE_TOLERANCE + SINGULARITY_SHIFT`
(1.125 µm), rotation within `ANGULAR_TOLERANCE` (1 µrad). -/
theorem inverseContinuing_reproduces_pose {k : Opw ℝ} {pose : Iso ℝ} {prev s : J6 ℝ}
    (hs : SignsInt k.p) (hd : k.p.dof ≠ 5) (h : s ∈ k.inverseContinuing pose prev) :
    (pose.t.sub (forward k.p s).t).norm ≤ distTol + singShift ∧
      |Quat.angleTo pose.q (forward k.p s).q| ≤ angTol := by
  obtain ⟨s0, rfl, h0 | ⟨d, hdm, h0, -⟩⟩ := C01.inverseContinuing_sound_partial hd h
  · rw [forward_normalizeNear k.p hs]
    obtain ⟨h1, h2⟩ := (sound_iff _ _ _).mp h0
    exact ⟨by have := singShift_nonneg; linarith, h2⟩
  · rw [forward_normalizeNear k.p hs]
    exact sound_shift hdm h0

example (prev : J6 ℝ) :
    ((forward C02.pEx C02b.jEx).t.sub (forward kEx.p (C02b.jEx.normalizeNear prev)).t).norm
        ≤ distTol + singShift ∧
      |Quat.angleTo (forward C02.pEx C02b.jEx).q
        (forward kEx.p (C02b.jEx.normalizeNear prev)).q| ≤ angTol :=
  inverseContinuing_reproduces_pose kEx_signs kEx_dof (kEx_mem_continuing prev)

/-- [R] The same with the sign hypothesis in the form of C02 (`±1`). -/
theorem inverseContinuing_reproduces_pose_of_signsOk {k : Opw ℝ} {pose : Iso ℝ} {prev s : J6 ℝ}
    (hs : C02.SignsOk k.p) (hd : k.p.dof ≠ 5) (h : s ∈ k.inverseContinuing pose prev) :
    (pose.t.sub (forward k.p s).t).norm ≤ distTol + singShift ∧
      |Quat.angleTo pose.q (forward k.p s).q| ≤ angTol :=
  inverseContinuing_reproduces_pose (SignsInt.of_signsOk hs) hd h

/-! ### 2. … when the unshifted solve found something -/

/-- [R] If `inverse_intern` finds at least one solution for the requested pose itself, the shifted
poses never contribute: every returned vector reproduces the requested pose to
`DISTANCE_TOLERANCE` / `ANGULAR_TOLERANCE`. -/
theorem inverseContinuing_reproduces_pose_exact {k : Opw ℝ} {pose : Iso ℝ} {prev s : J6 ℝ}
    (hs : SignsInt k.p) (hd : k.p.dof ≠ 5) (hne : inverseIntern k.p pose ≠ [])
    (h : s ∈ k.inverseContinuing pose prev) :
    (pose.t.sub (forward k.p s).t).norm ≤ distTol ∧
      |Quat.angleTo pose.q (forward k.p s).q| ≤ angTol := by
  obtain ⟨s0, rfl, h0 | ⟨he, -⟩⟩ :=
    C01.inverseContinuing_sound_partial_of_add_zero (by simp only [lit0, add_zero, and_self]) hd h
  · rw [forward_normalizeNear k.p hs]
    exact (sound_iff _ _ _).mp h0
  · exact absurd he hne

example (prev : J6 ℝ) :
    ((forward C02.pEx C02b.jEx).t.sub (forward kEx.p (C02b.jEx.normalizeNear prev)).t).norm
        ≤ distTol ∧
      |Quat.angleTo (forward C02.pEx C02b.jEx).q
        (forward kEx.p (C02b.jEx.normalizeNear prev)).q| ≤ angTol :=
  inverseContinuing_reproduces_pose_exact kEx_signs kEx_dof (List.ne_nil_of_mem kEx_mem_intern)
    (kEx_mem_continuing prev)

/-! ### 3. `inverse` -/

/-- [R] Every vector returned by `inverse` (robot not declared 5-DOF; with or without constraints;
NO hypothesis on the sign corrections) reproduces the requested pose to `DISTANCE_TOLERANCE` /
`ANGULAR_TOLERANCE`. -/
theorem inverse_reproduces_pose {k : Opw ℝ} {pose : Iso ℝ} {s : J6 ℝ}
    (hd : k.p.dof ≠ 5) (h : s ∈ k.inverse pose) :
    (pose.t.sub (forward k.p s).t).norm ≤ distTol ∧
      |Quat.angleTo pose.q (forward k.p s).q| ≤ angTol :=
  (sound_iff _ _ _).mp (C01.inverse_sound hd h)

example :
    ((forward C02.pEx C02b.jEx).t.sub (forward kEx.p C02b.jEx).t).norm ≤ distTol ∧
      |Quat.angleTo (forward C02.pEx C02b.jEx).q (forward kEx.p C02b.jEx).q| ≤ angTol :=
  inverse_reproduces_pose kEx_dof kEx_mem_inverse

/-! ### 4. The 5-DOF entry points (position only) -/

/-- [R] Every vector returned by `inverse_continuing_5dof` (any robot, integer sign corrections,
with or without constraints) reproduces the requested POSITION to `DISTANCE_TOLERANCE`. -/
theorem inverseContinuing5dof_reproduces_point {k : Opw ℝ} {pose : Iso ℝ} {prev s : J6 ℝ}
    (hs : SignsInt k.p) (h : s ∈ k.inverseContinuing5dof pose prev) :
    (pose.t.sub (forward k.p s).t).norm ≤ distTol := by
  obtain ⟨s0, -, rfl, h0, -⟩ := C01.inverseContinuing5dof_sound h
  rw [forward_normalizeNear k.p hs]
  exact (sound5_iff _ _ _).mp h0

example : ∃ s ∈ kEx5.inverseContinuing5dof (forward C06b.pEx5 C02b.jEx) C02b.jEx,
    ((forward C06b.pEx5 C02b.jEx).t.sub (forward kEx5.p s).t).norm ≤ distTol :=
  ⟨_, kEx5_mem_continuing5dof, inverseContinuing5dof_reproduces_point kEx5_signs kEx5_mem_continuing5dof⟩

/-- [R] … and through the dispatch of `inverse_continuing` for a robot declared 5-DOF. -/
theorem inverseContinuing_reproduces_point {k : Opw ℝ} {pose : Iso ℝ} {prev s : J6 ℝ}
    (hs : SignsInt k.p) (hd : k.p.dof = 5) (h : s ∈ k.inverseContinuing pose prev) :
    (pose.t.sub (forward k.p s).t).norm ≤ distTol := by
  obtain ⟨s0, -, rfl, h0, -⟩ := C01.inverseContinuing_sound5 hd h
  rw [forward_normalizeNear k.p hs]
  exact (sound5_iff _ _ _).mp h0

/-- [R] `inverse_5dof` (any robot, any signs): position to `DISTANCE_TOLERANCE`, J6 as requested. -/
theorem inverse5dof_reproduces_point {k : Opw ℝ} {pose : Iso ℝ} {j6 : ℝ} {s : J6 ℝ}
    (h : s ∈ k.inverse5dof pose j6) :
    (pose.t.sub (forward k.p s).t).norm ≤ distTol ∧ s.j6 = j6 :=
  ⟨(sound5_iff _ _ _).mp (C01.inverse5dof_sound h).1, (C01.inverse5dof_sound h).2⟩

example :
    ((forward C06b.pEx5 C02b.jEx).t.sub
        (forward kEx5.p ({ C02b.jEx with j6 := 0.7 } : J6 ℝ)).t).norm ≤ distTol ∧
      ({ C02b.jEx with j6 := 0.7 } : J6 ℝ).j6 = 0.7 :=
  inverse5dof_reproduces_point (kEx5_mem_inverse5dof 0.7)

/-- [R] `inverse` of a robot declared 5-DOF: position to `DISTANCE_TOLERANCE`, J6 = 0. -/
theorem inverse_reproduces_point {k : Opw ℝ} {pose : Iso ℝ} {s : J6 ℝ}
    (hd : k.p.dof = 5) (h : s ∈ k.inverse pose) :
    (pose.t.sub (forward k.p s).t).norm ≤ distTol ∧ s.j6 = 0 := by
  obtain ⟨h1, h2⟩ := C01.inverse_sound5 hd h
  exact ⟨(sound5_iff _ _ _).mp h1, by rw [h2, lit0]⟩

/-! ### 5. Wrapper stacks without `Parallelogram`

The innermost solver is asked for `k.localPose pose` (wrappers stripped from outside in) and every
vector the stack returns was returned by the innermost solver (`Tool`/`Base`/`Frame` pass the list
through, `KinematicsWithShape` only removes vectors).  The bounds are therefore stated between the
LOCAL pose and the innermost `forward`.  (Against the outer pose the position bound of a stack with
a `Tool`/`Frame` offset `t` grows by `‖t‖ · 2 sin(rotation error / 2)`: the lever arm of the tool
turns a rotation error into a position error; that statement is not attempted here.) -/

/-- [R] `inverse` through a stack. -/
theorem stack_inverse_reproduces_pose {k : Kin ℝ} (hk : k.noPara) (hd : k.core.p.dof ≠ 5)
    {pose : Iso ℝ} {s : J6 ℝ} (h : s ∈ k.inverse pose) :
    ((k.localPose pose).t.sub (forward k.core.p s).t).norm ≤ distTol ∧
      |Quat.angleTo (k.localPose pose).q (forward k.core.p s).q| ≤ angTol :=
  inverse_reproduces_pose hd (Kin.noPara_inverse_mem k hk pose s h)

/-- [R] `inverse_continuing` through a stack. -/
theorem stack_inverseContinuing_reproduces_pose {k : Kin ℝ} (hk : k.noPara)
    (hs : SignsInt k.core.p) (hd : k.core.p.dof ≠ 5)
    {pose : Iso ℝ} {prev s : J6 ℝ} (h : s ∈ k.inverseContinuing pose prev) :
    ((k.localPose pose).t.sub (forward k.core.p s).t).norm ≤ distTol + singShift ∧
      |Quat.angleTo (k.localPose pose).q (forward k.core.p s).q| ≤ angTol :=
  inverseContinuing_reproduces_pose hs hd (Kin.noPara_inverseContinuing_mem k hk pose prev s h)

/-- [R] … when the innermost unshifted solve found something. -/
theorem stack_inverseContinuing_reproduces_pose_exact {k : Kin ℝ} (hk : k.noPara)
    (hs : SignsInt k.core.p) (hd : k.core.p.dof ≠ 5) {pose : Iso ℝ} {prev s : J6 ℝ}
    (hne : inverseIntern k.core.p (k.localPose pose) ≠ [])
    (h : s ∈ k.inverseContinuing pose prev) :
    ((k.localPose pose).t.sub (forward k.core.p s).t).norm ≤ distTol ∧
      |Quat.angleTo (k.localPose pose).q (forward k.core.p s).q| ≤ angTol :=
  inverseContinuing_reproduces_pose_exact hs hd hne
    (Kin.noPara_inverseContinuing_mem k hk pose prev s h)

/-- [R] `inverse_5dof` through a stack. -/
theorem stack_inverse5dof_reproduces_point {k : Kin ℝ} (hk : k.noPara)
    {pose : Iso ℝ} {j6 : ℝ} {s : J6 ℝ} (h : s ∈ k.inverse5dof pose j6) :
    ((k.localPose pose).t.sub (forward k.core.p s).t).norm ≤ distTol ∧ s.j6 = j6 :=
  inverse5dof_reproduces_point (Kin.noPara_inverse5dof_mem k hk pose j6 s h)

/-- [R] `inverse_continuing_5dof` through a stack. -/
theorem stack_inverseContinuing5dof_reproduces_point {k : Kin ℝ} (hk : k.noPara)
    (hs : SignsInt k.core.p) {pose : Iso ℝ} {prev s : J6 ℝ}
    (h : s ∈ k.inverseContinuing5dof pose prev) :
    ((k.localPose pose).t.sub (forward k.core.p s).t).norm ≤ distTol :=
  inverseContinuing5dof_reproduces_point hs
    (Kin.noPara_inverseContinuing5dof_mem k hk pose prev s h)

/-- a tool 0.2 along z, and collision filtering (nothing collides) on top of `kEx` -/
noncomputable def tcpEx : Iso ℝ := ⟨⟨0, 0, 0.2⟩, ⟨1, 0, 0, 0⟩⟩
noncomputable def stackEx : Kin ℝ := .shape (.tool (.opw kEx) tcpEx) (fun _ => false)

theorem tcpEx_unit : tcpEx.q.normSq = 1 := by
  simp only [tcpEx, Quat.normSq]; norm_num

theorem stackEx_localPose :
    stackEx.localPose ((forward C02.pEx C02b.jEx).mul tcpEx) = forward C02.pEx C02b.jEx := by
  show ((forward C02.pEx C02b.jEx).mul tcpEx).mul tcpEx.inv = forward C02.pEx C02b.jEx
  rw [Iso.mul_assoc _ tcpEx tcpEx.inv (forward_unit _ _) tcpEx_unit,
    Iso.mul_inv_cancel tcpEx tcpEx_unit, Iso.mul_one]

theorem stackEx_mem (prev : J6 ℝ) :
    C02b.jEx.normalizeNear prev ∈
      stackEx.inverseContinuing ((forward C02.pEx C02b.jEx).mul tcpEx) prev := by
  show _ ∈ removeCollisions (fun _ => false)
    (kEx.inverseContinuing (stackEx.localPose ((forward C02.pEx C02b.jEx).mul tcpEx)) prev)
  rw [stackEx_localPose]
  exact List.mem_filter.mpr ⟨kEx_mem_continuing prev, rfl⟩

example (prev : J6 ℝ) :
    ((stackEx.localPose ((forward C02.pEx C02b.jEx).mul tcpEx)).t.sub
        (forward stackEx.core.p (C02b.jEx.normalizeNear prev)).t).norm ≤ distTol + singShift ∧
      |Quat.angleTo (stackEx.localPose ((forward C02.pEx C02b.jEx).mul tcpEx)).q
        (forward stackEx.core.p (C02b.jEx.normalizeNear prev)).q| ≤ angTol :=
  stack_inverseContinuing_reproduces_pose (k := stackEx) trivial kEx_signs kEx_dof (stackEx_mem prev)

/-! ### 6. The tolerances in decimal -/

/-- [R] `DISTANCE_TOLERANCE` is the `f64` nearest to `1e-6`, just below it. -/
theorem distTol_le : (distTol : ℝ) ≤ 1 / 10 ^ 6 := SoundReal.distTol_le
/-- [R] `ANGULAR_TOLERANCE` likewise. -/
theorem angTol_le : (angTol : ℝ) ≤ 1 / 10 ^ 6 := SoundReal.angTol_le
/-- [R] `SINGULARITY_SHIFT` is exactly an eighth of `DISTANCE_TOLERANCE`. -/
theorem singShift_eq : (singShift : ℝ) = distTol / 8 := singShift_eq_distTol_div
/-- [R] 1 µm + 0.125 µm. -/
theorem distTol_add_singShift_le : (distTol : ℝ) + singShift ≤ 1125 / 10 ^ 9 :=
  SoundReal.distTol_add_singShift_le
/-- [R] the bounds are not vacuous: the tolerances are positive (`> 0.999999999e-6`). -/
theorem distTol_gt : (999999999 : ℝ) / 10 ^ 15 < distTol := SoundReal.distTol_gt

/-- [R] Property C01 for `inverse_continuing` in SI units: the returned vector reproduces the
requested pose to 1.125 µm and 1 µrad. -/
theorem inverseContinuing_reproduces_pose_decimal {k : Opw ℝ} {pose : Iso ℝ} {prev s : J6 ℝ}
    (hs : SignsInt k.p) (hd : k.p.dof ≠ 5) (h : s ∈ k.inverseContinuing pose prev) :
    (pose.t.sub (forward k.p s).t).norm ≤ 1125 / 10 ^ 9 ∧
      |Quat.angleTo pose.q (forward k.p s).q| ≤ 1 / 10 ^ 6 := by
  obtain ⟨h1, h2⟩ := inverseContinuing_reproduces_pose hs hd h
  exact ⟨h1.trans distTol_add_singShift_le, h2.trans angTol_le⟩

/-- [R] Property C01 for `inverse` in SI units: 1 µm and 1 µrad. -/
theorem inverse_reproduces_pose_decimal {k : Opw ℝ} {pose : Iso ℝ} {s : J6 ℝ}
    (hd : k.p.dof ≠ 5) (h : s ∈ k.inverse pose) :
    (pose.t.sub (forward k.p s).t).norm ≤ 1 / 10 ^ 6 ∧
      |Quat.angleTo pose.q (forward k.p s).q| ≤ 1 / 10 ^ 6 := by
  obtain ⟨h1, h2⟩ := inverse_reproduces_pose hd h
  exact ⟨h1.trans distTol_le, h2.trans angTol_le⟩

/-- [R] Property C01 for the 5-DOF continuing entry point in SI units: 1 µm. -/
theorem inverseContinuing5dof_reproduces_point_decimal {k : Opw ℝ} {pose : Iso ℝ} {prev s : J6 ℝ}
    (hs : SignsInt k.p) (h : s ∈ k.inverseContinuing5dof pose prev) :
    (pose.t.sub (forward k.p s).t).norm ≤ 1 / 10 ^ 6 :=
  (inverseContinuing5dof_reproduces_point hs h).trans distTol_le

example (prev : J6 ℝ) :
    ((forward C02.pEx C02b.jEx).t.sub (forward kEx.p (C02b.jEx.normalizeNear prev)).t).norm
        ≤ 1125 / 10 ^ 9 ∧
      |Quat.angleTo (forward C02.pEx C02b.jEx).q
        (forward kEx.p (C02b.jEx.normalizeNear prev)).q| ≤ 1 / 10 ^ 6 :=
  inverseContinuing_reproduces_pose_decimal kEx_signs kEx_dof (kEx_mem_continuing prev)

end Opw.C01c
