/-
  The hard-coded robots of `parameters_robots.rs` (translated from the CURRENT source text into
  `Generated/Presets.lean` by `tools/rs2lean_presets.py` on every run) meet the hypotheses of the
  completeness and uniqueness theorems of C02 (`Props/C02b.lean`): sign corrections ±1, `c2 > 0`, `κ > 0`.
  Hence, for every bundled robot and every joint vector away from the three singularities, `inverse_intern`
  (and `inverse`) returns that joint vector modulo whole turns.  All theorems are [R].
-/
import OpwVerif.Generated.Presets
import OpwVerif.Props.C02b
namespace Opw.PresetsOk
open Opw Opw.Wrist Opw.C02 Opw.IkComplete

attribute [-simp] Opw.ofNatLit_real

/-- what the theorems of C02 ask of a parameter set -/
def ParamsOk (p : Params ℝ) : Prop := SignsOk p ∧ 0 < p.c2 ∧ 0 < kappa p

theorem kappa_pos_of_c3 {p : Params ℝ} (h : 0 < p.c3) : 0 < kappa p := by
  unfold kappa
  apply Real.sqrt_pos.2
  nlinarith [mul_self_nonneg p.a2, mul_pos h h]

macro "preset_ok" n:ident : tactic =>
  `(tactic| (refine ⟨?_, ?_, kappa_pos_of_c3 ?_⟩
             · simp only [SignsOk, $n:ident, ofNat_real]; norm_num
             · simp only [$n:ident, ofNat_real]; norm_num
             · simp only [$n:ident, ofNat_real]; norm_num))

theorem igus_rebel_ok : ParamsOk Presets.igus_rebel := by preset_ok Presets.igus_rebel
theorem irb2400_10_ok : ParamsOk Presets.irb2400_10 := by preset_ok Presets.irb2400_10
theorem staubli_tx2_140_ok : ParamsOk Presets.staubli_tx2_140 := by preset_ok Presets.staubli_tx2_140
theorem staubli_tx2_160_ok : ParamsOk Presets.staubli_tx2_160 := by preset_ok Presets.staubli_tx2_160
theorem staubli_tx2_160l_ok : ParamsOk Presets.staubli_tx2_160l := by preset_ok Presets.staubli_tx2_160l
theorem fanuc_r2000ib_200r_ok : ParamsOk Presets.fanuc_r2000ib_200r := by preset_ok Presets.fanuc_r2000ib_200r
theorem kuka_kr6_r700_sixx_ok : ParamsOk Presets.kuka_kr6_r700_sixx := by preset_ok Presets.kuka_kr6_r700_sixx
theorem staubli_tx40_ok : ParamsOk Presets.staubli_tx40 := by preset_ok Presets.staubli_tx40
theorem staubli_rx160_ok : ParamsOk Presets.staubli_rx160 := by preset_ok Presets.staubli_rx160
theorem irb2600_12_165_ok : ParamsOk Presets.irb2600_12_165 := by preset_ok Presets.irb2600_12_165
theorem irb4600_60_205_ok : ParamsOk Presets.irb4600_60_205 := by preset_ok Presets.irb4600_60_205

/-- [R] every public hard-coded robot meets the hypotheses -/
theorem all_ok : ∀ np ∈ (Presets.all : List (String × Params ℝ)), ParamsOk np.2 := by
  intro np h
  simp only [Presets.all, List.mem_cons, List.not_mem_nil, or_false] at h
  rcases h with rfl | rfl | rfl | rfl | rfl | rfl | rfl | rfl | rfl | rfl | rfl
  · exact igus_rebel_ok
  · exact irb2400_10_ok
  · exact staubli_tx2_140_ok
  · exact staubli_tx2_160_ok
  · exact staubli_tx2_160l_ok
  · exact fanuc_r2000ib_200r_ok
  · exact kuka_kr6_r700_sixx_ok
  · exact staubli_tx40_ok
  · exact staubli_rx160_ok
  · exact irb2600_12_165_ok
  · exact irb4600_60_205_ok

/-- [R] C02 completeness for the bundled robots: for every hard-coded robot and every joint vector whose wrist centre
is off the shoulder plane, whose elbow is neither stretched nor folded and whose wrist is not singular, the answer of
`inverse_intern` for the pose of that vector contains the vector modulo whole turns of every joint. -/
theorem presets_ik_complete (np : String × Params ℝ) (hnp : np ∈ (Presets.all : List (String × Params ℝ)))
    (j : J6 ℝ) (hsh : cx1 np.2 (thetaOf np.2 j) ≠ 0) (hel : Real.sin (phi np.2 (thetaOf np.2 j)) ≠ 0)
    (hwr : Real.sin (thetaOf np.2 j).j5 ≠ 0) :
    ∃ s ∈ inverseIntern np.2 (forward np.2 j), J6TurnEq s j := by
  obtain ⟨hs, hc2, hk⟩ := all_ok np hnp
  exact C02b.ik_complete_joint np.2 hs j ⟨hc2, hk, hsh, hel, hwr⟩

end Opw.PresetsOk
