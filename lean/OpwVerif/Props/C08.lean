/-
  C08 — A solver with constraints returns exactly the compliant solutions.

  All theorems are of kind [G]: generic in the number type `{R : Type} [OpwNum R]` with NO
  assumption on the arithmetic, so they hold of the IEEE `Float` reading of the model itself.
-/
import OpwVerif.Lemmas.Sound
import OpwVerif.Real
namespace Opw.C08
open Opw
variable {R : Type} [OpwNum R]

/-! ### 1 — everything returned is compliant (all four entry points, both `dof` values) -/

/-- [G] `inverse_5dof` -/
theorem inverse5dof_all_compliant {k : Opw R} {c : Constraints R} {pose : Iso R} {j6 : R} {s : J6 R}
    (hc : k.cons = some c) (h : s ∈ k.inverse5dof pose j6) : c.compliant s = true := by
  unfold Opw.inverse5dof at h
  exact compliant_of_cons hc (mem_filterCompliant.mp h).2

/-- [G] `inverse` (a robot declared 5-DOF goes through `inverse_5dof`) -/
theorem inverse_all_compliant {k : Opw R} {c : Constraints R} {pose : Iso R} {s : J6 R}
    (hc : k.cons = some c) (h : s ∈ k.inverse pose) : c.compliant s = true := by
  unfold Opw.inverse at h
  split at h
  · exact inverse5dof_all_compliant hc h
  · exact compliant_of_cons hc (mem_filterCompliant.mp h).2

/-- [G] `inverse_continuing_5dof` -/
theorem inverseContinuing5dof_all_compliant {k : Opw R} {c : Constraints R} {pose : Iso R}
    {prev s : J6 R} (hc : k.cons = some c) (h : s ∈ k.inverseContinuing5dof pose prev) :
    c.compliant s = true := by
  unfold Opw.inverseContinuing5dof at h
  exact compliant_of_cons hc (mem_filterCompliant.mp h).2

/-- [G] `inverse_continuing` (both the 6-DOF path with the singularity handling and the 5-DOF
dispatch): the compliance filter is applied last, after `normalize_near` and sorting. -/
theorem inverseContinuing_all_compliant {k : Opw R} {c : Constraints R} {pose : Iso R}
    {prev s : J6 R} (hc : k.cons = some c) (h : s ∈ k.inverseContinuing pose prev) :
    c.compliant s = true := by
  unfold Opw.inverseContinuing at h
  split at h
  · exact inverseContinuing5dof_all_compliant hc h
  · unfold Opw.inverseContinuing6 at h
    exact compliant_of_cons hc (mem_filterCompliant.mp h).2

/-- [G] the four together -/
theorem all_compliant {k : Opw R} {c : Constraints R} (hc : k.cons = some c)
    (pose : Iso R) (prev : J6 R) (j6 : R) (s : J6 R) :
    (s ∈ k.inverse pose → c.compliant s = true) ∧
    (s ∈ k.inverseContinuing pose prev → c.compliant s = true) ∧
    (s ∈ k.inverse5dof pose j6 → c.compliant s = true) ∧
    (s ∈ k.inverseContinuing5dof pose prev → c.compliant s = true) :=
  ⟨inverse_all_compliant hc, inverseContinuing_all_compliant hc, inverse5dof_all_compliant hc,
    inverseContinuing5dof_all_compliant hc⟩

example {s : J6 Float} (h : s ∈ Ex.k6c.inverseContinuing Ex.pose Ex.prev) :
    Ex.cons.compliant s = true :=
  (all_compliant (k := Ex.k6c) rfl Ex.pose Ex.prev 0 s).2.1 h

example {s : J6 Float} (h : s ∈ Ex.k5c.inverse Ex.pose) : Ex.cons.compliant s = true :=
  inverse_all_compliant (k := Ex.k5c) rfl h

/-! ### 2 — `inverse`, `inverse_5dof`: exactly the compliant ones, order kept -/

/-- [G] `inverse_5dof` with constraints = `Constraints::filter` of `inverse_5dof` without. -/
theorem inverse5dof_plain_exact (p : Params R) (c : Constraints R) (pose : Iso R) (j6 : R) :
    (⟨p, some c⟩ : Opw R).inverse5dof pose j6 =
      c.filter ((⟨p, none⟩ : Opw R).inverse5dof pose j6) := by
  simp [Opw.inverse5dof, Opw.filterCompliant]

/-- [G] `inverse` with constraints = `Constraints::filter` of `inverse` without constraints, for
both values of the 5-DOF flag. -/
theorem plain_exact (p : Params R) (c : Constraints R) (pose : Iso R) :
    (⟨p, some c⟩ : Opw R).inverse pose = c.filter ((⟨p, none⟩ : Opw R).inverse pose) := by
  unfold Opw.inverse
  by_cases hd : (p.dof == 5) = true
  · simp only [hd, if_true]; exact inverse5dof_plain_exact p c pose 0
  · simp only [hd]; simp [Opw.filterCompliant]

/-- [G] membership form: returned ⇔ returned without constraints and compliant -/
theorem plain_exact_mem (p : Params R) (c : Constraints R) (pose : Iso R) (s : J6 R) :
    s ∈ (⟨p, some c⟩ : Opw R).inverse pose ↔
      s ∈ (⟨p, none⟩ : Opw R).inverse pose ∧ c.compliant s = true := by
  rw [plain_exact, Constraints.filter, List.mem_filter]

example : Ex.k6c.inverse Ex.pose = Ex.cons.filter (Ex.k6.inverse Ex.pose) :=
  plain_exact Ex.p6 Ex.cons Ex.pose

example : Ex.k5c.inverse Ex.pose = Ex.cons.filter (Ex.k5.inverse Ex.pose) :=
  plain_exact Ex.p5 Ex.cons Ex.pose

example : Ex.k5c.inverse5dof Ex.pose 0.25 = Ex.cons.filter (Ex.k5.inverse5dof Ex.pose 0.25) :=
  inverse5dof_plain_exact Ex.p5 Ex.cons Ex.pose 0.25

/-! ### 3 — wrappers report the constraints of the innermost solver -/

omit [OpwNum R] in
/-- [G] `constraints()` of any wrapper stack is that of the innermost `OPWKinematics`. -/
theorem wrapper_constraints : ∀ (k : Kin R), k.constraints = k.core.cons
  | .opw _ => rfl
  | .tool i _ => wrapper_constraints i
  | .base i _ => wrapper_constraints i
  | .frame i _ => wrapper_constraints i
  | .para i _ _ _ => wrapper_constraints i
  | .shape i _ => wrapper_constraints i

example : Ex.stack6s.constraints = some Ex.cons := wrapper_constraints Ex.stack6s

/-! ### 4 — stacks of Tool / Base / Frame / collision filtering return compliant vectors only -/

/-- [G] All four entry points of a stack without `Parallelogram` return only vectors compliant with
the constraints the stack reports.  (A `Parallelogram` rewrites the coupled joint AFTER the inner
filter, so the statement is not a control-structure fact for it.) -/
theorem stack_all_compliant {k : Kin R} (hk : k.noPara) {c : Constraints R}
    (hc : k.constraints = some c) (pose : Iso R) (prev : J6 R) (j6 : R) (s : J6 R) :
    (s ∈ k.inverse pose → c.compliant s = true) ∧
    (s ∈ k.inverseContinuing pose prev → c.compliant s = true) ∧
    (s ∈ k.inverse5dof pose j6 → c.compliant s = true) ∧
    (s ∈ k.inverseContinuing5dof pose prev → c.compliant s = true) := by
  rw [wrapper_constraints] at hc
  exact ⟨fun h => inverse_all_compliant hc (Kin.noPara_inverse_mem k hk pose s h),
    fun h => inverseContinuing_all_compliant hc (Kin.noPara_inverseContinuing_mem k hk pose prev s h),
    fun h => inverse5dof_all_compliant hc (Kin.noPara_inverse5dof_mem k hk pose j6 s h),
    fun h => inverseContinuing5dof_all_compliant hc
      (Kin.noPara_inverseContinuing5dof_mem k hk pose prev s h)⟩

/-- [G] the special case of plain stacks (Tool / Base / Frame only) -/
theorem plain_stack_all_compliant {k : Kin R} (hk : k.plain) {c : Constraints R}
    (hc : k.constraints = some c) (pose : Iso R) (prev : J6 R) (j6 : R) (s : J6 R) :
    (s ∈ k.inverse pose → c.compliant s = true) ∧
    (s ∈ k.inverseContinuing pose prev → c.compliant s = true) ∧
    (s ∈ k.inverse5dof pose j6 → c.compliant s = true) ∧
    (s ∈ k.inverseContinuing5dof pose prev → c.compliant s = true) :=
  stack_all_compliant hk.noPara hc pose prev j6 s

example {s : J6 Float} (h : s ∈ Ex.stack6s.inverseContinuing Ex.pose Ex.prev) :
    Ex.cons.compliant s = true :=
  (stack_all_compliant Ex.stack6s_noPara (wrapper_constraints Ex.stack6s) Ex.pose Ex.prev 0 s).2.1 h

/-- [G] plain stacks: `inverse` with constraints in the core = filter of the same stack with the
constraints removed from the core (exactness lifted through Tool / Base / Frame). -/
theorem stack_plain_exact_mem {k : Kin R} (hk : k.plain) {c : Constraints R}
    (hc : k.core.cons = some c) (pose : Iso R) (s : J6 R) :
    s ∈ k.inverse pose ↔
      s ∈ (⟨k.core.p, none⟩ : Opw R).inverse (k.localPose pose) ∧ c.compliant s = true := by
  rw [Kin.plain_inverse_eq k hk, ← plain_exact_mem]
  have : k.core = ⟨k.core.p, some c⟩ := by
    cases hcore : k.core with
    | mk p cons => rw [hcore] at hc; cases hc; rfl
  rw [← this]

/-! ### 5 — `inverse_continuing_5dof` with `BY_PREV` sorting -/

/-- [G] With a genuine previous position (not the `CONSTRAINT_CENTERED` NaN sentinel) and sorting
weight `BY_PREV`, `inverse_continuing_5dof` with constraints is EXACTLY `Constraints::filter` of the
result without constraints — same elements, same order.  (Under these hypotheses the reference
vector and the sort cost are the same with and without constraints, so the two computations differ
only in the final filter; no commutation of filter and sort is needed.) -/
theorem continuing5_exact (p : Params R) (c : Constraints R) (pose : Iso R) (prev : J6 R)
    (hprev : isNaN prev.j1 = false) (hw : feq c.sortingWeight byPrev = true) :
    (⟨p, some c⟩ : Opw R).inverseContinuing5dof pose prev =
      c.filter ((⟨p, none⟩ : Opw R).inverseContinuing5dof pose prev) := by
  have hcost : (⟨p, some c⟩ : Opw R).sortCost prev = (⟨p, none⟩ : Opw R).sortCost prev := by
    funext a
    simp [Opw.sortCost, hw]
  simp only [Opw.inverseContinuing5dof, Opw.reference, hprev, Opw.filterCompliant,
    Opw.sortByCloseness, hcost, Bool.false_eq_true, if_false]

/-- [G] membership form -/
theorem continuing5_exact_mem (p : Params R) (c : Constraints R) (pose : Iso R) (prev : J6 R)
    (hprev : isNaN prev.j1 = false) (hw : feq c.sortingWeight byPrev = true) (s : J6 R) :
    s ∈ (⟨p, some c⟩ : Opw R).inverseContinuing5dof pose prev ↔
      s ∈ (⟨p, none⟩ : Opw R).inverseContinuing5dof pose prev ∧ c.compliant s = true := by
  rw [continuing5_exact p c pose prev hprev hw, Constraints.filter, List.mem_filter]

/-- [G] Without the two hypotheses (sentinel `prev`, or another sorting weight) the reference vector
or the order may differ, but membership before `normalize_near` does not depend on them: every
returned vector comes from the same `inverse_intern_5_dof` list and is compliant. -/
theorem continuing5_mem_general (p : Params R) (c : Constraints R) (pose : Iso R) (prev s : J6 R) :
    s ∈ (⟨p, some c⟩ : Opw R).inverseContinuing5dof pose prev ↔
      (∃ s0 ∈ inverseIntern5 p pose prev.j6,
        s = s0.normalizeNear ((⟨p, some c⟩ : Opw R).reference prev)) ∧ c.compliant s = true := by
  unfold Opw.inverseContinuing5dof
  rw [mem_filterCompliant, mem_sortByCloseness, List.mem_map]
  simp only [Opw.compliant]
  constructor
  · rintro ⟨⟨s0, h0, rfl⟩, hc⟩; exact ⟨⟨s0, h0, rfl⟩, hc⟩
  · rintro ⟨⟨s0, h0, rfl⟩, hc⟩; exact ⟨⟨s0, h0, rfl⟩, hc⟩

example (hprev : isNaN Ex.prev.j1 = false) (hw : feq Ex.cons.sortingWeight (byPrev : Float) = true) :
    Ex.k5c.inverseContinuing5dof Ex.pose Ex.prev =
      Ex.cons.filter (Ex.k5.inverseContinuing5dof Ex.pose Ex.prev) :=
  continuing5_exact Ex.p5 Ex.cons Ex.pose Ex.prev hprev hw

/-- the two hypotheses are satisfiable: in the real reading no number is NaN, and a constraint set
built with `BY_PREV` has `sortingWeight == BY_PREV` (`Float`'s `isNaN` / `==` are opaque to the
kernel, hence they stay hypotheses in the `Float` example above) -/
example (p : Params ℝ) (f t : J6 ℝ) (pose : Iso ℝ) (prev : J6 ℝ) :
    (⟨p, some (Constraints.mk' f t byPrev)⟩ : Opw ℝ).inverseContinuing5dof pose prev =
      (Constraints.mk' f t byPrev).filter ((⟨p, none⟩ : Opw ℝ).inverseContinuing5dof pose prev) :=
  continuing5_exact p _ pose prev rfl (by simp [Constraints.mk', feq_real])

end Opw.C08
