/-
  C02 (completeness part) — the closed-form inverse kinematics, asked for the pose of a
  configuration that is not at a shoulder, elbow or wrist singularity, returns that configuration
  (modulo whole turns) among its answers.

  All theorems are [R]: the model text of `Kin.lean` evaluated with exact real arithmetic.
  Property theorems only; the staged lemmas live in `Lemmas/IkComplete.lean`.

  Vocabulary (defined in `Lemmas/IkComplete.lean`, θ-space: `θ = joint · sign − offset`):
  * `kappa p = √(a2² + c3²)`, `psi3 p = atan2(a2, c3)`, `phi p θ = θ3 + psi3 p`;
  * `cx1 p θ = c2 sin θ2 + κ sin(θ2 + θ3 + ψ3) + a1`: horizontal coordinate of the wrist centre in the
    frame of link 1;
  * `poseOf p θ`: the pose `forward` returns for θ (translation, `from_rotation_matrix` of the
    closed-form rotation);
  * `NonSingular p θ`: `0 < c2`, `0 < κ`, `cx1 p θ ≠ 0` (shoulder; BOTH the front branch `cx1 > 0`
    and the back branch `cx1 < 0` are covered), `sin (phi p θ) ≠ 0` (elbow), `sin θ5 ≠ 0` (wrist);
  * `SignsOk p` (from C02): all sign corrections are `±1`;
  * `J6TurnEq a b`: componentwise `aᵢ = bᵢ + 2πk`, `k : ℤ`.

  Stage lemmas, all present and fully proved (S0 `wc_poseOf`; S1 `th1i_front`, `th1ii_back`;
  S2 `th3i_front`, `th3ii_front`, `th3iii_back`, `th3iv_back`; S3 `th2i_front`, `th2ii_front`,
  `th2iii_back`, `th2iv_back`; S4 `wrist_entries`, `wristSol_turnEq`; S5
  `theta_candidate_complete_pos` and, via the wrist flip, `theta_candidate_complete`; S6
  `comparePoses_self`, `ik_complete_intern`).  Nothing of the road map is missing.
-/
import OpwVerif.Lemmas.IkComplete
namespace Opw.C02b
open Opw Opw.Wrist Opw.C02 Opw.IkComplete

attribute [-simp] Opw.ofNatLit_real

/-- C02, completeness in θ-space: the eight raw candidates computed for the pose of a non-singular
configuration `θ` contain `θ` modulo whole turns. -/
theorem theta_candidate_complete (p : Params ℝ) (θ : J6 ℝ) (h : NonSingular p θ) :
    ∃ t ∈ thetaCandidates p (poseOf p θ), J6TurnEq t θ :=
  IkComplete.theta_candidate_complete p θ h

/-- C02, completeness of `inverse_intern`: for a joint vector `j` whose θ is non-singular, the
answer list for the pose `forward p j` contains a solution `s` that equals `j` in θ-space modulo
whole turns; it has exactly the requested pose. -/
theorem ik_complete (p : Params ℝ) (hs : SignsOk p) (j : J6 ℝ) (h : NonSingular p (thetaOf p j)) :
    ∃ s ∈ inverseIntern p (forward p j), J6TurnEq (thetaOf p s) (thetaOf p j) ∧
      forward p s = forward p j :=
  ik_complete_intern_pose p hs j h

/-- the same in joint space: `s ≡ j` modulo whole turns of every joint -/
theorem ik_complete_joint (p : Params ℝ) (hs : SignsOk p) (j : J6 ℝ)
    (h : NonSingular p (thetaOf p j)) : ∃ s ∈ inverseIntern p (forward p j), J6TurnEq s j :=
  ik_complete_intern_joint p hs j h

theorem inverse_eq_intern (k : Opw ℝ) (hdof : k.p.dof ≠ 5) (hc : k.cons = none) (pose : Iso ℝ) :
    k.inverse pose = inverseIntern k.p pose := by
  unfold Opw.inverse Opw.filterCompliant
  simp only [beq_iff_eq, hdof, if_false, hc]

/-- C02, completeness of the public `inverse` of a 6-DOF robot without constraints -/
theorem inverse_complete (k : Opw ℝ) (hs : SignsOk k.p) (hdof : k.p.dof ≠ 5) (hc : k.cons = none)
    (j : J6 ℝ) (h : NonSingular k.p (thetaOf k.p j)) :
    ∃ s ∈ k.inverse (forward k.p j), J6TurnEq (thetaOf k.p s) (thetaOf k.p j) ∧
      forward k.p s = forward k.p j := by
  rw [inverse_eq_intern k hdof hc]
  exact ik_complete k.p hs j h

/-- exact round trip: if moreover every joint of `j` lies in `(−π, π)` (and the offsets are within
the fuel of the normalisation loop), `j` ITSELF is among the answers for its own pose. -/
theorem inverse_roundtrip (k : Opw ℝ) (hs : SignsOk k.p) (hdof : k.p.dof ≠ 5) (hc : k.cons = none)
    (ho : Nearest.absLe k.p.offsets 100000) (j : J6 ℝ) (hj : InsidePi j)
    (h : NonSingular k.p (thetaOf k.p j)) : j ∈ k.inverse (forward k.p j) := by
  rw [inverse_eq_intern k hdof hc]
  exact ik_roundtrip_intern k.p hs ho j hj h

/-! ### Non-vacuity: the robot `pEx` of C02 (mixed signs, offsets, `a2 ≠ 0`) -/

/-- a joint vector of `pEx`: in θ-space `(0, 0, π/2, 0, π/2, −π)` -/
noncomputable def jEx : J6 ℝ := ⟨0, 0, 0, 0, -0.3 - Real.pi / 2, 0⟩

theorem thetaOf_jEx : thetaOf pEx jEx = ⟨0, 0, Real.pi / 2, 0, Real.pi / 2, -Real.pi⟩ := by
  apply J6.ext' <;> simp only [thetaOf, pEx, jEx] <;> ring

theorem kappa_pEx_pos : 0 < kappa pEx := by
  unfold kappa
  apply Real.sqrt_pos.mpr
  simp only [pEx]; norm_num

/-- `NonSingular` is satisfiable: front shoulder (`cx1 = c3 + a1 = 0.39`), elbow at a right angle
plus `ψ3`, wrist at a right angle -/
theorem nonSingular_ex : NonSingular pEx (thetaOf pEx jEx) := by
  have hk := kappa_pEx_pos
  have hcos : kappa pEx * Real.cos (psi3 pEx) = 0.365 := kappa_cos pEx.a2 pEx.c3
  rw [thetaOf_jEx]
  refine ⟨by simp only [pEx]; norm_num, hk, ?_, ?_, ?_⟩
  · -- cx1 = 0.315·sin 0 + κ sin(π/2 + ψ3) + 0.025 = κ cos ψ3 + 0.025
    have e : cx1 pEx ⟨0, 0, Real.pi / 2, 0, Real.pi / 2, -Real.pi⟩ = 0.365 + 0.025 := by
      simp only [cx1, armX]
      rw [show (0 : ℝ) + Real.pi / 2 + psi3 pEx = psi3 pEx + Real.pi / 2 by ring,
        Real.sin_add_pi_div_two, hcos, Real.sin_zero]
      simp only [pEx]; ring
    rw [e]; norm_num
  · -- sin φ = sin(π/2 + ψ3) = cos ψ3 ≠ 0
    simp only [phi]
    rw [show Real.pi / 2 + psi3 pEx = psi3 pEx + Real.pi / 2 by ring, Real.sin_add_pi_div_two]
    intro h0
    rw [h0, mul_zero] at hcos
    norm_num at hcos
  · show Real.sin (Real.pi / 2) ≠ 0
    rw [Real.sin_pi_div_two]; exact one_ne_zero

example : ∃ (p : Params ℝ) (θ : J6 ℝ), NonSingular p θ := ⟨pEx, _, nonSingular_ex⟩

theorem signsOk_pEx : SignsOk pEx :=
  ⟨Or.inl rfl, Or.inl rfl, Or.inr rfl, Or.inr rfl, Or.inr rfl, Or.inr rfl⟩

theorem insidePi_jEx : InsidePi jEx := by
  have h3 := Real.two_le_pi
  have hp := Real.pi_pos
  have h0 : |(0 : ℝ)| < Real.pi := by rw [abs_zero]; exact hp
  refine ⟨h0, h0, h0, h0, ?_, h0⟩
  show |(-0.3 - Real.pi / 2 : ℝ)| < Real.pi
  rw [abs_lt]; constructor <;> linarith

theorem offsets_pEx : Nearest.absLe pEx.offsets 100000 := by
  have h4 := Real.pi_le_four
  have hp := Real.pi_pos
  simp only [Nearest.absLe, pEx]
  refine ⟨by norm_num, by norm_num, ?_, by norm_num, by norm_num, ?_⟩
  · rw [abs_le]; constructor <;> linarith
  · rw [abs_le]; constructor <;> linarith

/-- the hypotheses of `inverse_roundtrip` are jointly satisfiable, and its conclusion for the
example: the unconstrained solver for `pEx` returns `jEx` for the pose of `jEx` -/
example : jEx ∈ (⟨pEx, none⟩ : Opw ℝ).inverse (forward pEx jEx) :=
  inverse_roundtrip ⟨pEx, none⟩ signsOk_pEx (by decide) rfl offsets_pEx jEx insidePi_jEx nonSingular_ex

end Opw.C02b
