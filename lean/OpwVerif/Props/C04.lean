/-
  C04 — `inverse_continuing`: every returned angle is the 2π-representative nearest to the
  corresponding previous angle, the list is in non-decreasing order of the documented cost, it
  contains every solution of plain `inverse`, and a previous vector that is itself a solution
  comes back first.
  Property theorems only; helper lemmas live in `Lemmas/Nearest.lean`.
  Kinds: [R] real arithmetic, [G] generic (any number type, holds of the Float reading itself).
  Over ℝ the model constants are `(pi : ℝ) = Real.pi` (`pi_def_real`) and
  `(twoPi : ℝ) = 2 * Real.pi` (`twoPi_real`).
-/
import OpwVerif.Lemmas.Nearest
namespace Opw.C04
open Opw Opw.Nearest

attribute [-simp] Opw.ofNatLit_real

/-! ### 1. `normalize_pi` (the two `while` loops) -/

/-- [R] With `fuel` iterations allowed per loop and `|x| ≤ 2π·fuel` (indeed `π + 2π·fuel`), the result
of the two loops lies in `[-π, π]` and differs from `x` by a whole number of turns. -/
theorem normPiF_range (fuel : ℕ) (x : ℝ) (h : |x| ≤ Real.pi + 2 * Real.pi * fuel) :
    normPiF fuel x ∈ Set.Icc (-Real.pi) Real.pi ∧ ∃ k : ℤ, normPiF fuel x = x + 2 * Real.pi * k :=
  ⟨normPiF_mem fuel x h, normPiF_turn fuel x⟩

/-- [R] the fuel condition in the form `|x| ≤ 2π·fuel` -/
theorem normPiF_range' (fuel : ℕ) (x : ℝ) (h : |x| ≤ 2 * Real.pi * fuel) :
    normPiF fuel x ∈ Set.Icc (-Real.pi) Real.pi ∧ ∃ k : ℤ, normPiF fuel x = x + 2 * Real.pi * k :=
  normPiF_range fuel x (by have := Real.pi_pos; linarith)

/-- [R] The model's `normPi` (fuel 100000) agrees with the unbounded Rust loops for every
`|x| ≤ 2π·100000`: result in `[-π, π]`, equal to `x` up to whole turns. -/
theorem normPi_range_wide (x : ℝ) (h : |x| ≤ 2 * Real.pi * 100000) :
    normPi x ∈ Set.Icc (-Real.pi) Real.pi ∧ ∃ k : ℤ, normPi x = x + 2 * Real.pi * k := by
  unfold normPi normFuel
  apply normPiF_range'
  push_cast
  exact h

/-- [R] in particular for `|x| ≤ 100000` -/
theorem normPi_range (x : ℝ) (h : |x| ≤ 100000) :
    normPi x ∈ Set.Icc (-Real.pi) Real.pi ∧ ∃ k : ℤ, normPi x = x + 2 * Real.pi * k := by
  apply normPi_range_wide
  have := Real.two_le_pi
  linarith

/-- [R] values already in range are not touched -/
theorem normPi_id (x : ℝ) (h : x ∈ Set.Icc (-Real.pi) Real.pi) : normPi x = x :=
  normPiF_id _ x h.1 h.2

example : normPi (7 : ℝ) ∈ Set.Icc (-Real.pi) Real.pi :=
  (normPi_range 7 (by rw [abs_of_nonneg] <;> norm_num)).1

/-! ### 2. `normalize_near` moves by whole turns -/

/-- [R] one pass of the inner `adjust` (including the `±π` sign flip) is a shift by whole turns -/
theorem adjustNear_turn (now prev : ℝ) : ∃ k : ℤ, adjustNear now prev = now + 2 * Real.pi * k :=
  Nearest.adjustNear_turn now prev

/-- [R] `normalize_near(now, prev)` is a 2π-representative of `now` -/
theorem normalizeNear_turn (now prev : ℝ) : ∃ k : ℤ, normalizeNear now prev = now + 2 * Real.pi * k :=
  Nearest.normalizeNear_turn now prev

/-- [R] the same for all six joints -/
theorem J6_normalizeNear_turn (s prev : J6 ℝ) :
    (∃ k : ℤ, (s.normalizeNear prev).j1 = s.j1 + 2 * Real.pi * k) ∧
    (∃ k : ℤ, (s.normalizeNear prev).j2 = s.j2 + 2 * Real.pi * k) ∧
    (∃ k : ℤ, (s.normalizeNear prev).j3 = s.j3 + 2 * Real.pi * k) ∧
    (∃ k : ℤ, (s.normalizeNear prev).j4 = s.j4 + 2 * Real.pi * k) ∧
    (∃ k : ℤ, (s.normalizeNear prev).j5 = s.j5 + 2 * Real.pi * k) ∧
    (∃ k : ℤ, (s.normalizeNear prev).j6 = s.j6 + 2 * Real.pi * k) :=
  ⟨Nearest.normalizeNear_turn _ _, Nearest.normalizeNear_turn _ _, Nearest.normalizeNear_turn _ _,
   Nearest.normalizeNear_turn _ _, Nearest.normalizeNear_turn _ _, Nearest.normalizeNear_turn _ _⟩

example : ∃ k : ℤ, normalizeNear (-Real.pi) (1 : ℝ) = -Real.pi + 2 * Real.pi * k :=
  normalizeNear_turn _ _

/-! ### 3. `normalize_near` returns the nearest representative -/

/-- [R] Whenever `now` and `prev` are at most `5π` apart, the result is within `π` of `prev`.
(Two passes remove at most two turns: beyond `5π` the bound fails.) -/
theorem normalizeNear_nearest_wide (now prev : ℝ) (h : |now - prev| ≤ 5 * Real.pi) :
    |normalizeNear now prev - prev| ≤ Real.pi :=
  normalizeNear_dist now prev h

/-- [R] The documented situation: a solution angle in `[-π, π]` and a previous angle in `[-2π, 2π]`. -/
theorem normalizeNear_nearest (now prev : ℝ) (hnow : |now| ≤ Real.pi) (hprev : |prev| ≤ 2 * Real.pi) :
    |normalizeNear now prev - prev| ≤ Real.pi := by
  apply normalizeNear_nearest_wide
  have := abs_sub now prev
  have := Real.pi_pos
  linarith

/-- [R] "Nearest representative": no other `now + 2πk` is strictly closer to `prev`. -/
theorem normalizeNear_is_nearest (now prev : ℝ) (h : |now - prev| ≤ 5 * Real.pi) (k : ℤ) :
    |normalizeNear now prev - prev| ≤ |now + 2 * Real.pi * k - prev| := by
  obtain ⟨k0, hk0⟩ := Nearest.normalizeNear_turn now prev
  have := nearest_of_dist_le_pi _ prev (normalizeNear_dist now prev h) (k - k0)
  rw [hk0] at this ⊢
  refine this.trans_eq ?_
  push_cast
  ring_nf

/-- [R] The `5π` range is sharp: from `6π` away two passes only come back to `2π`. -/
theorem normalizeNear_range_sharp :
    normalizeNear (6 * Real.pi) 0 = 2 * Real.pi ∧ ¬ |normalizeNear (6 * Real.pi) 0 - 0| ≤ Real.pi := by
  have hpi := Real.pi_pos
  refine ⟨normalizeNear_six_pi, ?_⟩
  rw [normalizeNear_six_pi, sub_zero, abs_of_pos (by linarith)]
  linarith

example : |normalizeNear (1 : ℝ) (-3) - (-3)| ≤ Real.pi :=
  normalizeNear_nearest 1 (-3)
    (by rw [abs_of_nonneg] <;> linarith [Real.two_le_pi])
    (by rw [abs_of_neg] <;> linarith [Real.two_le_pi])

/-! ### 4. `sort_by_closeness` -/

/-- [R] `BY_PREV` is `0.0` -/
theorem byPrev_real : (byPrev : ℝ) = 0 := Nearest.byPrev_real
/-- [R] `BY_CONSTRAINS` is `1.0` -/
theorem byConstraints_real : (byConstraints : ℝ) = 1 := Nearest.byConstraints_real

/-- [G] no constraints: the cost is the distance to `previous` -/
theorem sortCost_none {R : Type} [OpwNum R] (k : Opw R) (previous a : J6 R) (h : k.cons = none) :
    k.sortCost previous a = calculateDistance a previous := Nearest.sortCost_none k previous a h

/-- [R] weight `BY_PREV`: the cost is the distance to `previous` -/
theorem sortCost_byPrev (k : Opw ℝ) (c : Constraints ℝ) (previous a : J6 ℝ) (h : k.cons = some c)
    (hw : c.sortingWeight = byPrev) : k.sortCost previous a = calculateDistance a previous :=
  Nearest.sortCost_byPrev k c previous a h (hw.trans byPrev_real)

/-- [R] weight `BY_CONSTRAINS`: the cost is the distance to the constraint centres -/
theorem sortCost_byConstraints (k : Opw ℝ) (c : Constraints ℝ) (previous a : J6 ℝ) (h : k.cons = some c)
    (hw : c.sortingWeight = byConstraints) : k.sortCost previous a = calculateDistance a c.centers :=
  Nearest.sortCost_byConstraints k c previous a h (hw.trans byConstraints_real)

/-- [R] any other weight `w`: the mix `dist(previous)·(1 − w) + dist(centres)·w` -/
theorem sortCost_mixed (k : Opw ℝ) (c : Constraints ℝ) (previous a : J6 ℝ) (h : k.cons = some c)
    (h0 : c.sortingWeight ≠ byPrev) (h1 : c.sortingWeight ≠ byConstraints) :
    k.sortCost previous a =
      calculateDistance a previous * (1 - c.sortingWeight) + calculateDistance a c.centers * c.sortingWeight :=
  Nearest.sortCost_mixed k c previous a h (by rwa [byPrev_real] at h0) (by rwa [byConstraints_real] at h1)

/-- [R] `calculate_distance` is the L1 distance -/
theorem calculateDistance_eq (a b : J6 ℝ) :
    calculateDistance a b =
      |a.j1 - b.j1| + |a.j2 - b.j2| + |a.j3 - b.j3| + |a.j4 - b.j4| + |a.j5 - b.j5| + |a.j6 - b.j6| :=
  calculateDistance_real a b

/-- [R] The output of `sort_by_closeness` is in non-decreasing order of the cost and is a
rearrangement of the input (nothing lost, nothing invented). -/
theorem sortByCloseness_sorted (k : Opw ℝ) (l : List (J6 ℝ)) (previous : J6 ℝ) :
    (k.sortByCloseness l previous).Pairwise (fun a b => k.sortCost previous a ≤ k.sortCost previous b) ∧
    (k.sortByCloseness l previous).Perm l :=
  ⟨sortByCloseness_pairwise k l previous, sortByCloseness_perm k l previous⟩

/-- [G] the rearrangement part holds for every number type -/
theorem sortByCloseness_perm {R : Type} [OpwNum R] (k : Opw R) (l : List (J6 R)) (previous : J6 R) :
    (k.sortByCloseness l previous).Perm l := Nearest.sortByCloseness_perm k l previous

example : ∃ (k : Opw ℝ) (c : Constraints ℝ), k.cons = some c ∧ c.sortingWeight ≠ byPrev ∧
    c.sortingWeight ≠ byConstraints :=
  ⟨⟨default, some ⟨default, default, default, default, 1 / 2⟩⟩, _, rfl,
    by rw [byPrev_real]; norm_num, by rw [byConstraints_real]; norm_num⟩

/-! ### 5. The returned list is sorted -/

/-- [R] 6-DOF path -/
theorem inverseContinuing6_sorted (k : Opw ℝ) (pose : Iso ℝ) (prev : J6 ℝ) :
    (k.inverseContinuing6 pose prev).Pairwise
      (fun a b => k.sortCost (k.reference prev) a ≤ k.sortCost (k.reference prev) b) := by
  unfold Opw.inverseContinuing6
  exact (sortByCloseness_pairwise k _ _).sublist (filterCompliant_sublist k _)

/-- [R] 5-DOF path -/
theorem inverseContinuing5dof_sorted (k : Opw ℝ) (pose : Iso ℝ) (prev : J6 ℝ) :
    (k.inverseContinuing5dof pose prev).Pairwise
      (fun a b => k.sortCost (k.reference prev) a ≤ k.sortCost (k.reference prev) b) := by
  unfold Opw.inverseContinuing5dof
  exact (sortByCloseness_pairwise k _ _).sublist (filterCompliant_sublist k _)

/-- [R] `inverse_continuing` returns its solutions in non-decreasing order of the cost (whatever
`dof` says; in particular for `k.p.dof ≠ 5`).  Over ℝ `k.reference prev = prev`. -/
theorem inverseContinuing_sorted (k : Opw ℝ) (pose : Iso ℝ) (prev : J6 ℝ) :
    (k.inverseContinuing pose prev).Pairwise (fun a b => k.sortCost prev a ≤ k.sortCost prev b) := by
  have h6 := inverseContinuing6_sorted k pose prev
  have h5 := inverseContinuing5dof_sorted k pose prev
  rw [reference_real] at h5 h6
  unfold Opw.inverseContinuing
  split_ifs
  · exact h5
  · exact h6

example : ∃ (k : Opw ℝ), k.p.dof ≠ 5 := ⟨⟨⟨1, 2, 3, 4, 5, 6, 7, default, default, 6⟩, none⟩, by decide⟩

/-! ### 6. Nothing that plain `inverse` finds is lost -/

/-- [G] `inverse_continuing` (not 5-DOF) is the compliant part of `sortedUnfiltered` -/
theorem inverseContinuing_eq {R : Type} [OpwNum R] (k : Opw R) (pose : Iso R) (prev : J6 R)
    (hdof : k.p.dof ≠ 5) :
    k.inverseContinuing pose prev = k.filterCompliant (sortedUnfiltered k pose prev) := by
  unfold Opw.inverseContinuing
  rw [if_neg (by simpa using hdof)]
  rfl

/-- [G] Any number type: if adding the zero shift leaves the pose unchanged (`x + 0 = x`, true for
finite floats and for reals), every solution `s` of `inverse_intern` appears, moved next to the
reference vector, in the sorted unfiltered list. -/
theorem inverseContinuing_superset_generic {R : Type} [OpwNum R] (k : Opw R) (pose : Iso R)
    (prev : J6 R) (hpose : zeroShifted pose = pose) (s : J6 R) (hs : s ∈ inverseIntern k.p pose) :
    s.normalizeNear (k.reference prev) ∈ sortedUnfiltered k pose prev := by
  unfold sortedUnfiltered
  rw [mem_sortByCloseness]
  apply List.mem_map_of_mem
  apply shiftLoop_shifts
  rw [hpose]; exact hs

/-- [G] … hence, when it passes the constraint filter, in the result of `inverse_continuing`. -/
theorem inverseContinuing_superset_generic' {R : Type} [OpwNum R] (k : Opw R) (pose : Iso R)
    (prev : J6 R) (hdof : k.p.dof ≠ 5) (hpose : zeroShifted pose = pose) (s : J6 R)
    (hs : s ∈ inverseIntern k.p pose)
    (hc : k.compliant (s.normalizeNear (k.reference prev)) = true) :
    s.normalizeNear (k.reference prev) ∈ k.inverseContinuing pose prev := by
  rw [inverseContinuing_eq k pose prev hdof, mem_filterCompliant]
  exact ⟨inverseContinuing_superset_generic k pose prev hpose s hs, hc⟩

/-- [R] Over ℝ the zero shift is the identity and the reference is `prev`: every `inverse_intern`
solution, moved next to `prev`, is in the sorted unfiltered list, and in the result if compliant. -/
theorem inverseContinuing_superset (k : Opw ℝ) (pose : Iso ℝ) (prev : J6 ℝ) (hdof : k.p.dof ≠ 5)
    (s : J6 ℝ) (hs : s ∈ inverseIntern k.p pose) :
    s.normalizeNear prev ∈ sortedUnfiltered k pose prev ∧
    (k.compliant (s.normalizeNear prev) = true → s.normalizeNear prev ∈ k.inverseContinuing pose prev) := by
  have h := inverseContinuing_superset_generic k pose prev (zeroShifted_real pose) s hs
  have h' := inverseContinuing_superset_generic' k pose prev hdof (zeroShifted_real pose) s hs
  rw [reference_real] at h h'
  exact ⟨h, h'⟩

/-- [R] The constraint check is 2π-periodic, so moving a solution next to `prev` does not change
whether it is compliant. -/
theorem compliant_normalizeNear (k : Opw ℝ) (s prev : J6 ℝ) :
    k.compliant (s.normalizeNear prev) = k.compliant s := Nearest.compliant_normalizeNear k s prev

/-- [R] Every solution returned by plain `inverse` is returned by `inverse_continuing` as well
(as its representative next to `prev`), with or without constraints. -/
theorem inverse_subset_inverseContinuing (k : Opw ℝ) (pose : Iso ℝ) (prev : J6 ℝ)
    (hdof : k.p.dof ≠ 5) (s : J6 ℝ) (hs : s ∈ k.inverse pose) :
    s.normalizeNear prev ∈ k.inverseContinuing pose prev := by
  unfold Opw.inverse at hs
  rw [if_neg (by simpa using hdof), mem_filterCompliant] at hs
  apply (inverseContinuing_superset k pose prev hdof s hs.1).2
  rw [compliant_normalizeNear]
  exact hs.2

/-- non-vacuity: a robot (`c2 = c3 = 1`, other lengths `0`), the pose "tool at `(0,0,2)`, identity
orientation", and the zero vector, which plain `inverse` returns -/
example : ∃ (k : Opw ℝ) (pose : Iso ℝ) (s : J6 ℝ), k.p.dof ≠ 5 ∧ s ∈ k.inverse pose :=
  ⟨exOpw, exPose, zero6, ex_dof, ex_mem_inverse⟩

example : zero6.normalizeNear zero6 ∈ exOpw.inverseContinuing exPose zero6 :=
  inverse_subset_inverseContinuing exOpw exPose zero6 ex_dof zero6 ex_mem_inverse

/-! ### 6b. Every returned angle is the representative nearest to the previous angle -/

/-- [R] each returned vector is a raw solution of the shift loop moved by `normalize_near` -/
theorem inverseContinuing_mem_raw (k : Opw ℝ) (pose : Iso ℝ) (prev : J6 ℝ) (hdof : k.p.dof ≠ 5)
    (s' : J6 ℝ) (h : s' ∈ k.inverseContinuing pose prev) :
    ∃ s ∈ shiftLoop k pose prev shifts [], s' = s.normalizeNear prev := by
  rw [inverseContinuing_eq k pose prev hdof, mem_filterCompliant] at h
  have h1 := h.1
  unfold sortedUnfiltered at h1
  rw [mem_sortByCloseness, reference_real, List.mem_map] at h1
  obtain ⟨s, hs, rfl⟩ := h1
  exact ⟨s, hs, rfl⟩

/-- [R] Sign corrections `±1` (`|sign| ≤ 1`), offsets at most `100000` rad (so that the fuel of
`normPi` suffices), previous angles in `[-2π, 2π]`: every angle of every returned solution —
6-DOF or 5-DOF path, regular or recovered singular candidate — is within `π` of the corresponding
previous angle, hence (`normalizeNear_is_nearest`) the nearest 2π-representative. -/
theorem inverseContinuing_nearest (k : Opw ℝ) (pose : Iso ℝ) (prev : J6 ℝ)
    (hsign : absLe k.p.signs 1) (hoff : absLe k.p.offsets 100000) (hprev : absLe prev (2 * Real.pi))
    (s' : J6 ℝ) (h : s' ∈ k.inverseContinuing pose prev) : within s' prev Real.pi := by
  have hpi := Real.pi_pos
  by_cases hdof : k.p.dof = 5
  · unfold Opw.inverseContinuing at h
    rw [if_pos (by simpa using hdof)] at h
    unfold Opw.inverseContinuing5dof at h
    rw [mem_filterCompliant] at h
    have h1 := h.1
    rw [mem_sortByCloseness, reference_real, List.mem_map] at h1
    obtain ⟨s, hs, rfl⟩ := h1
    obtain ⟨a1, a2, a3, a4, a5, a6⟩ := inverseIntern5_absLe _ _ _ s hsign hoff hs
    obtain ⟨p1, p2, p3, p4, p5, p6⟩ := hprev
    apply normalizeNear_within
    refine ⟨?_, ?_, ?_, ?_, ?_, ?_⟩
    · exact (abs_sub _ _).trans (by linarith)
    · exact (abs_sub _ _).trans (by linarith)
    · exact (abs_sub _ _).trans (by linarith)
    · exact (abs_sub _ _).trans (by linarith)
    · exact (abs_sub _ _).trans (by linarith)
    · rw [a6, sub_self, abs_zero]; linarith
  · obtain ⟨s, hs, rfl⟩ := inverseContinuing_mem_raw k pose prev hdof s' h
    apply normalizeNear_within
    exact within_mono (shiftLoop_within k pose prev hsign hoff hprev _ s hs) (by linarith)

example : absLe exOpw.p.signs 1 ∧ absLe exOpw.p.offsets 100000 ∧ absLe zero6 (2 * Real.pi) ∧
    zero6.normalizeNear zero6 ∈ exOpw.inverseContinuing exPose zero6 := by
  have hpi := Real.pi_pos
  refine ⟨?_, ?_, ?_, inverse_subset_inverseContinuing exOpw exPose zero6 ex_dof zero6 ex_mem_inverse⟩ <;>
    simp only [absLe, exOpw, exParams, zero6, abs_one, abs_zero] <;>
    refine ⟨?_, ?_, ?_, ?_, ?_, ?_⟩ <;> linarith

/-! ### 7. A previous vector that is a solution comes back first -/

/-- [R] the L1 distance vanishes only between equal vectors -/
theorem calculateDistance_eq_zero_iff (a b : J6 ℝ) : calculateDistance a b = 0 ↔ a = b :=
  Nearest.calculateDistance_eq_zero_iff a b

/-- [R] the head of a cost-sorted list costs no more than any member -/
theorem head_of_sorted_min {α : Type} (f : α → ℝ) (l : List α)
    (hs : l.Pairwise (fun a b => f a ≤ f b)) {x : α} (hx : x ∈ l) :
    ∃ h, l.head? = some h ∧ f h ≤ f x := Nearest.head_of_sorted_min f l hs hx

/-- [R] Conditional form of "previous comes back first": sorting by distance to previous (no
constraints, or weight `BY_PREV`), `prev` compliant, and `prev` present in the normalised list
(`hmem`) — then the first returned solution is `prev`. -/
theorem prev_first (k : Opw ℝ) (pose : Iso ℝ) (prev : J6 ℝ) (hdof : k.p.dof ≠ 5)
    (hmode : k.cons = none ∨ ∃ c, k.cons = some c ∧ c.sortingWeight = byPrev)
    (hcomp : k.compliant prev = true)
    (hmem : ∃ s ∈ (shiftLoop k pose prev shifts []).map (fun s => s.normalizeNear prev), s = prev) :
    (k.inverseContinuing pose prev).head? = some prev := by
  have hcost : ∀ a, k.sortCost prev a = calculateDistance a prev := by
    intro a
    rcases hmode with h | ⟨c, h, hw⟩
    · exact sortCost_none k prev a h
    · exact sortCost_byPrev k c prev a h hw
  obtain ⟨s, hs, rfl⟩ := hmem
  have hin : s ∈ k.inverseContinuing pose s := by
    rw [inverseContinuing_eq k pose s hdof, mem_filterCompliant]
    refine ⟨?_, hcomp⟩
    unfold sortedUnfiltered
    rw [mem_sortByCloseness, reference_real]
    exact hs
  obtain ⟨h, hh, hle⟩ := head_of_sorted_min (k.sortCost s) _ (inverseContinuing_sorted k pose s) hin
  rw [hh]
  congr 1
  rw [hcost, hcost, calculateDistance_self] at hle
  exact (calculateDistance_eq_zero_iff h s).mp (le_antisymm hle (calculateDistance_nonneg h s))

/-- [R] `normalize_near(x, x) = x`: a previous vector is its own nearest representative -/
theorem normalizeNear_self (s : J6 ℝ) : s.normalizeNear s = s := J6_normalizeNear_self s

/-- [R] If `prev` is itself one of the solutions `inverse_intern` finds for the pose (it realises
the pose and the closed-form solver reproduces it — which is what fails at a wrist singularity),
sorting is by distance to previous and `prev` is compliant, then `prev` is the first solution. -/
theorem prev_first_of_solution (k : Opw ℝ) (pose : Iso ℝ) (prev : J6 ℝ) (hdof : k.p.dof ≠ 5)
    (hmode : k.cons = none ∨ ∃ c, k.cons = some c ∧ c.sortingWeight = byPrev)
    (hcomp : k.compliant prev = true) (hsol : prev ∈ inverseIntern k.p pose) :
    (k.inverseContinuing pose prev).head? = some prev :=
  prev_first k pose prev hdof hmode hcomp
    ⟨prev.normalizeNear prev,
      List.mem_map_of_mem (shiftLoop_shifts k pose prev (by rw [zeroShifted_real]; exact hsol)),
      normalizeNear_self prev⟩

/-- non-vacuity: for the example robot and pose the zero vector is a solution, there are no
constraints, and it comes back first -/
example : (exOpw.inverseContinuing exPose zero6).head? = some zero6 :=
  prev_first_of_solution exOpw exPose zero6 ex_dof (Or.inl rfl) (compliant_of_none _ _ rfl) ex_mem

end Opw.C04
