/-
  C18 — Constraint sampler (`constraints.rs::random_angles`): every joint vector produced by the
  sampler is accepted by the same constraints, for ordinary (`from < to`) and wrap-around
  (`from > to`) ranges alike, wherever the limits lie relative to zero and to a full turn; and the
  call never panics for limits that describe an arc of positive width.

  The random draw is the parameter `u ∈ [0, sampleSpan f t)`: this is the contract of
  `gen_range(0.0..len)`, which panics iff `len ≤ 0`.  In the model `randomAngle` calls `gen_range`
  in the `from < to` branch and, for `from ≥ to`, only when `sampleSpan f t > 0`.
  Property theorems only; helper lemmas live in `Lemmas/MiscReal.lean`.
  Kinds: [R] real arithmetic (the model text evaluated at `ℝ`), [G] generic (any number type).
-/
import OpwVerif.Lemmas.MiscReal
namespace Opw.C18
open Opw Opw.Limits Opw.C07 Opw.MiscReal Real

attribute [-simp] Opw.ofNatLit_real

/-! ### 1. The span handed to `gen_range` -/

/-- [R] the sampler's span: positive for an ordinary range; for a wrap-around range that is not a
whole number of turns it lies strictly between `0` and `2π`; and for every wrap-around range it is
exactly the width `unwrapTop f t - f` of the arc the constraint check (C07) uses. -/
theorem sampleSpan_pos (f t : ℝ) :
    (f < t → 0 < sampleSpan f t) ∧
    (t < f → (¬ ∃ n : ℤ, f - t = 2 * π * n) → 0 < sampleSpan f t ∧ sampleSpan f t < 2 * π) ∧
    (t < f → sampleSpan f t = unwrapTop f t - f) := by
  refine ⟨fun h => ?_, fun h hn => ⟨sampleSpan_pos_of_gt h hn, sampleSpan_lt_of_gt h⟩,
    fun h => sampleSpan_eq_unwrapTop_sub h⟩
  rw [sampleSpan_of_lt h]; linarith

/-- [R] ordinary range: the span is the plain difference -/
theorem sampleSpan_ordinary {f t : ℝ} (h : f < t) : sampleSpan f t = t - f := sampleSpan_of_lt h

/-- [R] the usual wrap-around case `t < f < t + 2π`: the span is `t - f + 2π` -/
theorem sampleSpan_wrap {f t : ℝ} (h1 : t < f) (h2 : f ≤ t + 2 * π) :
    sampleSpan f t = t - f + 2 * π := by
  rw [sampleSpan_eq_unwrapTop_sub h1, unwrapTop_of_wrap h1 h2]; ring

/-- [R] equal limits (unconstrained joint): a full turn is sampled -/
theorem sampleSpan_unconstrained (f : ℝ) : sampleSpan f f = 2 * π := sampleSpan_of_eq f

/-- [R] no panic: whenever the model reaches `gen_range(0.0..len)` — i.e. `from < to`, or
`from ≥ to` with the guard `len > 0` — the range is non-empty (`len > 0`).  In particular this holds
for every ordinary range, for equal limits, and for every wrap-around range that is not a whole
number of turns. -/
theorem gen_range_nonempty (f t : ℝ) :
    (f < t → 0 < sampleSpan f t) ∧ (f = t → 0 < sampleSpan f t) ∧
    (t < f → (¬ ∃ n : ℤ, f - t = 2 * π * n) → 0 < sampleSpan f t) := by
  refine ⟨(sampleSpan_pos f t).1, ?_, fun h hn => ((sampleSpan_pos f t).2.1 h hn).1⟩
  rintro rfl
  rw [sampleSpan_of_eq]; exact Real.two_pi_pos

/-- [G] `gen_range` is called exactly when `from < to` or the span is positive; otherwise the lower
limit is returned without drawing -/
theorem randomAngle_cases {R : Type} [OpwNum R] (f t u : R) :
    ((f < t ∨ sampleSpan f t > 0) → randomAngle f t u = f + u) ∧
    (¬ (f < t) → ¬ (sampleSpan f t > 0) → randomAngle f t u = f) := by
  unfold randomAngle
  constructor
  · rintro (h | h)
    · rw [if_pos h]
    · split_ifs <;> rfl
  · intro h1 h2
    rw [if_neg h1, if_neg h2]

/-! ### 2. One joint: the sample is on the arc -/

/-- [R] one joint, ordinary or wrap-around: a draw `u ∈ [0, span)` gives an accepted angle -/
theorem sample_on_arc {f t u : ℝ} (h : LimOk f t) (hu0 : 0 ≤ u) (hu : u < sampleSpan f t) :
    insideBounds (randomAngle f t u) (centerTol f t).1 (centerTol f t).2 = true := by
  rw [inside_iff_onArc h]
  have hpos : sampleSpan f t > 0 := lt_of_le_of_lt hu0 hu
  rw [randomAngle_of_pos u hpos]
  refine ⟨0, by push_cast; linarith, ?_⟩
  push_cast
  rcases lt_or_gt_of_ne h.1 with hlt | hgt
  · rw [unwrapTop_of_le hlt.le]
    rw [sampleSpan_of_lt hlt] at hu
    linarith
  · rw [sampleSpan_eq_unwrapTop_sub hgt] at hu
    linarith

/-- [R] the sample never reaches the upper end of the arc (half-open draw), and starts at `from` -/
theorem sample_range {f t u : ℝ} (hne : f ≠ t) (hu0 : 0 ≤ u) (hu : u < sampleSpan f t) :
    f ≤ randomAngle f t u ∧ randomAngle f t u < unwrapTop f t := by
  have hpos : sampleSpan f t > 0 := lt_of_le_of_lt hu0 hu
  rw [randomAngle_of_pos u hpos]
  refine ⟨by linarith, ?_⟩
  rcases lt_or_gt_of_ne hne with hlt | hgt
  · rw [unwrapTop_of_le hlt.le]
    rw [sampleSpan_of_lt hlt] at hu
    linarith
  · rw [sampleSpan_eq_unwrapTop_sub hgt] at hu
    linarith

/-- [R] zero-width wrap-around range (`from - to` a whole number of turns): nothing is drawn, the
lower limit is returned … -/
theorem sample_zero_width {f t : ℝ} (u : ℝ) (h0 : sampleSpan f t = 0) : randomAngle f t u = f := by
  apply randomAngle_of_not_pos
  · intro hlt
    have := (sampleSpan_pos f t).1 hlt
    linarith
  · rw [h0]; exact lt_irrefl (0 : ℝ)

/-- [R] … and it is accepted -/
theorem sample_zero_width_accepted {f t : ℝ} (u : ℝ) (h : LimOk f t) (h0 : sampleSpan f t = 0) :
    insideBounds (randomAngle f t u) (centerTol f t).1 (centerTol f t).2 = true := by
  rw [sample_zero_width u h0]; exact from_accepted h

/-- [R] zero width happens exactly for a wrap-around pair a whole number of turns apart -/
theorem sampleSpan_eq_zero_iff {f t : ℝ} (hne : f ≠ t) :
    sampleSpan f t = 0 ↔ t < f ∧ ∃ n : ℤ, f - t = 2 * π * n := by
  constructor
  · intro h0
    rcases lt_or_gt_of_ne hne with hlt | hgt
    · have := (sampleSpan_pos f t).1 hlt; linarith
    · refine ⟨hgt, ?_⟩
      by_contra hn
      have := sampleSpan_pos_of_gt hgt hn
      linarith
  · rintro ⟨hgt, n, hn⟩
    rw [sampleSpan_of_gt hgt]
    have h2 := Real.two_pi_pos
    have e : (t - f) / (2 * π) = ((-n : ℤ) : ℝ) := by
      rw [div_eq_iff h2.ne']; push_cast; linarith
    rw [e, Int.floor_intCast]; push_cast; linarith

/-- [R] one joint, all cases with `from ≠ to`: whatever the model returns for a draw within the
contract of `gen_range` (or without a draw when the span is not positive) is accepted -/
theorem sample_accepted {f t u : ℝ} (h : LimOk f t)
    (hdraw : 0 < sampleSpan f t → 0 ≤ u ∧ u < sampleSpan f t) :
    insideBounds (randomAngle f t u) (centerTol f t).1 (centerTol f t).2 = true := by
  by_cases hp : 0 < sampleSpan f t
  · exact sample_on_arc h (hdraw hp).1 (hdraw hp).2
  · have h0 : sampleSpan f t = 0 := by
      rcases lt_or_gt_of_ne h.1 with hlt | hgt
      · exact absurd ((sampleSpan_pos f t).1 hlt) hp
      · exact le_antisymm (not_lt.mp hp) (sampleSpan_nonneg_of_gt hgt)
    exact sample_zero_width_accepted u h h0

/-! ### 3. Six joints -/

/-- the draw for one joint respects the contract of `gen_range(0.0..len)` -/
def DrawOk (f t u : ℝ) : Prop := 0 ≤ u ∧ u < sampleSpan f t

/-- [R] `random_angles` on a constraint set built by `Constraints::new` returns a compliant joint
vector, for every admissible draw -/
theorem samples_compliant (fr tt : J6 ℝ) (w : ℝ) (u : J6 ℝ) (h : LimsOk fr tt)
    (d1 : DrawOk fr.j1 tt.j1 u.j1) (d2 : DrawOk fr.j2 tt.j2 u.j2) (d3 : DrawOk fr.j3 tt.j3 u.j3)
    (d4 : DrawOk fr.j4 tt.j4 u.j4) (d5 : DrawOk fr.j5 tt.j5 u.j5) (d6 : DrawOk fr.j6 tt.j6 u.j6) :
    (Constraints.mk' fr tt w).compliant (randomAngles (Constraints.mk' fr tt w) u) = true := by
  obtain ⟨h1, h2, h3, h4, h5, h6⟩ := h
  rw [compliant_mk']
  show (insideBounds (randomAngle fr.j1 tt.j1 u.j1) _ _ && insideBounds (randomAngle fr.j2 tt.j2 u.j2) _ _ &&
    insideBounds (randomAngle fr.j3 tt.j3 u.j3) _ _ && insideBounds (randomAngle fr.j4 tt.j4 u.j4) _ _ &&
    insideBounds (randomAngle fr.j5 tt.j5 u.j5) _ _ && insideBounds (randomAngle fr.j6 tt.j6 u.j6) _ _) = true
  rw [sample_on_arc h1 d1.1 d1.2, sample_on_arc h2 d2.1 d2.2, sample_on_arc h3 d3.1 d3.2,
    sample_on_arc h4 d4.1 d4.2, sample_on_arc h5 d5.1 d5.2, sample_on_arc h6 d6.1 d6.2]
  rfl

/-- [R] the same including zero-width joints (for which no draw is made and `u` is irrelevant) -/
theorem samples_compliant' (fr tt : J6 ℝ) (w : ℝ) (u : J6 ℝ) (h : LimsOk fr tt)
    (d1 : 0 < sampleSpan fr.j1 tt.j1 → DrawOk fr.j1 tt.j1 u.j1)
    (d2 : 0 < sampleSpan fr.j2 tt.j2 → DrawOk fr.j2 tt.j2 u.j2)
    (d3 : 0 < sampleSpan fr.j3 tt.j3 → DrawOk fr.j3 tt.j3 u.j3)
    (d4 : 0 < sampleSpan fr.j4 tt.j4 → DrawOk fr.j4 tt.j4 u.j4)
    (d5 : 0 < sampleSpan fr.j5 tt.j5 → DrawOk fr.j5 tt.j5 u.j5)
    (d6 : 0 < sampleSpan fr.j6 tt.j6 → DrawOk fr.j6 tt.j6 u.j6) :
    (Constraints.mk' fr tt w).compliant (randomAngles (Constraints.mk' fr tt w) u) = true := by
  obtain ⟨h1, h2, h3, h4, h5, h6⟩ := h
  rw [compliant_mk']
  show (insideBounds (randomAngle fr.j1 tt.j1 u.j1) _ _ && insideBounds (randomAngle fr.j2 tt.j2 u.j2) _ _ &&
    insideBounds (randomAngle fr.j3 tt.j3 u.j3) _ _ && insideBounds (randomAngle fr.j4 tt.j4 u.j4) _ _ &&
    insideBounds (randomAngle fr.j5 tt.j5 u.j5) _ _ && insideBounds (randomAngle fr.j6 tt.j6 u.j6) _ _) = true
  rw [sample_accepted h1 d1, sample_accepted h2 d2, sample_accepted h3 d3,
    sample_accepted h4 d4, sample_accepted h5 d5, sample_accepted h6 d6]
  rfl

/-! ### 4. Generic: the unconstrained joint -/

/-- [G] `from == to` (Rust `==`): the sampler returns `from + u` or `from`, and either is accepted,
provided `1.0 / 0.0` is infinite in the number type (true for `f64`; see C07) -/
theorem sample_unconstrained {R : Type} [OpwNum R] (f t u : R) (h : feq f t = true)
    (hinf : isInfinite (infTol : R) = true) :
    (randomAngle f t u = f + u ∨ randomAngle f t u = f) ∧
    insideBounds (randomAngle f t u) (centerTol f t).1 (centerTol f t).2 = true := by
  refine ⟨?_, unconstrained_accepts f t _ h hinf⟩
  unfold randomAngle
  split_ifs
  · exact Or.inl rfl
  · exact Or.inl rfl
  · exact Or.inr rfl

/-- [G] for `from == to` not below `to`, the span handed to `gen_range` is the full turn `2π` -/
theorem sampleSpan_of_feq {R : Type} [OpwNum R] (f t : R) (hlt : ¬ f < t) (h : feq f t = true) :
    sampleSpan f t = 2 * pi := by
  unfold sampleSpan
  rw [if_neg hlt, if_pos h]

/-! ### 5. Examples (hypotheses are satisfiable) -/

/-- the historically failing case: wrap-around with both limits positive, `from = 5`, `to = 4`.
The span is `2π − 1 ≈ 5.28`, the draw `u = 3` gives the angle `8` (≡ `8 − 2π ≈ 1.72`), accepted. -/
example : LimOk 5 4 ∧ sampleSpan (5 : ℝ) 4 = 2 * π - 1 ∧ DrawOk 5 4 3 ∧ randomAngle (5 : ℝ) 4 3 = 8 ∧
    insideBounds (randomAngle (5 : ℝ) 4 3) (centerTol (5 : ℝ) 4).1 (centerTol (5 : ℝ) 4).2 = true := by
  have hp := pi_gt_three
  have hl : LimOk 5 4 :=
    limOk_of_abs_le (by norm_num) (by rw [abs_of_pos (by norm_num)]; linarith)
      (by rw [abs_of_pos (by norm_num)]; linarith)
  have hs : sampleSpan (5 : ℝ) 4 = 2 * π - 1 := by
    rw [sampleSpan_wrap (by norm_num) (by linarith)]; ring
  have hd : DrawOk 5 4 3 := ⟨by norm_num, by rw [hs]; linarith⟩
  refine ⟨hl, hs, hd, ?_, sample_on_arc hl hd.1 hd.2⟩
  rw [randomAngle_of_pos 3 (lt_of_le_of_lt hd.1 hd.2)]
  norm_num

/-- ordinary range straddling zero: `from = -1`, `to = 2`, `u = 2.5` -/
example : insideBounds (randomAngle (-1 : ℝ) 2 2.5) (centerTol (-1 : ℝ) 2).1 (centerTol (-1 : ℝ) 2).2 = true := by
  have hp := pi_gt_three
  have hl : LimOk (-1) 2 :=
    limOk_of_abs_le (by norm_num) (by rw [abs_of_neg (by norm_num)]; linarith)
      (by rw [abs_of_pos (by norm_num)]; linarith)
  exact sample_on_arc hl (by norm_num) (by rw [sampleSpan_of_lt (by norm_num)]; norm_num)

/-- six joints, mixing wrap-around and ordinary ranges, satisfy all hypotheses of `samples_compliant` -/
example : (Constraints.mk' (⟨5, -1, 3, -2, 3, -3⟩ : J6 ℝ) ⟨4, 1, 1, 2, 1, 3⟩ 0).compliant
    (randomAngles (Constraints.mk' (⟨5, -1, 3, -2, 3, -3⟩ : J6 ℝ) ⟨4, 1, 1, 2, 1, 3⟩ 0) ⟨3, 1, 3, 3, 0, 5⟩) = true := by
  have hp := pi_gt_three
  have ok : ∀ f t : ℝ, f ≠ t → |f| ≤ 5 → |t| ≤ 5 → LimOk f t := fun f t hne hf ht =>
    limOk_of_abs_le hne (by linarith) (by linarith)
  have hw : ∀ f t u : ℝ, t < f → f ≤ t + 6 → 0 ≤ u → u < t - f + 6 → DrawOk f t u :=
    fun f t u h1 h2 h3 h4 => ⟨h3, by rw [sampleSpan_wrap h1 (by linarith)]; linarith⟩
  have ho : ∀ f t u : ℝ, f < t → 0 ≤ u → u < t - f → DrawOk f t u :=
    fun f t u h1 h3 h4 => ⟨h3, by rw [sampleSpan_of_lt h1]; linarith⟩
  apply samples_compliant
  · refine ⟨ok _ _ ?_ ?_ ?_, ok _ _ ?_ ?_ ?_, ok _ _ ?_ ?_ ?_, ok _ _ ?_ ?_ ?_, ok _ _ ?_ ?_ ?_,
      ok _ _ ?_ ?_ ?_⟩ <;> norm_num [abs_le]
  · exact hw _ _ _ (by norm_num) (by norm_num) (by norm_num) (by norm_num)
  · exact ho _ _ _ (by norm_num) (by norm_num) (by norm_num)
  · exact hw _ _ _ (by norm_num) (by norm_num) (by norm_num) (by norm_num)
  · exact ho _ _ _ (by norm_num) (by norm_num) (by norm_num)
  · exact hw _ _ _ (by norm_num) (by norm_num) (by norm_num) (by norm_num)
  · exact ho _ _ _ (by norm_num) (by norm_num) (by norm_num)

/-- a zero-width wrap-around pair exists: `from = 2π`, `to = 0` -/
example : sampleSpan (2 * π) 0 = 0 ∧ randomAngle (2 * π) 0 1 = 2 * π := by
  have h2 := Real.two_pi_pos
  have h0 : sampleSpan (2 * π) 0 = 0 :=
    (sampleSpan_eq_zero_iff h2.ne').2 ⟨h2, 1, by push_cast; ring⟩
  exact ⟨h0, sample_zero_width 1 h0⟩

end Opw.C18
