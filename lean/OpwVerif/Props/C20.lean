/-
  C20 — URDF extraction (`urdf.rs`, `from_urdf`; model `Urdf.lean`): for every robot description
  generated from OPW parameters in the supported joint layouts, extraction returns those parameters,
  the axis-derived sign corrections and the joint limits, independent of joint declaration order,
  XML nesting, name prefixes/decoration or an identical second copy of the robot; a joint without
  limits becomes an unconstrained joint (from = to = 0); missing joints, conflicting duplicates or
  malformed XML yield an error value.

  Kinds: [G] generic (any number type `R`; holds of the Float reading itself),
         [Z] generic under `ZeroLaws R` (`feq x 0 = true ↔ x = 0`, `-(-x) = x`, `-0 = 0`),
         [R] real arithmetic (`ZeroLaws ℝ` holds, `eqv` is equality).
  Vocabulary from `Lemmas/UrdfLemmas.lean`: `look m n` (lookup by name), `Compat` (same name ⇒
  `eqv`), `NamesDistinct`, `fromJoints` (`fromUrdf` after collection), `hereOf`, `noJoint(L)`,
  `Desc` (proper descendant), `ZeroLaws`.
-/
import OpwVerif.Lemmas.UrdfLemmas
import OpwVerif.Real
namespace Opw.C20
open Opw Opw.UrdfL

/-! ### 1. specification side: the joints of a generated description -/

section Generic
variable {R : Type} [OpwNum R]

structure Layout where
  c2OnX : Bool
  bOnJ3 : Bool
  c3OnJ4 : Bool
  c3OnX : Bool
  c4OnX : Bool
deriving DecidableEq, Repr

def jointOrigin (u : UParams R) (lay : Layout) : Nat → R × R × R
  | 0 => (0, 0, u.c1)
  | 1 => (u.a1, 0, 0)
  | 2 =>
    let b' : R := if lay.bOnJ3 then u.b else 0
    if lay.c2OnX then (u.c2, b', 0) else (0, b', u.c2)
  | 3 =>
    if lay.c3OnJ4 then (if lay.c3OnX then (u.c3, 0, -u.a2) else (0, u.c3, -u.a2))
    else (0, 0, -u.a2)
  | 4 =>
    if lay.c3OnJ4 then (0, 0, 0) else if lay.c3OnX then (u.c3, 0, 0) else (0, 0, u.c3)
  | _ => if lay.c4OnX then (u.c4, 0, 0) else (0, 0, u.c4)

def jointFor (u : UParams R) (lay : Layout) (names : List String) (k : Nat) : JointData R :=
  let o := jointOrigin u lay k
  ⟨names.getD k "", o.1, o.2.1, o.2.2, u.signs.getD k 0, u.from_.getD k 0, u.to.getD k 0⟩

def jointsFor (u : UParams R) (lay : Layout) (names : List String) : List (JointData R) :=
  (List.range 6).map (jointFor u lay names)

structure LayoutOk (u : UParams R) (lay : Layout) : Prop where
  c2_of_b : lay.bOnJ3 = true → u.b ≠ 0 → u.c2 ≠ 0
  b_zero : lay.bOnJ3 = false → u.b = 0
  c3_on_j4 : lay.c3OnJ4 = true → u.a2 ≠ 0 ∧ u.c3 ≠ 0

variable (L : ZeroLaws R) (u st : UParams R) (lay : Layout) (names : List String)
include L

theorem stepJ0 : populateStep 0 (jointFor u lay names 0) st = some { st with c1 := u.c1 } :=
  step0 (L.nz3_z _)

theorem stepJ1 : populateStep 1 (jointFor u lay names 1) st = some { st with a1 := u.a1 } :=
  step1 (L.nz3_x _)

theorem stepJ2 (ok : LayoutOk u lay) :
    populateStep 2 (jointFor u lay names 2) st = some { st with c2 := u.c2, b := u.b } := by
  obtain ⟨c2x, bj3, c3j4, c3x, c4x⟩ := lay
  have h1 := ok.c2_of_b
  have h2 := ok.b_zero
  simp only at h1 h2
  cases bj3
  · rw [h2 rfl]
    cases c2x
    · exact step2_single (L.nz3_z _)
    · exact step2_single (L.nz3_x _)
  · by_cases hb : u.b = 0
    · cases c2x
      · have : nonZero3 (0 : R) u.b u.c2 = some u.c2 := by rw [hb]; exact L.nz3_z _
        rw [step2_single (j := jointFor u ⟨false, true, c3j4, c3x, c4x⟩ names 2) this, hb]
      · have : nonZero3 u.c2 u.b (0 : R) = some u.c2 := by rw [hb]; exact L.nz3_x _
        rw [step2_single (j := jointFor u ⟨true, true, c3j4, c3x, c4x⟩ names 2) this, hb]
    · have hc := h1 rfl hb
      cases c2x
      · exact step2_multi (L.nz3_yz _ hb hc) (L.nz2_r _)
      · exact step2_multi (L.nz3_xy _ hc hb) (L.nz2_l _)

theorem stepJ3 (ok : LayoutOk u lay) (hst : st.c3 = 0) :
    populateStep 3 (jointFor u lay names 3) st =
      some { st with a2 := u.a2, c3 := if lay.c3OnJ4 then u.c3 else st.c3 } := by
  obtain ⟨c2x, bj3, c3j4, c3x, c4x⟩ := lay
  have h3 := ok.c3_on_j4
  simp only at h3
  cases c3j4
  · have : nonZero3 (0 : R) 0 (-u.a2) = some (-u.a2) := L.nz3_z _
    rw [step3_single (j := jointFor u ⟨c2x, bj3, false, c3x, c4x⟩ names 3) this, L.neg_neg]
    rfl
  · obtain ⟨ha, hc⟩ := h3 rfl
    have hst' : feq st.c3 0 = true := by rw [hst]; exact L.feq00
    cases c3x
    · have h : nonZero3 (0 : R) u.c3 (-u.a2) = none := L.nz3_yz _ hc (L.neg_ne ha)
      have h2 : nonZero2 (0 : R) u.c3 = some u.c3 := L.nz2_r _
      rw [step3_multi (j := jointFor u ⟨c2x, bj3, true, false, c4x⟩ names 3) h hst' h2]
      show some { st with a2 := - -u.a2, c3 := u.c3 } = _
      rw [L.neg_neg]; rfl
    · have h : nonZero3 u.c3 (0 : R) (-u.a2) = none := L.nz3_xz _ hc (L.neg_ne ha)
      have h2 : nonZero2 u.c3 (0 : R) = some u.c3 := L.nz2_l _
      rw [step3_multi (j := jointFor u ⟨c2x, bj3, true, true, c4x⟩ names 3) h hst' h2]
      show some { st with a2 := - -u.a2, c3 := u.c3 } = _
      rw [L.neg_neg]; rfl

theorem stepJ4 (hst : st.c3 = if lay.c3OnJ4 then u.c3 else 0) :
    populateStep 4 (jointFor u lay names 4) st = some { st with c3 := u.c3 } := by
  obtain ⟨c2x, bj3, c3j4, c3x, c4x⟩ := lay
  simp only at hst
  cases c3j4
  · simp only [Bool.false_eq_true, if_false] at hst
    have hst' : feq st.c3 0 = true := by rw [hst]; exact L.feq00
    by_cases hc : u.c3 = 0
    · have hv : feq u.c3 0 = true := by rw [hc]; exact L.feq00
      have : populateStep 4 (jointFor u ⟨c2x, bj3, false, c3x, c4x⟩ names 4) st = some st := by
        cases c3x
        · exact step4_zero (v := u.c3) (L.nz3_z _) hv
        · exact step4_zero (v := u.c3) (L.nz3_x _) hv
      rw [this, hc, ← hst]
    · have hv := L.feq_ne hc
      cases c3x
      · exact step4_set (L.nz3_z _) hv hst'
      · exact step4_set (L.nz3_x _) hv hst'
  · simp only [if_true] at hst
    have : populateStep 4 (jointFor u ⟨c2x, bj3, true, c3x, c4x⟩ names 4) st = some st :=
      step4_zero (v := 0) (L.nz3_z _) L.feq00
    rw [this, ← hst]

theorem stepJ5 : populateStep 5 (jointFor u lay names 5) st = some { st with c4 := u.c4 } := by
  obtain ⟨c2x, bj3, c3j4, c3x, c4x⟩ := lay
  cases c4x
  · exact step5 (L.nz3_z _)
  · exact step5 (L.nz3_x _)

omit L in
theorem look_jointsFor (hlen : names.length = 6) (hnd : names.Nodup) (k : Nat) (hk : k < 6) :
    look (jointsFor u lay names) (names.getD k "") = some (jointFor u lay names k) := by
  obtain ⟨n0, n1, n2, n3, n4, n5, rfl⟩ := length_six hlen
  simp only [List.nodup_cons, List.mem_cons, not_or, List.not_mem_nil, not_false_eq_true,
    and_true, List.nodup_nil] at hnd
  obtain ⟨⟨h01, h02, h03, h04, h05⟩, ⟨h12, h13, h14, h15⟩, ⟨h23, h24, h25⟩, ⟨h34, h35⟩, h45⟩ := hnd
  have e : jointsFor u lay [n0, n1, n2, n3, n4, n5] =
      [jointFor u lay _ 0, jointFor u lay _ 1, jointFor u lay _ 2, jointFor u lay _ 3,
       jointFor u lay _ 4, jointFor u lay _ 5] := rfl
  rw [e]
  have hn : ∀ i, (jointFor u lay [n0, n1, n2, n3, n4, n5] i).name = [n0, n1, n2, n3, n4, n5].getD i "" :=
    fun _ => rfl
  simp only [look, List.find?_cons, hn]
  have B : ∀ {a b : String}, ¬ a = b → (a == b) = false := fun h => by simpa using h
  match k, hk with
  | 0, _ => simp
  | 1, _ => simp [B h01]
  | 2, _ => simp [B h02, B h12]
  | 3, _ => simp [B h03, B h13, B h23]
  | 4, _ => simp [B h04, B h14, B h24, B h34]
  | 5, _ => simp [B h05, B h15, B h25, B h35, B h45]


theorem populate_roundtrip_eq (ok : LayoutOk u lay) (hlen : names.length = 6) (hnd : names.Nodup)
    (hs : u.signs.length = 6) (hf : u.from_.length = 6) (ht : u.to.length = 6)
    (hr : ∀ s ∈ u.signs, -128 ≤ s ∧ s ≤ 127) (hdof : u.dof = 6) :
    populate (jointsFor u lay names) names = some u := by
  have hl := look_jointsFor u lay names hlen hnd
  obtain ⟨n0, n1, n2, n3, n4, n5, rfl⟩ := length_six hlen
  have l0 : look (jointsFor u lay [n0, n1, n2, n3, n4, n5]) n0 = _ := hl 0 (by omega)
  have l1 : look (jointsFor u lay [n0, n1, n2, n3, n4, n5]) n1 = _ := hl 1 (by omega)
  have l2 : look (jointsFor u lay [n0, n1, n2, n3, n4, n5]) n2 = _ := hl 2 (by omega)
  have l3 : look (jointsFor u lay [n0, n1, n2, n3, n4, n5]) n3 = _ := hl 3 (by omega)
  have l4 : look (jointsFor u lay [n0, n1, n2, n3, n4, n5]) n4 = _ := hl 4 (by omega)
  have l5 : look (jointsFor u lay [n0, n1, n2, n3, n4, n5]) n5 = _ := hl 5 (by omega)
  have l5' := l5
  simp only [look] at l5'
  have e5 : [n0, n1, n2, n3, n4, n5].getD 5 "" = n5 := rfl
  have e6 : [n0, n1, n2, n3, n4, n5].take 6 = [n0, n1, n2, n3, n4, n5] := rfl
  unfold populate
  simp only [e5, e6, l5', Option.isSome_some, if_true]
  rw [populateGo_cons l0, stepJ0 L, Option.bind_some,
    populateGo_cons l1, stepJ1 L, Option.bind_some,
    populateGo_cons l2, stepJ2 L _ _ _ _ ok, Option.bind_some,
    populateGo_cons l3, stepJ3 L _ _ _ _ ok rfl, Option.bind_some,
    populateGo_cons l4, stepJ4 L _ _ _ _ rfl, Option.bind_some,
    populateGo_cons l5, stepJ5 L, Option.bind_some]
  simp only [populateGo]
  obtain ⟨a1, a2, b, c1, c2, c3, c4, sg, fr, tt, dof⟩ := u
  simp only at hs hf ht hr hdof
  obtain ⟨s0, s1, s2, s3, s4, s5, rfl⟩ := length_six hs
  obtain ⟨f0, f1, f2, f3, f4, f5, rfl⟩ := length_six hf
  obtain ⟨t0, t1, t2, t3, t4, t5, rfl⟩ := length_six ht
  subst hdof
  have w : ∀ s ∈ [s0, s1, s2, s3, s4, s5], wrapI8 s = s := fun s h => wrapI8_id (hr s h).1 (hr s h).2
  simp only [UParams.zero, jointFor, List.getD_cons_zero, List.getD_cons_succ, List.nil_append,
    List.cons_append, Option.some.injEq, UParams.mk.injEq, true_and, and_true]
  rw [w s0 (by simp), w s1 (by simp), w s2 (by simp), w s3 (by simp), w s4 (by simp), w s5 (by simp)]


/-- [Z] PROPERTY (round trip, the form of the claim) -/
theorem populate_roundtrip (ok : LayoutOk u lay) (hlen : names.length = 6) (hnd : names.Nodup)
    (hs : u.signs.length = 6) (hf : u.from_.length = 6) (ht : u.to.length = 6)
    (hr : ∀ s ∈ u.signs, -128 ≤ s ∧ s ≤ 127) (hdof : u.dof = 6) :
    ∃ u', populate (jointsFor u lay names) names = some u' ∧
      u'.a1 = u.a1 ∧ u'.a2 = u.a2 ∧ u'.b = u.b ∧ u'.c1 = u.c1 ∧ u'.c2 = u.c2 ∧ u'.c3 = u.c3 ∧
      u'.c4 = u.c4 ∧ u'.signs = u.signs ∧ u'.from_ = u.from_ ∧ u'.to = u.to ∧ u'.dof = 6 :=
  ⟨u, populate_roundtrip_eq L u lay names ok hlen hnd hs hf ht hr hdof,
    rfl, rfl, rfl, rfl, rfl, rfl, rfl, rfl, rfl, rfl, hdof⟩

omit L in
/-- [G] the generated joints carry the six names, in order -/
theorem jointsFor_names (hlen : names.length = 6) :
    (jointsFor u lay names).map (·.name) = names := by
  obtain ⟨n0, n1, n2, n3, n4, n5, rfl⟩ := length_six hlen
  rfl

omit L in
theorem jointsFor_distinct (hlen : names.length = 6) (hnd : names.Nodup) :
    NamesDistinct (jointsFor u lay names) := by
  unfold NamesDistinct
  rw [jointsFor_names u lay names hlen]; exact hnd

end Generic

/-! ### 3. order / nesting / duplication independence -/
section Indep
variable {R : Type} [OpwNum R]

/-- [G] 3a: without conflicts the map exists and answers every lookup with the first occurrence -/
theorem convertToMap_lookup {js : List (JointData R)} (hp : js.Pairwise Compat) :
    ∃ m, convertToMap [] js = some m ∧
      ∀ n, m.find? (fun j => j.name == n) = js.find? (fun j => j.name == n) := by
  obtain ⟨m, hm⟩ := convertToMap_isSome (acc := []) (js := js) (by simp) hp
  exact ⟨m, hm, fun n => by simpa [look] using convertToMap_find hm n⟩

/-- [G] 3a: whenever the map exists (conflict-free or not) lookups are first occurrences -/
theorem convertToMap_lookup_of_some {js m : List (JointData R)} (h : convertToMap [] js = some m)
    (n : String) : m.find? (fun j => j.name == n) = js.find? (fun j => j.name == n) := by
  simpa [look] using convertToMap_find h n

/-- [G] 3a: `populate` depends on the map only through the lookup function -/
theorem populate_congr {m m' : List (JointData R)}
    (h : ∀ n, m.find? (fun j => j.name == n) = m'.find? (fun j => j.name == n))
    (names : List String) : populate m names = populate m' names :=
  UrdfL.populate_congr h names

/-- [G] the map can be bypassed: `fromUrdf` after collection is `populate` on the raw joint list -/
theorem fromJoints_eq_populate {js m : List (JointData R)} (h : convertToMap [] js = some m)
    (names : List String) :
    fromJoints js names =
      match populate js names with
      | none => .error .populate
      | some u => .ok u := by
  have : populate m names = populate js names :=
    UrdfL.populate_congr (fun n => by simpa using convertToMap_find h n) names
  simp only [fromJoints, h, this]
  rfl

/-- [G] 3b: declaration order is irrelevant -/
theorem perm_independent {js js' : List (JointData R)} (hp : js'.Perm js) (hd : NamesDistinct js)
    (names : List String) :
    (∀ n, js'.find? (fun j => j.name == n) = js.find? (fun j => j.name == n)) ∧
    fromJoints js' names = fromJoints js names := by
  have hl : ∀ n, look js' n = look js n := look_perm hp hd
  obtain ⟨m, hm⟩ := convertToMap_isSome (acc := []) (js := js) (by simp) hd.pairwise_compat
  obtain ⟨m', hm'⟩ := convertToMap_isSome (acc := []) (js := js') (by simp) (hd.perm hp).pairwise_compat
  exact ⟨hl, fromJoints_congr hm' hm hl names⟩

/-- [G] 3b at `fromUrdf` level: two documents whose joints are permutations of each other -/
theorem perm_independent_fromUrdf {r r' : Xml R} {names : Option (List String)}
    {js js' : List (JointData R)} (hc : collectJoints names.isSome r = some js)
    (hc' : collectJoints names.isSome r' = some js') (hp : js'.Perm js) (hd : NamesDistinct js) :
    fromUrdf (some r') names = fromUrdf (some r) names := by
  rw [fromUrdf_eq_fromJoints hc, fromUrdf_eq_fromJoints hc']
  exact (perm_independent hp hd _).2

/-- [G] 3b: an identical second copy of the robot gives the same map -/
theorem second_copy_independent {js : List (JointData R)} (hp : js.Pairwise Compat)
    (hr : ∀ j ∈ js, j.eqv j = true) (names : List String) :
    convertToMap [] (js ++ js) = convertToMap [] js ∧
    fromJoints (js ++ js) names = fromJoints js names := by
  have h := convertToMap_second_copy hp hr
  exact ⟨h, by simp only [fromJoints, h]⟩

/-- [G] 3c: the collected list is the pre-order concatenation `here ++ inner ++ tail` -/
theorem collect_nesting (b : Bool) (c : Xml R) (rest : List (Xml R)) :
    collectList b (c :: rest) =
      (hereOf b c).bind fun h => (collectJoints b c).bind fun inner =>
        (collectList b rest).bind fun tl => some (h ++ inner ++ tl) :=
  collectList_cons b c rest

/-- [G] 3c: a non-joint element contributes exactly what its children contribute -/
theorem collect_nonjoint (b : Bool) {w : String} (hw : w ≠ "joint") (attrs : List (Attr R))
    (kids rest : List (Xml R)) :
    collectList b (Xml.elem w attrs kids :: rest) =
      (collectList b kids).bind fun inner => (collectList b rest).bind fun tl => some (inner ++ tl) :=
  collectList_cons_nonjoint b hw attrs kids rest

/-- [G] 3c: wrapping elements in a non-joint element changes nothing -/
theorem wrap_independent (b : Bool) {w : String} (hw : w ≠ "joint") (attrs : List (Attr R))
    (kids rest : List (Xml R)) :
    collectList b (Xml.elem w attrs kids :: rest) = collectList b (kids ++ rest) := by
  rw [collectList_cons_nonjoint b hw, collectList_append]

/-- [G] 3c: elements without joints inside collect nothing -/
theorem collect_noJoint (b : Bool) :
    (∀ l : List (Xml R), noJointL l = true → collectList b l = some []) ∧
    (∀ e : Xml R, noJoint e = true → collectJoints b e = some []) :=
  ⟨collectList_noJoint b, collectJoints_noJoint b⟩

/-- [G] 3c: inserting a joint-free sibling anywhere changes nothing -/
theorem sibling_independent (b : Bool) {s : Xml R} (hs : noJoint s = true) (l1 l2 : List (Xml R)) :
    collectList b (l1 ++ s :: l2) = collectList b (l1 ++ l2) := by
  have hs' : collectList b (s :: l2) = collectList b l2 := by
    cases s with
    | elem n attrs kids =>
      simp only [noJoint, Bool.and_eq_true, bne_iff_ne] at hs
      rw [collectList_cons_nonjoint b hs.1, collectList_noJoint b kids hs.2]
      cases collectList b l2 <;> simp
  rw [collectList_append, collectList_append, hs']

end Indep

/-! ### 4. errors -/
section Errors
variable {R : Type} [OpwNum R]

/-- [G] a second entry with the same name as, but different from, the first entry of that name -/
theorem conflict_is_error {l1 l2 l3 : List (JointData R)} {a b : JointData R}
    (hfirst : ∀ e ∈ l1, e.name ≠ a.name) (hn : a.name = b.name) (hne : a.eqv b = false)
    (names : List String) :
    convertToMap [] (l1 ++ a :: l2 ++ b :: l3) = none ∧
    fromJoints (l1 ++ a :: l2 ++ b :: l3) names = .error .xml := by
  have h := convertToMap_conflict (l2 := l2) (l3 := l3) hfirst hn hne
  exact ⟨h, by simp only [fromJoints, h]⟩

theorem conflict_is_error_fromUrdf {r : Xml R} {names : Option (List String)}
    {l1 l2 l3 : List (JointData R)} {a b : JointData R}
    (hc : collectJoints names.isSome r = some (l1 ++ a :: l2 ++ b :: l3))
    (hfirst : ∀ e ∈ l1, e.name ≠ a.name) (hn : a.name = b.name) (hne : a.eqv b = false) :
    fromUrdf (some r) names = .error .xml := by
  rw [fromUrdf_eq_fromJoints hc]
  exact (conflict_is_error hfirst hn hne _).2

/-- [G] one of the (first six) names has no entry -/
theorem missing_is_error {m : List (JointData R)} {names : List String} {n : String}
    (hn : n ∈ names.take 6) (hmiss : m.find? (fun j => j.name == n) = none) :
    populate m names = none :=
  populate_missing hn hmiss

theorem missing_is_error_fromJoints {js : List (JointData R)} {names : List String} {n : String}
    (hn : n ∈ names.take 6) (hmiss : ∀ j ∈ js, j.name ≠ n) :
    fromJoints js names = .error .xml ∨ fromJoints js names = .error .populate := by
  unfold fromJoints
  cases hm : convertToMap [] js with
  | none => exact Or.inl rfl
  | some m =>
    right
    have : look m n = none := by
      rw [convertToMap_find hm]
      simp only [look, List.nil_append, List.find?_eq_none]
      intro j hj; simpa using hmiss j hj
    simp only [populate_missing hn this]

theorem missing_is_error_fromUrdf {r : Xml R} {names : Option (List String)}
    {js m : List (JointData R)} {n : String}
    (hc : collectJoints names.isSome r = some js) (hm : convertToMap [] js = some m)
    (hn : n ∈ (names.getD defaultNames).take 6) (hmiss : ∀ j ∈ js, j.name ≠ n) :
    fromUrdf (some r) names = .error .populate := by
  rw [fromUrdf_eq_fromJoints hc]
  have : look m n = none := by
    rw [convertToMap_find hm]
    simp only [look, List.nil_append, List.find?_eq_none]
    intro j hj; simpa using hmiss j hj
  simp only [fromJoints, hm, populate_missing hn this]

/-- [G] parser error / no root element -/
theorem no_root_is_error (names : Option (List String)) :
    fromUrdf (none : Option (Xml R)) names = .error .xml := rfl

/-- [G] a `<joint>` anywhere below the root whose `<origin xyz=…>` has a non-numeric token or not
exactly three values (or no `xyz` at all) -/
theorem bad_origin_is_error {r j o : Xml R} {names : Option (List String)}
    (hd : Desc r j) (hj : j.name = "joint") (ho : j.child "origin" = some o)
    (hbad : o.attr "xyz" = none ∨
      ∃ a, o.attr "xyz" = some a ∧ (none ∈ a.tokens ∨ a.tokens.length ≠ 3)) :
    collectJoints names.isSome r = none ∧ fromUrdf (some r) names = .error .xml := by
  have hx : getXyz o = none := by
    rcases hbad with h | ⟨a, ha, h⟩
    · exact getXyz_none_of_no_attr h
    · exact getXyz_none ha h
  have := collectJoints_none_of_desc (b := names.isSome) hd hj (jointOf_none_of_origin ho hx)
  exact ⟨this, fromUrdf_collect_none this⟩

end Errors

/-! ### 5. limits and axis sign of one joint element -/
section Joint
variable {R : Type} [OpwNum R]

/-- [G] no `<limit>` child, or limits that do not parse: unconstrained joint -/
theorem no_limit_unconstrained {b : Bool} {j : Xml R} {d : JointData R} (h : jointOf b j = some d)
    (hl : j.child "limit" = none ∨ ∃ l, j.child "limit" = some l ∧ getLimits l = none) :
    d.from_ = 0 ∧ d.to = 0 := by
  rcases hl with hl | ⟨l, hl, hbad⟩
  · exact jointOf_no_limit h hl
  · exact jointOf_bad_limit h hl hbad

/-- [G] limits that parse are returned -/
theorem limit_returned {b : Bool} {j l : Xml R} {d : JointData R} {lo hi : R}
    (h : jointOf b j = some d) (hl : j.child "limit" = some l)
    (hlim : getLimits l = some (lo, hi)) : d.from_ = lo ∧ d.to = hi :=
  jointOf_limit h hl hlim

/-- [G] exactly one non-zero axis value `v`: sign `-1` if `v < 0` else `1`; no axis child: `1` -/
theorem axis_sign {b : Bool} {j : Xml R} {d : JointData R} (h : jointOf b j = some d) :
    (j.child "axis" = none → d.sign = 1) ∧
    (∀ a at_ vals v, j.child "axis" = some a → a.attr "xyz" = some at_ →
      allSome at_.tokens = some vals → vals.filter (fun v => !(feq v 0)) = [v] →
      d.sign = if v < 0 then -1 else 1) :=
  ⟨jointOf_no_axis h, fun _ _ _ _ ha hat hv hnz => jointOf_axis h ha (getAxisSign_single hat hv hnz)⟩

/-- [Z] the three unit-axis shapes -/
theorem axis_sign_unit (L : ZeroLaws R) {a : Xml R} {at_ : Attr R} {v : R} (hv : v ≠ 0)
    (hat : a.attr "xyz" = some at_)
    (ht : at_.tokens = [some v, some 0, some 0] ∨ at_.tokens = [some 0, some v, some 0] ∨
          at_.tokens = [some 0, some 0, some v]) :
    getAxisSign a = some (if v < 0 then -1 else 1) := by
  rcases ht with ht | ht | ht
  all_goals
    refine getAxisSign_single hat (by rw [ht]; exact allSome_three _ _ _) ?_
    simp [List.filter, L.feq00, L.feq_ne hv]

/-- [G] a well-formed `xyz="x y z"` attribute is read as the triple -/
theorem getXyz_three {o : Xml R} {a : Attr R} {x y z : R} (ha : o.attr "xyz" = some a)
    (ht : a.tokens = [some x, some y, some z]) : getXyz o = some (x, y, z) := by
  unfold getXyz
  simp only [ha, ht, allSome_three]

/-- [G] plain numeric `lower`/`upper` attributes are returned as parsed -/
theorem getLimits_plain {l : Xml R} {alo ahi : Attr R} {lo hi : R}
    (h1 : l.attr "lower" = some alo) (h2 : l.attr "upper" = some ahi)
    (r1 : alo.radInner = none) (r2 : ahi.radInner = none)
    (w1 : alo.whole = some lo) (w2 : ahi.whole = some hi) : getLimits l = some (lo, hi) := by
  unfold getLimits
  simp only [h1, h2, parseAngle, r1, r2, w1, w2]

/-- [G] a complete `<joint>` element (explicit names) yields exactly its name, origin, axis sign
and limits: the element-level link between a generated description and `jointsFor` -/
theorem jointOf_full {j o a l : Xml R} {an : Attr R} {x y z lo hi : R} {s : Int}
    (hn : j.attr "name" = some an) (ho : j.child "origin" = some o)
    (hx : getXyz o = some (x, y, z)) (ha : j.child "axis" = some a) (hs : getAxisSign a = some s)
    (hl : j.child "limit" = some l) (hlim : getLimits l = some (lo, hi)) :
    jointOf true j = some ⟨an.value, x, y, z, s, lo, hi⟩ := by
  unfold jointOf
  simp only [hn, ho, hx, ha, hs, hl, hlim, if_true]

end Joint

/-! ### 6. joint-name simplification (kernel evaluation of `preprocessJointName`) -/

theorem name_plain : preprocessJointName "joint1" = "joint1" := by decide
theorem name_upper_underscore : preprocessJointName "JOINT_2" = "joint2" := by decide
theorem name_macro_prefix : preprocessJointName "${prefix}joint_3" = "joint3" := by decide
theorem name_word_prefix : preprocessJointName "left_Joint-4" = "joint4" := by decide
theorem name_macro_upper_decorated : preprocessJointName "${prefix}JOINT_5!" = "joint5" := by decide
theorem name_default_fixed : defaultNames.map preprocessJointName = defaultNames := by decide

/-! ### [R] real arithmetic -/
section Real

theorem zeroLaws_real : ZeroLaws ℝ where
  feq_zero x := by simp [feq_real]
  neg_neg x := neg_neg x
  neg_zero := by simp

theorem opwZero_real : (@OfNat.ofNat ℝ 0 instOfNatOpw) = (0 : ℝ) := by simp

/-- [R] over `ℝ` the derived `PartialEq` is equality -/
theorem eqv_real (a b : JointData ℝ) : a.eqv b = true ↔ a = b := by
  cases a; cases b
  simp [JointData.eqv, feq_real, and_assoc]

/-- [R] PROPERTY (round trip over `ℝ`, side conditions in ordinary real arithmetic) -/
theorem populate_roundtrip_real (u : UParams ℝ) (lay : Layout) (names : List String)
    (hlen : names.length = 6) (hnd : names.Nodup)
    (hs : u.signs.length = 6) (hf : u.from_.length = 6) (ht : u.to.length = 6)
    (hr : ∀ s ∈ u.signs, -128 ≤ s ∧ s ≤ 127) (hdof : u.dof = 6)
    (h1 : lay.bOnJ3 = true → u.b ≠ 0 → u.c2 ≠ 0) (h2 : lay.bOnJ3 = false → u.b = 0)
    (h3 : lay.c3OnJ4 = true → u.a2 ≠ 0 ∧ u.c3 ≠ 0) :
    populate (jointsFor u lay names) names = some u := by
  refine populate_roundtrip_eq zeroLaws_real u lay names ⟨?_, ?_, ?_⟩ hlen hnd hs hf ht hr hdof
  · simpa [opwZero_real] using h1
  · simpa [opwZero_real] using h2
  · simpa [opwZero_real] using h3

/-- [R] PROPERTY (whole pipeline after collection): any declaration order, optionally with an
identical second copy, returns the parameters -/
theorem extraction_roundtrip_real (u : UParams ℝ) (lay : Layout) (names : List String)
    (hlen : names.length = 6) (hnd : names.Nodup)
    (hs : u.signs.length = 6) (hf : u.from_.length = 6) (ht : u.to.length = 6)
    (hr : ∀ s ∈ u.signs, -128 ≤ s ∧ s ≤ 127) (hdof : u.dof = 6)
    (h1 : lay.bOnJ3 = true → u.b ≠ 0 → u.c2 ≠ 0) (h2 : lay.bOnJ3 = false → u.b = 0)
    (h3 : lay.c3OnJ4 = true → u.a2 ≠ 0 ∧ u.c3 ≠ 0)
    {js : List (JointData ℝ)} (hp : js.Perm (jointsFor u lay names)) :
    fromJoints js names = .ok u ∧ fromJoints (js ++ js) names = .ok u := by
  have hd := jointsFor_distinct u lay names hlen hnd
  have hrt := populate_roundtrip_real u lay names hlen hnd hs hf ht hr hdof h1 h2 h3
  obtain ⟨m, hm⟩ := convertToMap_isSome (acc := []) (js := jointsFor u lay names) (by simp)
    hd.pairwise_compat
  have e0 : fromJoints (jointsFor u lay names) names = .ok u := by
    rw [fromJoints_eq_populate hm, hrt]
  have e1 : fromJoints js names = .ok u := by rw [(perm_independent hp hd names).2, e0]
  refine ⟨e1, ?_⟩
  rw [(second_copy_independent (hd.perm hp).pairwise_compat
    (fun j _ => (eqv_real j j).2 rfl) names).2, e1]

/-- [R] `fromUrdf` level: a document whose collected joints are the generated ones in any order -/
theorem fromUrdf_roundtrip_real (u : UParams ℝ) (lay : Layout) (names : List String)
    (hlen : names.length = 6) (hnd : names.Nodup)
    (hs : u.signs.length = 6) (hf : u.from_.length = 6) (ht : u.to.length = 6)
    (hr : ∀ s ∈ u.signs, -128 ≤ s ∧ s ≤ 127) (hdof : u.dof = 6)
    (h1 : lay.bOnJ3 = true → u.b ≠ 0 → u.c2 ≠ 0) (h2 : lay.bOnJ3 = false → u.b = 0)
    (h3 : lay.c3OnJ4 = true → u.a2 ≠ 0 ∧ u.c3 ≠ 0)
    {r : Xml ℝ} {js : List (JointData ℝ)} (hc : collectJoints true r = some js)
    (hp : js.Perm (jointsFor u lay names) ∨
          ∃ js0, js = js0 ++ js0 ∧ js0.Perm (jointsFor u lay names)) :
    fromUrdf (some r) (some names) = .ok u := by
  rw [fromUrdf_eq_fromJoints (names := some names) hc]
  rcases hp with hp | ⟨js0, rfl, hp⟩
  · exact (extraction_roundtrip_real u lay names hlen hnd hs hf ht hr hdof h1 h2 h3 hp).1
  · exact (extraction_roundtrip_real u lay names hlen hnd hs hf ht hr hdof h1 h2 h3 hp).2

/-- [R] over `ℝ` ANY two entries with the same name that differ make the map an error -/
theorem conflict_is_error_real {js : List (JointData ℝ)} {a b : JointData ℝ}
    (ha : a ∈ js) (hb : b ∈ js) (hn : a.name = b.name) (hne : a ≠ b) (names : List String) :
    convertToMap [] js = none ∧ fromJoints js names = .error .xml := by
  have h : convertToMap [] js = none := by
    cases hm : convertToMap [] js with
    | none => rfl
    | some m =>
      exact absurd (convertToMap_some_unique (fun a b => (eqv_real a b).1) hm ha hb hn) hne
  exact ⟨h, by simp only [fromJoints, h]⟩

/-! ### 7. a concrete instance -/

/-- parameters of a small industrial arm, lateral offset `b` on joint 3, `c3` on joint 5 -/
noncomputable def exampleParams : UParams ℝ :=
  ⟨25 / 1000, -35 / 1000, 1 / 100, 400 / 1000, 560 / 1000, 515 / 1000, 80 / 1000,
   [1, 1, -1, 1, -1, 1], [-3, -2, -1, -3, -2, -6], [3, 2, 1, 3, 2, 6], 6⟩

def exampleLayout : Layout := ⟨false, true, false, true, true⟩

example : populate (jointsFor exampleParams exampleLayout defaultNames) defaultNames
    = some exampleParams := by
  apply populate_roundtrip_real
  · rfl
  · decide
  · rfl
  · rfl
  · rfl
  · decide
  · rfl
  · intro _ _; show (560 / 1000 : ℝ) ≠ 0; norm_num
  · intro h; exact absurd h (by decide)
  · intro h; exact absurd h (by decide)

/-- the same parameters with `c2` along x and `c3` on joint 4 (along y) -/
example : populate (jointsFor exampleParams ⟨true, true, true, false, false⟩ defaultNames)
    defaultNames = some exampleParams := by
  apply populate_roundtrip_real
  · rfl
  · decide
  · rfl
  · rfl
  · rfl
  · decide
  · rfl
  · intro _ _; show (560 / 1000 : ℝ) ≠ 0; norm_num
  · intro h; exact absurd h (by decide)
  · intro _; constructor
    · show (-35 / 1000 : ℝ) ≠ 0; norm_num
    · show (515 / 1000 : ℝ) ≠ 0; norm_num

/-- the whole pipeline on the reversed declaration order followed by an identical second copy -/
example : fromJoints ((jointsFor exampleParams exampleLayout defaultNames).reverse ++
      (jointsFor exampleParams exampleLayout defaultNames).reverse) defaultNames
    = .ok exampleParams := by
  refine (extraction_roundtrip_real exampleParams exampleLayout defaultNames ?_ ?_ ?_ ?_ ?_ ?_ ?_
    ?_ ?_ ?_ (List.reverse_perm _)).2
  · rfl
  · decide
  · rfl
  · rfl
  · rfl
  · decide
  · rfl
  · intro _ _; show (560 / 1000 : ℝ) ≠ 0; norm_num
  · intro h; exact absurd h (by decide)
  · intro h; exact absurd h (by decide)

end Real
end Opw.C20
