/-
  C19 — Parameter YAML: any parameter set serialised by the library parses back to the same
  geometry, sign corrections and degrees of freedom, with offsets equal to the printed precision.
  Files in the documented format parse whether numbers are written as integers or reals, angles
  as plain radians or `deg(...)`, arrays with five or six entries, and the degrees-of-freedom entry
  where the documentation shows it; malformed files yield an error value, never a panic.

  Level: the parsed YAML tree (`Yaml R`, model in `OpwVerif/Yaml.lean`).  Text ↔ tree (yaml-rust2)
  and decimal text ↔ `f64` (Rust's float printer/parser) are libraries; they enter through the
  oracle values carried by scalar leaves and through the two leaf contracts of §1.
  Kind of every theorem here: [A] — for all trees, all leaf oracles, every number type `R`
  (`OpwNum R` has no laws and none are used).  Helper lemmas live in `Lemmas/YamlLemmas.lean`;
  from there: `HasKey y k v` (`v` sits under the FIRST entry of hash `y` whose key is the string
  `k`), `NoKey y k` (`y` is not a hash or has no such key), `All2` (pointwise list relation),
  `geoNum ofInt doc k = ((doc.get "opw_kinematics_geometric_parameters").get k).asNumber ofInt`,
  `signsOf doc = readSigns (doc.get "opw_kinematics_joint_sign_corrections")`,
  `offsOf ofInt doc = readOffsets ofInt (doc.get "opw_kinematics_joint_offsets")`,
  `dofOf doc` = the `i8` the reader extracts (top-level `dof`, else nested, else 6),
  `fieldNames = ["a1","a2","b","c1","c2","c3","c4"]`, `firstMissing num` = first of these with
  `num k = none`.
-/
import OpwVerif.Lemmas.YamlLemmas
namespace Opw.C19
open Opw Opw.YamlL
variable {R : Type} [OpwNum R]
set_option linter.unusedSectionVars false

/-! ### 1. Leaf contracts (the trusted text level) -/

/-- What the writer prints for a length `x` lexes to a node that the reader's `as_number` maps back
to `x`.  Both shapes the writer produces satisfy it: a real whose `as_f64` is `x`
(`lenLeaf_of_shapes`), or an integer `i` with `i as f64 = x`. -/
def LenLeaf (ofInt : Int → R) (leaf : R → Yaml R) : Prop :=
  ∀ x, (leaf x).asNumber ofInt = some x

/-- What the writer prints for an offset `x` lexes either to an integer `i` with `i as f64 = rd x`
(the writer prints `0` for a zero offset) or to a string `deg(d)` whose inside parses to `d` with
`d.to_radians() = rd x`; `rd x` is the offset at the printed precision. -/
def OffLeaf (ofInt : Int → R) (leaf : R → Yaml R) (rd : R → R) : Prop :=
  ∀ x, (∃ i, leaf x = .int i ∧ ofInt i = rd x) ∨
       (∃ t w d, leaf x = .str t w (some (some d)) ∧ toRadians d = rd x)

/-- the two shapes of a printed length satisfy the contract -/
theorem lenLeaf_of_shapes {ofInt : Int → R} {leaf : R → Yaml R}
    (h : ∀ x, (∃ t rp, leaf x = .real t (some x) rp) ∨ (∃ i, leaf x = .int i ∧ ofInt i = x)) :
    LenLeaf ofInt leaf := by
  intro x
  rcases h x with ⟨t, rp, hx⟩ | ⟨i, hx, hi⟩
  · rw [hx]; rfl
  · rw [hx]; simp [Yaml.asNumber, hi]

/-- under the offset contract the reader's per-item value is `rd x` -/
theorem offLeaf_entry {ofInt : Int → R} {leaf : R → Yaml R} {rd : R → R}
    (h : OffLeaf ofInt leaf rd) (x : R) : offEntry ofInt (leaf x) = .ok (rd x) := by
  rcases h x with ⟨i, hx, hi⟩ | ⟨t, w, d, hx, hd⟩
  · rw [hx]; simp [offEntry, hi]
  · rw [hx]; simp [offEntry, parseDegrees, hd]

/-! ### 2. Round trip -/

/-- `x as i8` is the identity on the `i8` range -/
theorem toI8_id {s : Int} (h1 : -128 ≤ s) (h2 : s ≤ 127) : toI8 s = s := YamlL.toI8_id h1 h2

theorem map_toI8_id {s : List Int} (h : ∀ x ∈ s, -128 ≤ x ∧ x ≤ 127) : s.map toI8 = s := by
  induction s with
  | nil => rfl
  | cons a s ih =>
    have ha := h a (by simp)
    rw [List.map_cons, toI8_id ha.1 ha.2, ih (fun x hx => h x (List.mem_cons_of_mem _ hx))]

/-- [A] MAIN: what `to_yaml` writes, `from_yaml_file` reads back — geometry, sign corrections and
dof exactly, offsets at the printed precision; for a 5-DOF robot joint 6's sign reads back as 0.
Hypotheses: the two leaf contracts; six sign corrections, each in the `i8` range (in particular
each in `{-1, 0, 1}`, see `yaml_roundtrip_unit_signs`); `dof` in the `i8` range. -/
theorem yaml_roundtrip {ofInt : Int → R} {leafLen leafOff : R → Yaml R} {rd : R → R}
    (hL : LenLeaf ofInt leafLen) (hO : OffLeaf ofInt leafOff rd)
    (p : Params R) (signs : List Int) (hlen : signs.length = 6)
    (hs : ∀ s ∈ signs, -128 ≤ s ∧ s ≤ 127) (hd1 : -128 ≤ p.dof) (hd2 : p.dof ≤ 127) :
    fromYamlDocs ofInt true [toYamlTree leafLen leafOff p signs] =
      .ok ⟨p.a1, p.a2, p.b, p.c1, p.c2, p.c3, p.c4, p.offsets.toList.map rd,
        if p.dof = 5 then signs.take 5 ++ [0] else signs, p.dof⟩ := by
  have hsig : signsOf (toYamlTree leafLen leafOff p signs) = .ok signs := by
    unfold signsOf
    rw [tree_signs, readSigns_arr_six (by simpa using hlen), signVals_ints, map_toI8_id hs]
  have hoff : offsOf ofInt (toYamlTree leafLen leafOff p signs) = .ok (p.offsets.toList.map rd) := by
    unfold offsOf
    rw [tree_offs, readOffsets_arr_of_go (go_map leafOff rd (offLeaf_entry hO) _)]
    simp [J6.toList]
  obtain ⟨g1, g2, g3, g4, g5, g6, g7⟩ := tree_geoNum ofInt leafLen leafOff p signs
  rw [hL] at g1 g2 g3 g4 g5 g6 g7
  rw [fromYamlDocs_ok [] hsig g1 g2 g3 g4 g5 g6 g7 hoff, tree_dof, toI8_id hd1 hd2]

/-- [A] the round trip for sign corrections in `{-1, 0, 1}` and `dof ∈ {5, 6}` -/
theorem yaml_roundtrip_unit_signs {ofInt : Int → R} {leafLen leafOff : R → Yaml R} {rd : R → R}
    (hL : LenLeaf ofInt leafLen) (hO : OffLeaf ofInt leafOff rd)
    (p : Params R) (signs : List Int) (hlen : signs.length = 6)
    (hs : ∀ s ∈ signs, s = -1 ∨ s = 0 ∨ s = 1) (hd : p.dof = 5 ∨ p.dof = 6) :
    fromYamlDocs ofInt true [toYamlTree leafLen leafOff p signs] =
      .ok ⟨p.a1, p.a2, p.b, p.c1, p.c2, p.c3, p.c4, p.offsets.toList.map rd,
        if p.dof = 5 then signs.take 5 ++ [0] else signs, p.dof⟩ :=
  yaml_roundtrip hL hO p signs hlen (fun s h => by have := hs s h; omega) (by omega) (by omega)

/-- [A] 6-DOF: everything comes back, the sign list unchanged -/
theorem yaml_roundtrip_6dof {ofInt : Int → R} {leafLen leafOff : R → Yaml R} {rd : R → R}
    (hL : LenLeaf ofInt leafLen) (hO : OffLeaf ofInt leafOff rd)
    (p : Params R) (signs : List Int) (hlen : signs.length = 6)
    (hs : ∀ s ∈ signs, s = -1 ∨ s = 0 ∨ s = 1) (hd : p.dof = 6) :
    fromYamlDocs ofInt true [toYamlTree leafLen leafOff p signs] =
      .ok ⟨p.a1, p.a2, p.b, p.c1, p.c2, p.c3, p.c4, p.offsets.toList.map rd, signs, 6⟩ := by
  rw [yaml_roundtrip_unit_signs hL hO p signs hlen hs (.inr hd), hd]; rfl

/-- [A] 5-DOF (repaired reader: top-level `dof` is honoured): dof reads back 5, joint 6's sign 0 -/
theorem yaml_roundtrip_5dof {ofInt : Int → R} {leafLen leafOff : R → Yaml R} {rd : R → R}
    (hL : LenLeaf ofInt leafLen) (hO : OffLeaf ofInt leafOff rd)
    (p : Params R) (signs : List Int) (hlen : signs.length = 6)
    (hs : ∀ s ∈ signs, s = -1 ∨ s = 0 ∨ s = 1) (hd : p.dof = 5) :
    fromYamlDocs ofInt true [toYamlTree leafLen leafOff p signs] =
      .ok ⟨p.a1, p.a2, p.b, p.c1, p.c2, p.c3, p.c4, p.offsets.toList.map rd,
        signs.take 5 ++ [0], 5⟩ := by
  rw [yaml_roundtrip_unit_signs hL hO p signs hlen hs (.inl hd), hd]; rfl

/-! ### 3. The documented format and its variations -/

/-- one entry of the offsets array and the value the reader takes from it: an integer, a real
(Rust's `str::parse::<f64>` of its text gives `v`), a string `deg(d)`, a plain numeric string -/
inductive OffEntry (ofInt : Int → R) : Yaml R → R → Prop
  | int (i : Int) : OffEntry ofInt (.int i) (ofInt i)
  | real (t : String) (a : Option R) (v : R) : OffEntry ofInt (.real t a (some v)) v
  | deg (t : String) (w : Option R) (d : R) : OffEntry ofInt (.str t w (some (some d))) (toRadians d)
  | plain (t : String) (v : R) : OffEntry ofInt (.str t (some v) none) v

/-- the offsets part: absent (six `0 as f64`), six entries, or five entries padded with `0.0` -/
inductive OffsetsSpec (ofInt : Int → R) (doc : Yaml R) : List R → Prop
  | absent : NoKey doc "opw_kinematics_joint_offsets" →
      OffsetsSpec ofInt doc (List.replicate 6 (ofInt 0))
  | six {items : List (Yaml R)} {vals : List R} :
      HasKey doc "opw_kinematics_joint_offsets" (.arr items) → All2 (OffEntry ofInt) items vals →
      items.length = 6 → OffsetsSpec ofInt doc vals
  | five {items : List (Yaml R)} {vals : List R} :
      HasKey doc "opw_kinematics_joint_offsets" (.arr items) → All2 (OffEntry ofInt) items vals →
      items.length = 5 → OffsetsSpec ofInt doc (vals ++ [0])

/-- the sign-corrections part (before the dof rule): absent (six ones), six integers, or five
integers padded with `0`; values pass through the `as i8` cast -/
inductive SignsSpec (doc : Yaml R) : List Int → Prop
  | absent : NoKey doc "opw_kinematics_joint_sign_corrections" → SignsSpec doc [1, 1, 1, 1, 1, 1]
  | six {s : List Int} :
      HasKey doc "opw_kinematics_joint_sign_corrections" (.arr (s.map (fun i => .int i))) →
      s.length = 6 → SignsSpec doc (s.map toI8)
  | five {s : List Int} :
      HasKey doc "opw_kinematics_joint_sign_corrections" (.arr (s.map (fun i => .int i))) →
      s.length = 5 → SignsSpec doc (s.map toI8 ++ [0])

/-- the dof entry: top level (wins), else inside the geometric-parameters hash, else 6 -/
inductive DofSpec (doc geo : Yaml R) : Int → Prop
  | top {d : Int} : HasKey doc "dof" (.int d) → DofSpec doc geo d
  | nested {d : Int} : NoKey doc "dof" → HasKey geo "dof" (.int d) → DofSpec doc geo d
  | absent : NoKey doc "dof" → NoKey geo "dof" → DofSpec doc geo 6

/-- field `k` of the geometric-parameters hash is a number (integer or real) with value `x` -/
def GeoField (ofInt : Int → R) (geo : Yaml R) (k : String) (x : R) : Prop :=
  ∃ n, HasKey geo k n ∧ n.asNumber ofInt = some x

/-- `doc` is a file in the documented format (any key order, other keys allowed, first occurrence
of a key counts) and `v` is what it denotes -/
def Documented (ofInt : Int → R) (doc : Yaml R) (v : YParams R) : Prop :=
  ∃ geo s0 d,
    HasKey doc "opw_kinematics_geometric_parameters" geo ∧
    GeoField ofInt geo "a1" v.a1 ∧ GeoField ofInt geo "a2" v.a2 ∧ GeoField ofInt geo "b" v.b ∧
    GeoField ofInt geo "c1" v.c1 ∧ GeoField ofInt geo "c2" v.c2 ∧ GeoField ofInt geo "c3" v.c3 ∧
    GeoField ofInt geo "c4" v.c4 ∧
    OffsetsSpec ofInt doc v.offsets ∧ SignsSpec doc s0 ∧ DofSpec doc geo d ∧
    v.dof = toI8 d ∧ v.signs = (if toI8 d = 5 then s0.take 5 ++ [0] else s0)

/-- integer and real spellings of a length are both numbers -/
theorem geoField_int {ofInt : Int → R} {geo : Yaml R} {k : String} {i : Int}
    (h : HasKey geo k (.int i)) : GeoField ofInt geo k (ofInt i) := ⟨_, h, rfl⟩

theorem geoField_real {ofInt : Int → R} {geo : Yaml R} {k : String} {t : String} {x : R}
    {rp : Option R} (h : HasKey geo k (.real t (some x) rp)) : GeoField ofInt geo k x :=
  ⟨_, h, rfl⟩

/-- [A] a documented length field is what the reader's `as_number` sees -/
theorem geometry_of_documented {ofInt : Int → R} {doc geo : Yaml R} {k : String} {x : R}
    (hg : HasKey doc "opw_kinematics_geometric_parameters" geo) (h : GeoField ofInt geo k x) :
    geoNum ofInt doc k = some x := by
  obtain ⟨n, hn, hx⟩ := h
  unfold geoNum geoOf
  rw [get_of_hasKey hg, get_of_hasKey hn, hx]

theorem offEntry_of_documented {ofInt : Int → R} {it : Yaml R} {x : R} (h : OffEntry ofInt it x) :
    offEntry ofInt it = .ok x := by
  cases h <;> simp [offEntry, parseDegrees]

/-- [A] offsets: absent ↦ six `ofInt 0`; six entries ↦ their values; five ↦ padded with `0` -/
theorem offsets_five_or_six {ofInt : Int → R} {doc : Yaml R} {offs : List R}
    (h : OffsetsSpec ofInt doc offs) : offsOf ofInt doc = .ok offs := by
  unfold offsOf
  cases h with
  | absent hn => rw [get_of_noKey hn]; exact readOffsets_default rfl
  | six hk ha hl =>
    rw [get_of_hasKey hk, readOffsets_arr_of_go (go_ok (ha.imp (fun _ _ => offEntry_of_documented)))]
    have : offs.length = 6 := by rw [← ha.length_eq, hl]
    simp [this]
  | five hk ha hl =>
    rename_i items vals
    rw [get_of_hasKey hk, readOffsets_arr_of_go (go_ok (ha.imp (fun _ _ => offEntry_of_documented)))]
    have : vals.length = 5 := by rw [← ha.length_eq, hl]
    simp [this]

/-- [A] sign corrections: absent ↦ six ones; six integers ↦ themselves (as `i8`); five ↦ padded -/
theorem signs_five_or_six {doc : Yaml R} {s0 : List Int} (h : SignsSpec doc s0) :
    signsOf doc = .ok s0 := by
  unfold signsOf
  cases h with
  | absent hn => rw [get_of_noKey hn]; exact readSigns_default rfl
  | six hk hl => rw [get_of_hasKey hk, readSigns_arr_six (by simpa using hl), signVals_ints]
  | five hk hl => rw [get_of_hasKey hk, readSigns_arr_five (by simpa using hl), signVals_ints]

/-- [A] dof: the top-level entry wins over the nested one; absent ↦ 6; then the `as i8` cast -/
theorem dof_lookup {doc geo : Yaml R} {d : Int}
    (hg : HasKey doc "opw_kinematics_geometric_parameters" geo) (h : DofSpec doc geo d) :
    dofOf doc = toI8 d := by
  unfold dofOf geoOf
  rw [get_of_hasKey hg]
  cases h with
  | top hk => rw [get_of_hasKey hk]; rfl
  | nested hn hk => rw [get_of_noKey hn, get_of_hasKey hk]; rfl
  | absent hn hn' => rw [get_of_noKey hn, get_of_noKey hn']; rfl

/-- [A] the top-level `dof` wins even when a different nested one is present -/
theorem dof_top_wins {doc : Yaml R} {d : Int} (h : HasKey doc "dof" (.int d)) :
    dofOf doc = toI8 d := by
  unfold dofOf
  rw [get_of_hasKey h]; rfl

/-- [A] every file in the documented format parses to what it denotes, whatever follows it in the
document stream -/
theorem variants_parse {ofInt : Int → R} {doc : Yaml R} {v : YParams R} (rest : List (Yaml R))
    (h : Documented ofInt doc v) : fromYamlDocs ofInt true (doc :: rest) = .ok v := by
  obtain ⟨geo, s0, d, hg, h1, h2, h3, h4, h5, h6, h7, ho, hs, hd, hvd, hvs⟩ := h
  rw [fromYamlDocs_ok rest (signs_five_or_six hs)
    (geometry_of_documented hg h1) (geometry_of_documented hg h2) (geometry_of_documented hg h3)
    (geometry_of_documented hg h4) (geometry_of_documented hg h5) (geometry_of_documented hg h6)
    (geometry_of_documented hg h7) (offsets_five_or_six ho), dof_lookup hg hd, ← hvs, ← hvd]

/-- [A] a hash with pairwise different keys: membership is enough for `HasKey` -/
theorem hasKey_of_unique {l : List (Yaml R × Yaml R)} {key v : Yaml R} {k : String}
    (hm : (key, v) ∈ l) (hk : key.isStr k = true)
    (hu : ∀ e ∈ l, e.1.isStr k = true → e.2 = v) : HasKey (Yaml.hash l) k v :=
  hasKey_of_mem_unique hm hk hu

/-! ### 4. Malformed input: an error value, never a panic

`fromYamlDocs` is a total function, so every input has a result; the theorems say which.
Precedence: lexer failure / empty stream; sign-array length; the seven fields in the order
a1, a2, b, c1, c2, c3, c4; the offsets array. -/

/-- [A] classification of every result: success (six offsets, six signs, dof an `i8`), `parse`,
`missing k` for one of the seven field names, or `invalidLength n` with `n ∉ {5, 6}` -/
theorem never_panics (ofInt : Int → R) (loaded : Bool) (docs : List (Yaml R)) :
    (∃ v, fromYamlDocs ofInt loaded docs = .ok v ∧ v.offsets.length = 6 ∧ v.signs.length = 6 ∧
        -128 ≤ v.dof ∧ v.dof ≤ 127) ∨
    fromYamlDocs ofInt loaded docs = .error .parse ∨
    (∃ k, k ∈ fieldNames ∧ fromYamlDocs ofInt loaded docs = .error (.missing k)) ∨
    (∃ n, n ≠ 5 ∧ n ≠ 6 ∧ fromYamlDocs ofInt loaded docs = .error (.invalidLength n)) := by
  cases loaded with
  | false => exact .inr (.inl (fromYamlDocs_not_loaded ofInt docs))
  | true =>
    cases docs with
    | nil => exact .inr (.inl (fromYamlDocs_nil ofInt true))
    | cons doc rest => exact fromYamlDocs_total ofInt doc rest

/-- [A] text the lexer rejects -/
theorem error_not_loaded (ofInt : Int → R) (docs : List (Yaml R)) :
    fromYamlDocs ofInt false docs = .error .parse := fromYamlDocs_not_loaded ofInt docs

/-- [A] empty or comments-only file (no document) -/
theorem error_no_document (ofInt : Int → R) :
    fromYamlDocs ofInt true [] = .error .parse := fromYamlDocs_nil ofInt true

/-- [A] a sign array whose length is not 5 or 6: first in precedence, whatever else is wrong -/
theorem error_signs_length {ofInt : Int → R} {doc : Yaml R} (rest : List (Yaml R))
    {l : List (Yaml R)} (ha : doc.get "opw_kinematics_joint_sign_corrections" = .arr l)
    (h5 : l.length ≠ 5) (h6 : l.length ≠ 6) :
    fromYamlDocs ofInt true (doc :: rest) = .error (.invalidLength l.length) :=
  fromYamlDocs_signs_err rest (by unfold signsOf; rw [ha]; exact readSigns_arr_bad h5 h6)

/-- [A] the sign reader has no other failure: it succeeds unless the node is an array of a wrong
length (non-integer entries count as 0) -/
theorem signs_ok_or_length (y : Yaml R) :
    (∃ s, readSigns y = .ok s ∧ s.length = 6) ∨
    (∃ l, y = .arr l ∧ l.length ≠ 5 ∧ l.length ≠ 6 ∧ readSigns y = .error (.invalidLength l.length)) := by
  cases y with
  | arr l =>
    by_cases h5 : l.length = 5
    · exact .inl ⟨_, readSigns_arr_five h5, by simp [signVals_length, h5]⟩
    · by_cases h6 : l.length = 6
      · exact .inl ⟨_, readSigns_arr_six h6, by simp [signVals_length, h6]⟩
      · exact .inr ⟨l, rfl, h5, h6, readSigns_arr_bad h5 h6⟩
  | _ => exact .inl ⟨_, readSigns_default rfl, rfl⟩

/-- [A] no usable `a1` (absent, or not an integer/real, or no geometric-parameters hash at all):
`MissingField("a1")`, provided the sign array is fine -/
theorem error_missing_a1 {ofInt : Int → R} {doc : Yaml R} (rest : List (Yaml R)) {s0 : List Int}
    (hs : signsOf doc = .ok s0) (h : geoNum ofInt doc "a1" = none) :
    fromYamlDocs ofInt true (doc :: rest) = .error (.missing "a1") := by
  rw [fromYamlDocs_signs_ok rest hs, h]

/-- [A] a document without the geometric-parameters hash reports `a1` -/
theorem error_no_geometry {ofInt : Int → R} {doc : Yaml R} (rest : List (Yaml R)) {s0 : List Int}
    (hs : signsOf doc = .ok s0) (h : NoKey doc "opw_kinematics_geometric_parameters") :
    fromYamlDocs ofInt true (doc :: rest) = .error (.missing "a1") := by
  refine error_missing_a1 rest hs ?_
  unfold geoNum geoOf
  rw [get_of_noKey h]; rfl

/-- [A] the first field (in the order a1, a2, b, c1, c2, c3, c4) that has no usable number is the
one reported -/
theorem error_missing_field {ofInt : Int → R} {doc : Yaml R} (rest : List (Yaml R))
    {s0 : List Int} {k : String} (hs : signsOf doc = .ok s0)
    (hk : firstMissing (geoNum ofInt doc) = some k) :
    fromYamlDocs ofInt true (doc :: rest) = .error (.missing k) :=
  fromYamlDocs_missing rest hs hk

/-- [A] instance: `a1`, `a2` fine, `b` unusable ↦ `MissingField("b")` -/
theorem error_missing_b {ofInt : Int → R} {doc : Yaml R} (rest : List (Yaml R)) {s0 : List Int}
    {a1 a2 : R} (hs : signsOf doc = .ok s0) (h1 : geoNum ofInt doc "a1" = some a1)
    (h2 : geoNum ofInt doc "a2" = some a2) (h3 : geoNum ofInt doc "b" = none) :
    fromYamlDocs ofInt true (doc :: rest) = .error (.missing "b") := by
  rw [fromYamlDocs_signs_ok rest hs, h1, h2, h3]

/-- [A] errors of the offsets array surface once signs and the seven fields are fine -/
theorem error_offsets {ofInt : Int → R} {doc : Yaml R} (rest : List (Yaml R)) {s0 : List Int}
    {e : YamlErr} (hs : signsOf doc = .ok s0) (hk : firstMissing (geoNum ofInt doc) = none)
    (ho : offsOf ofInt doc = .error e) :
    fromYamlDocs ofInt true (doc :: rest) = .error e :=
  fromYamlDocs_offs_err rest hs hk ho

/-- [A] offsets array of readable entries but wrong length -/
theorem error_offsets_length {ofInt : Int → R} {doc : Yaml R} (rest : List (Yaml R))
    {s0 : List Int} {items : List (Yaml R)} {vals : List R}
    (hs : signsOf doc = .ok s0) (hk : firstMissing (geoNum ofInt doc) = none)
    (ha : doc.get "opw_kinematics_joint_offsets" = .arr items)
    (hv : All2 (fun it x => offEntry ofInt it = .ok x) items vals)
    (h5 : items.length ≠ 5) (h6 : items.length ≠ 6) :
    fromYamlDocs ofInt true (doc :: rest) = .error (.invalidLength items.length) := by
  refine fromYamlDocs_offs_err rest hs hk ?_
  unfold offsOf
  rw [ha, readOffsets_arr_of_go (go_ok hv), ← hv.length_eq]
  simp [h5, h6]

/-- [A] the reader of the array alone: wrong length ↦ `invalidLength` -/
theorem readOffsets_length {ofInt : Int → R} {items : List (Yaml R)} {vals : List R}
    (hv : All2 (fun it x => offEntry ofInt it = .ok x) items vals)
    (h5 : items.length ≠ 5) (h6 : items.length ≠ 6) :
    readOffsets ofInt (.arr items) = .error (.invalidLength items.length) := by
  rw [readOffsets_arr_of_go (go_ok hv), ← hv.length_eq]
  simp [h5, h6]

/-- [A] `deg(` … `)` whose inside does not parse, anywhere in the array ↦ `ParseError`
(whatever the length of the array) -/
theorem readOffsets_bad_deg {ofInt : Int → R} {items : List (Yaml R)} {t : String} {w : Option R}
    (hm : (.str t w (some none) : Yaml R) ∈ items) :
    readOffsets ofInt (.arr items) = .error .parse :=
  readOffsets_arr_err (go_bad (e := .parse) hm (by simp [offEntry, parseDegrees]))

/-- [A] a non-numeric plain string, or a real whose text Rust's parser rejects ↦ `ParseError` -/
theorem readOffsets_bad_scalar {ofInt : Int → R} {items : List (Yaml R)} {t : String}
    (hm : (.str t none none : Yaml R) ∈ items ∨ ∃ a, (.real t a none : Yaml R) ∈ items) :
    readOffsets ofInt (.arr items) = .error .parse := by
  rcases hm with hm | ⟨a, hm⟩
  · exact readOffsets_arr_err (go_bad (e := .parse) hm (by simp [offEntry, parseDegrees]))
  · exact readOffsets_arr_err (go_bad (e := .parse) hm (by simp [offEntry]))

/-- [A] the same at file level -/
theorem error_bad_deg {ofInt : Int → R} {doc : Yaml R} (rest : List (Yaml R)) {s0 : List Int}
    {items : List (Yaml R)} {t : String} {w : Option R}
    (hs : signsOf doc = .ok s0) (hk : firstMissing (geoNum ofInt doc) = none)
    (ha : doc.get "opw_kinematics_joint_offsets" = .arr items)
    (hm : (.str t w (some none) : Yaml R) ∈ items) :
    fromYamlDocs ofInt true (doc :: rest) = .error .parse := by
  refine fromYamlDocs_offs_err rest hs hk ?_
  unfold offsOf
  rw [ha]; exact readOffsets_bad_deg hm

/-- [A] a document that is not a hash (scalar, list, null): `MissingField("a1")` -/
theorem error_not_a_hash {ofInt : Int → R} {doc : Yaml R} (rest : List (Yaml R))
    (h : ∀ l, doc ≠ .hash l) :
    fromYamlDocs ofInt true (doc :: rest) = .error (.missing "a1") := by
  have hn : ∀ k, NoKey doc k := fun k l hl => absurd hl (h l)
  refine error_no_geometry rest (s0 := [1, 1, 1, 1, 1, 1]) ?_ (hn _)
  unfold signsOf
  rw [get_of_noKey (hn _)]; exact readSigns_default rfl

/-! ### 5. Examples -/

example : toI8 300 = 44 := by decide
example : toI8 (-1) = -1 := by decide
example : toI8 127 = 127 := by decide
example : toI8 128 = -128 := by decide
example : toI8 5 = 5 := by decide

/-- key node as the lexer produces it for a plain key -/
abbrev key (s : String) : Yaml R := .str s none none

/-- the documented example, leaf values abstract:
```
opw_kinematics_geometric_parameters: {a1: 0.05, a2: -0.14, b: 0.0, c1: 0.485, c2: 0.82, c3: 0.78, c4: 0.09}
opw_kinematics_joint_offsets: [0.0, 0.0, deg(-90.0), 0.0, 0.0, deg(180.0)]
opw_kinematics_joint_sign_corrections: [1, 1, -1, -1, -1, -1]
dof: 6
``` -/
def exampleDoc (a1 a2 b c1 c2 c3 c4 z m90 p180 : R) : Yaml R :=
  .hash [
    (key "opw_kinematics_geometric_parameters", .hash [
      (key "a1", .real "0.05" (some a1) (some a1)), (key "a2", .real "-0.14" (some a2) (some a2)),
      (key "b", .real "0.0" (some b) (some b)), (key "c1", .real "0.485" (some c1) (some c1)),
      (key "c2", .real "0.82" (some c2) (some c2)), (key "c3", .real "0.78" (some c3) (some c3)),
      (key "c4", .real "0.09" (some c4) (some c4))]),
    (key "opw_kinematics_joint_offsets", .arr [
      .real "0.0" (some z) (some z), .real "0.0" (some z) (some z),
      .str "deg(-90.0)" none (some (some m90)),
      .real "0.0" (some z) (some z), .real "0.0" (some z) (some z),
      .str "deg(180.0)" none (some (some p180))]),
    (key "opw_kinematics_joint_sign_corrections",
      .arr [.int 1, .int 1, .int (-1), .int (-1), .int (-1), .int (-1)]),
    (key "dof", .int 6)]

example (ofInt : Int → R) (a1 a2 b c1 c2 c3 c4 z m90 p180 : R) :
    fromYamlDocs ofInt true [exampleDoc a1 a2 b c1 c2 c3 c4 z m90 p180] =
      .ok ⟨a1, a2, b, c1, c2, c3, c4, [z, z, toRadians m90, z, z, toRadians p180],
        [1, 1, -1, -1, -1, -1], 6⟩ := by
  have hs : signsOf (exampleDoc a1 a2 b c1 c2 c3 c4 z m90 p180) = .ok [1, 1, -1, -1, -1, -1] := by
    simp [signsOf, exampleDoc, Yaml.get, Yaml.isStr, readSigns_arr, signVals, Yaml.asI64]
    decide
  have ho : offsOf ofInt (exampleDoc a1 a2 b c1 c2 c3 c4 z m90 p180) =
      .ok [z, z, toRadians m90, z, z, toRadians p180] := by
    simp [offsOf, exampleDoc, Yaml.get, Yaml.isStr, readOffsets, Yaml.asVec, go_cons, go_nil,
      offEntry, parseDegrees]
  have hd : dofOf (exampleDoc a1 a2 b c1 c2 c3 c4 z m90 p180) = 6 := by
    simp [dofOf, exampleDoc, Yaml.get, Yaml.isStr, Yaml.asI64]; decide
  rw [fromYamlDocs_ok (ofInt := ofInt) [] hs (a1 := a1) (a2 := a2) (b := b) (c1 := c1) (c2 := c2)
    (c3 := c3) (c4 := c4)
    (by simp [geoNum, geoOf, exampleDoc, Yaml.get, Yaml.isStr, Yaml.asNumber])
    (by simp [geoNum, geoOf, exampleDoc, Yaml.get, Yaml.isStr, Yaml.asNumber])
    (by simp [geoNum, geoOf, exampleDoc, Yaml.get, Yaml.isStr, Yaml.asNumber])
    (by simp [geoNum, geoOf, exampleDoc, Yaml.get, Yaml.isStr, Yaml.asNumber])
    (by simp [geoNum, geoOf, exampleDoc, Yaml.get, Yaml.isStr, Yaml.asNumber])
    (by simp [geoNum, geoOf, exampleDoc, Yaml.get, Yaml.isStr, Yaml.asNumber])
    (by simp [geoNum, geoOf, exampleDoc, Yaml.get, Yaml.isStr, Yaml.asNumber]) ho, hd]
  rfl

/-- the documented example is `Documented` (the predicate is inhabited), so `variants_parse` applies -/
example (ofInt : Int → R) (a1 a2 b c1 c2 c3 c4 z m90 p180 : R) :
    Documented ofInt (exampleDoc a1 a2 b c1 c2 c3 c4 z m90 p180)
      ⟨a1, a2, b, c1, c2, c3, c4, [z, z, toRadians m90, z, z, toRadians p180],
        [1, 1, -1, -1, -1, -1], 6⟩ := by
  refine ⟨_, [1, 1, -1, -1, -1, -1], 6, ⟨[], _, _, rfl, rfl, by simp⟩,
    ⟨_, ⟨[], _, _, rfl, rfl, by simp⟩, rfl⟩,
    ⟨_, ⟨[_], _, _, rfl, rfl, by simp [Yaml.isStr]⟩, rfl⟩,
    ⟨_, ⟨[_, _], _, _, rfl, rfl, by simp [Yaml.isStr]⟩, rfl⟩,
    ⟨_, ⟨[_, _, _], _, _, rfl, rfl, by simp [Yaml.isStr]⟩, rfl⟩,
    ⟨_, ⟨[_, _, _, _], _, _, rfl, rfl, by simp [Yaml.isStr]⟩, rfl⟩,
    ⟨_, ⟨[_, _, _, _, _], _, _, rfl, rfl, by simp [Yaml.isStr]⟩, rfl⟩,
    ⟨_, ⟨[_, _, _, _, _, _], _, _, rfl, rfl, by simp [Yaml.isStr]⟩, rfl⟩,
    ?_, ?_, ?_, by simp [show toI8 6 = 6 by decide], by simp [show toI8 6 = 6 by decide]⟩
  · exact .six ⟨[_], _, _, rfl, rfl, by simp [Yaml.isStr]⟩
      (.cons (.real _ _ _) (.cons (.real _ _ _) (.cons (.deg _ _ _) (.cons (.real _ _ _)
        (.cons (.real _ _ _) (.cons (.deg _ _ _) .nil)))))) rfl
  · exact SignsSpec.six (s := [1, 1, -1, -1, -1, -1]) ⟨[_, _], _, _, rfl, rfl, by simp [Yaml.isStr]⟩ rfl
  · exact .top ⟨[_, _, _], _, _, rfl, rfl, by simp [Yaml.isStr]⟩

/-- hence it parses, also when further documents follow in the stream -/
example (ofInt : Int → R) (a1 a2 b c1 c2 c3 c4 z m90 p180 : R) (rest : List (Yaml R))
    (h : Documented ofInt (exampleDoc a1 a2 b c1 c2 c3 c4 z m90 p180)
      ⟨a1, a2, b, c1, c2, c3, c4, [z, z, toRadians m90, z, z, toRadians p180],
        [1, 1, -1, -1, -1, -1], 6⟩) :
    fromYamlDocs ofInt true (exampleDoc a1 a2 b c1 c2 c3 c4 z m90 p180 :: rest) =
      .ok ⟨a1, a2, b, c1, c2, c3, c4, [z, z, toRadians m90, z, z, toRadians p180],
        [1, 1, -1, -1, -1, -1], 6⟩ := variants_parse rest h

/-- a 5-DOF file written the other way: integer lengths, five-entry arrays, `dof: 5` on top and a
stale `dof: 6` nested (the top one wins), keys in another order -/
def exampleDoc5 (z : R) : Yaml R :=
  .hash [
    (key "dof", .int 5),
    (key "opw_kinematics_joint_sign_corrections", .arr [.int 1, .int (-1), .int 1, .int 1, .int 1]),
    (key "opw_kinematics_joint_offsets", .arr [
      .int 0, .str "1.5" (some z) none, .int 0, .int 0, .int 0]),
    (key "opw_kinematics_geometric_parameters", .hash [
      (key "dof", .int 6), (key "c4", .int 90), (key "c3", .int 780), (key "c2", .int 820),
      (key "c1", .int 485), (key "b", .int 0), (key "a2", .int (-140)), (key "a1", .int 50)])]

example (ofInt : Int → R) (z : R) :
    fromYamlDocs ofInt true [exampleDoc5 z] =
      .ok ⟨ofInt 50, ofInt (-140), ofInt 0, ofInt 485, ofInt 820, ofInt 780, ofInt 90,
        [ofInt 0, z, ofInt 0, ofInt 0, ofInt 0, 0], [1, -1, 1, 1, 1, 0], 5⟩ := by
  have hs : signsOf (exampleDoc5 z) = .ok [1, -1, 1, 1, 1, 0] := by
    simp [signsOf, exampleDoc5, Yaml.get, Yaml.isStr, readSigns_arr, signVals, Yaml.asI64]
    decide
  have ho : offsOf ofInt (exampleDoc5 z) = .ok [ofInt 0, z, ofInt 0, ofInt 0, ofInt 0, 0] := by
    simp [offsOf, exampleDoc5, Yaml.get, Yaml.isStr, readOffsets, Yaml.asVec, go_cons, go_nil,
      offEntry, parseDegrees]
  have hd : dofOf (exampleDoc5 z) = 5 := by
    simp [dofOf, exampleDoc5, Yaml.get, Yaml.isStr, Yaml.asI64]; decide
  rw [fromYamlDocs_ok (ofInt := ofInt) [] hs (a1 := ofInt 50) (a2 := ofInt (-140)) (b := ofInt 0)
    (c1 := ofInt 485) (c2 := ofInt 820) (c3 := ofInt 780) (c4 := ofInt 90)
    (by simp [geoNum, geoOf, exampleDoc5, Yaml.get, Yaml.isStr, Yaml.asNumber])
    (by simp [geoNum, geoOf, exampleDoc5, Yaml.get, Yaml.isStr, Yaml.asNumber])
    (by simp [geoNum, geoOf, exampleDoc5, Yaml.get, Yaml.isStr, Yaml.asNumber])
    (by simp [geoNum, geoOf, exampleDoc5, Yaml.get, Yaml.isStr, Yaml.asNumber])
    (by simp [geoNum, geoOf, exampleDoc5, Yaml.get, Yaml.isStr, Yaml.asNumber])
    (by simp [geoNum, geoOf, exampleDoc5, Yaml.get, Yaml.isStr, Yaml.asNumber])
    (by simp [geoNum, geoOf, exampleDoc5, Yaml.get, Yaml.isStr, Yaml.asNumber]) ho, hd]
  rfl

/-- a four-entry sign array is an error value -/
example (ofInt : Int → R) (g : Yaml R) :
    fromYamlDocs ofInt true
      [.hash [(key "opw_kinematics_geometric_parameters", g),
        (key "opw_kinematics_joint_sign_corrections", .arr [.int 1, .int 1, .int 1, .int 1])]] =
      .error (.invalidLength 4) := by
  refine error_signs_length (l := [.int 1, .int 1, .int 1, .int 1]) [] ?_ (by simp) (by simp)
  simp [Yaml.get, Yaml.isStr]

/-- scalar, list and null documents are error values -/
example (ofInt : Int → R) (i : Int) :
    fromYamlDocs ofInt true [.int i] = .error (.missing "a1") :=
  error_not_a_hash [] (fun l h => by cases h)

example (ofInt : Int → R) (l : List (Yaml R)) :
    fromYamlDocs ofInt true [.arr l] = .error (.missing "a1") :=
  error_not_a_hash [] (fun l h => by cases h)

example (ofInt : Int → R) :
    fromYamlDocs ofInt true [.other] = .error (.missing "a1") :=
  error_not_a_hash [] (fun l h => by cases h)

end Opw.C19
