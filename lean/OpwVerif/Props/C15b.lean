/-
  C15b — Jacobian, geometric clause, ALL six joints (C15 treats joint 1 as the representative):
  "the Jacobian agrees column by column with the geometric one built from the joint axes and origins of
  the independent link model (axis × lever arm, axis) to within the differencing step."

  Notation (0-based joint index `i < 6`, the index used by `jacobianColumn`/`computeJacobian`; all in
  `Lemmas/JacCols.lean`), with `θ = thetaOf p j`:
   * `preRot θ i`    — `Aᵢ`: product of the elementary rotations before joint `i` (`1, rot1, …, rot5`);
   * `linkOrg p θ i` — `oᵢ`: origin of link `i` (`org1 … org6`), a point on the joint's axis;
   * `localAxis i`   — `eᵢ`: `ẑ` for joints 1, 4, 6 (indices 0, 3, 5), `ŷ` for joints 2, 3, 5;
   * `worldAxis θ i = Aᵢ eᵢ` — `aᵢ`: the joint axis in the world frame (a unit vector);
   * `jointRot θ i φ = Aᵢ R_{eᵢ}(φ) Aᵢᵀ` — `Eᵢ(φ)`: the rotation by `φ` about `aᵢ`;
   * `sᵢ = p.signs.get i`.
  What is proved here, for every joint `i < 6` (nothing is left partial):
   * [R] θ-space: adding `ε` to θᵢ multiplies the tool rotation by `Eᵢ(ε)` on the left and rotates the
     tool origin about `oᵢ`: `org6' = oᵢ + Eᵢ(ε)(org6 − oᵢ)` (`perturb_joint`);
   * [R] the same for `forward` with any sign/offset convention, angle `ε sᵢ`; the relative rotation
     `q(j + ε eᵢ) q(j)⁻¹` is a unit quaternion with matrix `Eᵢ(ε sᵢ)` (`forward_perturb_joint`);
   * [R] linear part of column `i` = `((Eᵢ(ε sᵢ) − 1)(t − oᵢ))/ε` (`jacobian_column_linear_all`), and it
     converges to `sᵢ · aᵢ × (t − oᵢ)` as `ε → 0` (`jacobian_column_tendsto`);
   * [R] angular part of column `i` = `sᵢ · aᵢ` EXACTLY for `ε ≠ 0`, `|ε sᵢ| < π`
     (`jacobian_column_angular_all`);
   * [R] assembled against the link poses of `chain p j` (`forward_with_joint_poses`): axis = rotation of
     link `i` applied to `eᵢ`, origin = translation of link `i` (`jacobian_column_geometric_limit`);
   * [R] quantitative form ("to within the differencing step"): Rodrigues' formula for `Eᵢ(φ)`, and each
     component of the linear part is within `|ε| (sᵢ²/2 + |ε||sᵢ|³/6) ‖t − oᵢ‖` of the geometric column for
     every `ε ≠ 0` (`jacobian_column_linear_error`); for `sᵢ = ±1`, `0 < |ε| ≤ 1` within `|ε| ‖t − oᵢ‖`, with
     the angular part exact (`jacobian_column_geometric_within_step`).
  Property theorems only; helper lemmas live in `Lemmas/JacCols.lean`.
-/
import OpwVerif.Lemmas.JacCols
namespace Opw.C15b
open Opw Opw.Limits Opw.MiscReal Opw.JacCols

attribute [-simp] Opw.ofNatLit_real

/-! ### 0. The geometric data, written out -/

/-- [R] the frames before the joints: `A₁ = 1, A₂ = rot1, …, A₆ = rot5` -/
theorem preRot_table (q : J6 ℝ) :
    preRot q 0 = M3.one ∧ preRot q 1 = rot1 q ∧ preRot q 2 = rot2 q ∧ preRot q 3 = rot3 q ∧
    preRot q 4 = rot4 q ∧ preRot q 5 = rot5 q := ⟨rfl, rfl, rfl, rfl, rfl, rfl⟩

/-- [R] the origins: `o₁ = org1, …, o₆ = org6` -/
theorem linkOrg_table (p : Params ℝ) (q : J6 ℝ) :
    linkOrg p q 0 = org1 p q ∧ linkOrg p q 1 = org2 p q ∧ linkOrg p q 2 = org3 p q ∧
    linkOrg p q 3 = org4 p q ∧ linkOrg p q 4 = org5 p q ∧ linkOrg p q 5 = org6 p q :=
  ⟨rfl, rfl, rfl, rfl, rfl, rfl⟩

/-- [R] the local joint axes (`ẑ` for joints 1, 4, 6; `ŷ` for joints 2, 3, 5) and the signs `sᵢ` -/
theorem localAxis_table (p : Params ℝ) :
    (localAxis 0 = ⟨0, 0, 1⟩ ∧ localAxis 1 = ⟨0, 1, 0⟩ ∧ localAxis 2 = ⟨0, 1, 0⟩ ∧
     localAxis 3 = ⟨0, 0, 1⟩ ∧ localAxis 4 = ⟨0, 1, 0⟩ ∧ localAxis 5 = ⟨0, 0, 1⟩) ∧
    (p.signs.get 0 = p.signs.j1 ∧ p.signs.get 1 = p.signs.j2 ∧ p.signs.get 2 = p.signs.j3 ∧
     p.signs.get 3 = p.signs.j4 ∧ p.signs.get 4 = p.signs.j5 ∧ p.signs.get 5 = p.signs.j6) :=
  ⟨⟨rfl, rfl, rfl, rfl, rfl, rfl⟩, ⟨rfl, rfl, rfl, rfl, rfl, rfl⟩⟩

/-- [R] the world axes: `a₁ = ẑ, a₂ = rot1 ŷ, a₃ = rot2 ŷ, a₄ = rot3 ẑ, a₅ = rot4 ŷ, a₆ = rot5 ẑ` -/
theorem worldAxis_table (q : J6 ℝ) :
    worldAxis q 0 = ⟨0, 0, 1⟩ ∧ worldAxis q 1 = (rot1 q).mulVec ⟨0, 1, 0⟩ ∧
    worldAxis q 2 = (rot2 q).mulVec ⟨0, 1, 0⟩ ∧ worldAxis q 3 = (rot3 q).mulVec ⟨0, 0, 1⟩ ∧
    worldAxis q 4 = (rot4 q).mulVec ⟨0, 1, 0⟩ ∧ worldAxis q 5 = (rot5 q).mulVec ⟨0, 0, 1⟩ :=
  ⟨M3.one_mulVec _, rfl, rfl, rfl, rfl, rfl⟩

/-- [R] the rotations about the world axes: `E₁(φ) = Rz(φ)`, `E₂(φ) = rot1 Ry(φ) rot1ᵀ`, … -/
theorem jointRot_table (q : J6 ℝ) (φ : ℝ) :
    jointRot q 0 φ = M3.rz (Real.sin φ) (Real.cos φ) ∧
    jointRot q 1 φ = ((rot1 q).mul (M3.ry (Real.sin φ) (Real.cos φ))).mul (rot1 q).transpose ∧
    jointRot q 2 φ = ((rot2 q).mul (M3.ry (Real.sin φ) (Real.cos φ))).mul (rot2 q).transpose ∧
    jointRot q 3 φ = ((rot3 q).mul (M3.rz (Real.sin φ) (Real.cos φ))).mul (rot3 q).transpose ∧
    jointRot q 4 φ = ((rot4 q).mul (M3.ry (Real.sin φ) (Real.cos φ))).mul (rot4 q).transpose ∧
    jointRot q 5 φ = ((rot5 q).mul (M3.rz (Real.sin φ) (Real.cos φ))).mul (rot5 q).transpose :=
  ⟨conj_one_left _, rfl, rfl, rfl, rfl, rfl⟩

/-- [R] `Eᵢ(φ)` is a rotation matrix, `Eᵢ(0) = 1`, it fixes the axis `aᵢ`, and `aᵢ` is a unit vector -/
theorem jointRot_is_rotation_about_axis (q : J6 ℝ) (i : Nat) (φ : ℝ) :
    IsRot (jointRot q i φ) ∧ jointRot q i 0 = M3.one ∧
    (jointRot q i φ).mulVec (worldAxis q i) = worldAxis q i ∧ (worldAxis q i).normSq = 1 := by
  refine ⟨IsRot_jointRot q i φ, jointRot_zero q i, ?_, worldAxis_normSq q i⟩
  unfold jointRot JacCols.conj worldAxis
  rw [M3.mulVec_mulVec, ← M3.mulVec_mulVec (preRot q i).transpose, (IsRot_preRot q i).tm,
    M3.one_mulVec, M3.mulVec_mulVec, localRot_mulVec_axis]

/-! ### 1. Perturbing joint `i` is a rotation about the joint's world axis -/

/-- [R] θ-space, every joint: adding `ε` to θᵢ multiplies the tool rotation by `Eᵢ(ε)` on the left and
rotates the tool origin by `Eᵢ(ε)` about the link origin `oᵢ` -/
theorem perturb_joint (p : Params ℝ) (q : J6 ℝ) (i : Nat) (hi : i < 6) (e : ℝ) :
    rot6 (q.set i (q.get i + e)) = (jointRot q i e).mul (rot6 q) ∧
    org6 p (q.set i (q.get i + e)) =
      (linkOrg p q i).add ((jointRot q i e).mulVec ((org6 p q).sub (linkOrg p q i))) ∧
    forwardTheta p (q.set i (q.get i + e)) =
      ((jointRot q i e).mul (forwardTheta p q).1,
       (linkOrg p q i).add ((jointRot q i e).mulVec ((forwardTheta p q).2.sub (linkOrg p q i)))) := by
  have h := moved_tool p q hi e
  refine ⟨h.rot, h.org, ?_⟩
  ext
  · rw [forwardTheta_rot, forwardTheta_rot]; exact h.rot
  · rw [forwardTheta_tr, forwardTheta_tr]; exact h.org

/-- [R] `forward`, every joint, any sign/offset convention: adding `ε` to joint `i` rotates the tool
position about `oᵢ` by `Eᵢ(ε sᵢ)`, multiplies the rotation matrix by `Eᵢ(ε sᵢ)` on the left, and the
relative rotation `q(j + ε eᵢ) · q(j)⁻¹` used for the angular part of column `i` is a unit quaternion
with rotation matrix exactly `Eᵢ(ε sᵢ)` -/
theorem forward_perturb_joint (p : Params ℝ) (j : J6 ℝ) (i : Nat) (hi : i < 6) (e : ℝ) :
    (forward p (j.set i (j.get i + e))).t =
      (linkOrg p (thetaOf p j) i).add ((jointRot (thetaOf p j) i (e * p.signs.get i)).mulVec
        ((forward p j).t.sub (linkOrg p (thetaOf p j) i))) ∧
    (forward p (j.set i (j.get i + e))).q.toMat =
      (jointRot (thetaOf p j) i (e * p.signs.get i)).mul (forward p j).q.toMat ∧
    ((forward p (j.set i (j.get i + e))).q.mul (forward p j).q.conj).toMat =
      jointRot (thetaOf p j) i (e * p.signs.get i) ∧
    ((forward p (j.set i (j.get i + e))).q.mul (forward p j).q.conj).normSq = 1 :=
  forward_perturb p j hi e

/-! ### 2. Linear part of column `i` -/

/-- [R] the linear part of column `i` of the numeric Jacobian of `forward`:
`((Eᵢ(ε sᵢ) − 1)(t − oᵢ)) / ε` -/
theorem jacobian_column_linear_all (p : Params ℝ) (j : J6 ℝ) (i : Nat) (hi : i < 6) (e : ℝ) :
    (jacobianColumn (forward p) j e i).lin =
      (((jointRot (thetaOf p j) i (e * p.signs.get i)).mulVec
          ((forward p j).t.sub (linkOrg p (thetaOf p j) i))).sub
        ((forward p j).t.sub (linkOrg p (thetaOf p j) i))).divs e :=
  jacobianColumn_lin p j hi e

/-- [R] the geometric column of a revolute joint about the unit axis `aᵢ` through `oᵢ` is `aᵢ × (t − oᵢ)`:
it is the derivative at `0` of `φ ↦ Eᵢ(φ) v`, componentwise (every joint, every vector `v`) -/
theorem jointRot_hasDerivAt (q : J6 ℝ) (i : Nat) (v : V3 ℝ) :
    HasDerivAt (fun e : ℝ => ((jointRot q i e).mulVec v).x) ((worldAxis q i).cross v).x 0 ∧
    HasDerivAt (fun e : ℝ => ((jointRot q i e).mulVec v).y) ((worldAxis q i).cross v).y 0 ∧
    HasDerivAt (fun e : ℝ => ((jointRot q i e).mulVec v).z) ((worldAxis q i).cross v).z 0 :=
  jointRot_hasDerivAtV q i v

/-- [R] hence the linear part of the numeric column `i` converges to the geometric column
`sᵢ · aᵢ × (t − oᵢ)` as the step `ε → 0`, `ε ≠ 0` (componentwise; `t` the current tool position) -/
theorem jacobian_column_tendsto (p : Params ℝ) (j : J6 ℝ) (i : Nat) (hi : i < 6) :
    Filter.Tendsto (fun e : ℝ => (jacobianColumn (forward p) j e i).lin.x) (nhdsWithin 0 {0}ᶜ)
      (nhds (((worldAxis (thetaOf p j) i).cross
        ((forward p j).t.sub (linkOrg p (thetaOf p j) i))).scale (p.signs.get i)).x) ∧
    Filter.Tendsto (fun e : ℝ => (jacobianColumn (forward p) j e i).lin.y) (nhdsWithin 0 {0}ᶜ)
      (nhds (((worldAxis (thetaOf p j) i).cross
        ((forward p j).t.sub (linkOrg p (thetaOf p j) i))).scale (p.signs.get i)).y) ∧
    Filter.Tendsto (fun e : ℝ => (jacobianColumn (forward p) j e i).lin.z) (nhdsWithin 0 {0}ᶜ)
      (nhds (((worldAxis (thetaOf p j) i).cross
        ((forward p j).t.sub (linkOrg p (thetaOf p j) i))).scale (p.signs.get i)).z) := by
  have h := jointRot_slope_tendsto (thetaOf p j) i
    ((forward p j).t.sub (linkOrg p (thetaOf p j) i)) (p.signs.get i)
  simp only [← jacobianColumn_lin p j hi] at h
  exact h

/-! ### 3. Angular part of column `i` -/

/-- [R] the angular part of column `i` of the numeric Jacobian of `forward` is exactly `sᵢ · aᵢ`, the
geometric axis of joint `i`, for every step with `ε ≠ 0`, `|ε sᵢ| < π` (no limit needed: the relative
rotation is exactly the rotation about `aᵢ` by `ε sᵢ`, whose scaled axis is `ε sᵢ · aᵢ`) -/
theorem jacobian_column_angular_all (p : Params ℝ) (j : J6 ℝ) (i : Nat) (hi : i < 6) (e : ℝ)
    (he : e ≠ 0) (hs : |e * p.signs.get i| < Real.pi) :
    (jacobianColumn (forward p) j e i).ang =
      (worldAxis (thetaOf p j) i).scale (p.signs.get i) :=
  jacobianColumn_ang p j hi e he hs

/-! ### 4. Assembly against the independent link model -/

/-- [R] the link poses of `chain p j` (`forward_with_joint_poses`) carry the geometric data: link `i`
is a unit quaternion + translation with translation `oᵢ` and with rotation taking the joint's local
axis `eᵢ` to the world axis `aᵢ` (the joint's own rotation fixes its axis) -/
theorem chain_link_axis_origin (p : Params ℝ) (j : J6 ℝ) (i : Nat) (hi : i < 6) :
    ∃ l : Iso ℝ, (chain p j)[i]? = some l ∧ l.q.normSq = 1 ∧
      l.t = linkOrg p (thetaOf p j) i ∧
      l.q.rotate (localAxis i) = worldAxis (thetaOf p j) i ∧
      l.q.toMat.mulVec (localAxis i) = worldAxis (thetaOf p j) i := by
  obtain ⟨l, hl, h⟩ := chain_link p j hi
  refine ⟨l, hl, h.unit, h.org, JacCols.LinkIs.rotate_axis hi h, ?_⟩
  rw [h.rot, linkRot_mulVec_axis _ hi]

/-- [R] C15, geometric clause, every joint `i < 6`.  Let `l` be link `i` of `chain p j`, `a = l.q · eᵢ`
its joint axis in the world frame, `o = l.t` its origin, `t` the tool position, `s = signᵢ`.  Then `a` is
a unit vector, column `i` of `compute_jacobian` is `jacobianColumn … i`, its linear part converges
(componentwise, `ε → 0`, `ε ≠ 0`) to `s · a × (t − o)` (axis × lever arm), and its angular part equals
`s · a` (axis) exactly for every step with `ε ≠ 0`, `|ε s| < π`. -/
theorem jacobian_column_geometric_limit (p : Params ℝ) (j : J6 ℝ) (i : Nat) (hi : i < 6) :
    ∃ l : Iso ℝ, (chain p j)[i]? = some l ∧
      (l.q.rotate (localAxis i)).normSq = 1 ∧
      (∀ e : ℝ, (computeJacobian (forward p) j e)[i]? = some (jacobianColumn (forward p) j e i)) ∧
      Filter.Tendsto (fun e : ℝ => (jacobianColumn (forward p) j e i).lin.x) (nhdsWithin 0 {0}ᶜ)
        (nhds (((l.q.rotate (localAxis i)).cross ((forward p j).t.sub l.t)).scale (p.signs.get i)).x) ∧
      Filter.Tendsto (fun e : ℝ => (jacobianColumn (forward p) j e i).lin.y) (nhdsWithin 0 {0}ᶜ)
        (nhds (((l.q.rotate (localAxis i)).cross ((forward p j).t.sub l.t)).scale (p.signs.get i)).y) ∧
      Filter.Tendsto (fun e : ℝ => (jacobianColumn (forward p) j e i).lin.z) (nhdsWithin 0 {0}ᶜ)
        (nhds (((l.q.rotate (localAxis i)).cross ((forward p j).t.sub l.t)).scale (p.signs.get i)).z) ∧
      ∀ e : ℝ, e ≠ 0 → |e * p.signs.get i| < Real.pi →
        (jacobianColumn (forward p) j e i).ang = (l.q.rotate (localAxis i)).scale (p.signs.get i) := by
  obtain ⟨l, hl, -, ho, ha, -⟩ := chain_link_axis_origin p j i hi
  obtain ⟨hx, hy, hz⟩ := jacobian_column_tendsto p j i hi
  refine ⟨l, hl, ?_, fun e => (C15.computeJacobian_columns (forward p) j e).2 i hi, ?_, ?_, ?_, ?_⟩
  · rw [ha]; exact worldAxis_normSq _ _
  · rw [ha, ho]; exact hx
  · rw [ha, ho]; exact hy
  · rw [ha, ho]; exact hz
  · intro e he hs
    rw [ha]; exact jacobian_column_angular_all p j i hi e he hs

/-! ### 5. "To within the differencing step": the size of the finite-difference error -/

/-- [R] Rodrigues' formula for the rotation about the world axis of joint `i`:
`Eᵢ(φ) v = v + sin φ · aᵢ × v + (1 − cos φ) · aᵢ × (aᵢ × v)` -/
theorem jointRot_rodrigues_formula (q : J6 ℝ) (i : Nat) (φ : ℝ) (v : V3 ℝ) :
    (jointRot q i φ).mulVec v =
      (v.add (((worldAxis q i).cross v).scale (Real.sin φ))).add
        (((worldAxis q i).cross ((worldAxis q i).cross v)).scale (1 - Real.cos φ)) :=
  jointRot_rodrigues q i φ v

/-- [R] every joint, every step `ε ≠ 0`, any sign: each component of the linear part of column `i`
differs from the geometric column `sᵢ · aᵢ × (t − oᵢ)` by at most
`|ε| (sᵢ²/2 + |ε| |sᵢ|³/6) ‖t − oᵢ‖` -/
theorem jacobian_column_linear_error (p : Params ℝ) (j : J6 ℝ) (i : Nat) (hi : i < 6) (e : ℝ)
    (he : e ≠ 0) :
    |(jacobianColumn (forward p) j e i).lin.x - (((worldAxis (thetaOf p j) i).cross
        ((forward p j).t.sub (linkOrg p (thetaOf p j) i))).scale (p.signs.get i)).x| ≤
      |e| * ((p.signs.get i) ^ 2 / 2 + |e| * |p.signs.get i| ^ 3 / 6) *
        ((forward p j).t.sub (linkOrg p (thetaOf p j) i)).norm ∧
    |(jacobianColumn (forward p) j e i).lin.y - (((worldAxis (thetaOf p j) i).cross
        ((forward p j).t.sub (linkOrg p (thetaOf p j) i))).scale (p.signs.get i)).y| ≤
      |e| * ((p.signs.get i) ^ 2 / 2 + |e| * |p.signs.get i| ^ 3 / 6) *
        ((forward p j).t.sub (linkOrg p (thetaOf p j) i)).norm ∧
    |(jacobianColumn (forward p) j e i).lin.z - (((worldAxis (thetaOf p j) i).cross
        ((forward p j).t.sub (linkOrg p (thetaOf p j) i))).scale (p.signs.get i)).z| ≤
      |e| * ((p.signs.get i) ^ 2 / 2 + |e| * |p.signs.get i| ^ 3 / 6) *
        ((forward p j).t.sub (linkOrg p (thetaOf p j) i)).norm :=
  jacobianColumn_lin_error p j hi e he

/-- [R] C15, geometric clause, quantitative form, every joint `i < 6`, for a robot with `signᵢ = ±1` and
a step `0 < |ε| ≤ 1`.  With `l` link `i` of `chain p j`, `a = l.q · eᵢ`, `o = l.t`, `t` the tool position,
`s = signᵢ`: every component of the linear part of column `i` is within `|ε| · ‖t − o‖` (the differencing
step times the lever-arm length) of `s · a × (t − o)`, and the angular part is exactly `s · a`. -/
theorem jacobian_column_geometric_within_step (p : Params ℝ) (j : J6 ℝ) (i : Nat) (hi : i < 6)
    (hs : p.signs.get i = 1 ∨ p.signs.get i = -1) (e : ℝ) (he : e ≠ 0) (he1 : |e| ≤ 1) :
    ∃ l : Iso ℝ, (chain p j)[i]? = some l ∧
      (computeJacobian (forward p) j e)[i]? = some (jacobianColumn (forward p) j e i) ∧
      |(jacobianColumn (forward p) j e i).lin.x -
          (((l.q.rotate (localAxis i)).cross ((forward p j).t.sub l.t)).scale (p.signs.get i)).x| ≤
        |e| * ((forward p j).t.sub l.t).norm ∧
      |(jacobianColumn (forward p) j e i).lin.y -
          (((l.q.rotate (localAxis i)).cross ((forward p j).t.sub l.t)).scale (p.signs.get i)).y| ≤
        |e| * ((forward p j).t.sub l.t).norm ∧
      |(jacobianColumn (forward p) j e i).lin.z -
          (((l.q.rotate (localAxis i)).cross ((forward p j).t.sub l.t)).scale (p.signs.get i)).z| ≤
        |e| * ((forward p j).t.sub l.t).norm ∧
      (jacobianColumn (forward p) j e i).ang = (l.q.rotate (localAxis i)).scale (p.signs.get i) := by
  obtain ⟨l, hl, -, ho, ha, -⟩ := chain_link_axis_origin p j i hi
  obtain ⟨hx, hy, hz⟩ := jacobian_column_linear_error p j i hi e he
  have hpi := Real.pi_gt_three
  have habs : |p.signs.get i| = 1 := by
    rcases hs with h | h <;> rw [h] <;> simp
  have hsq : (p.signs.get i) ^ 2 = 1 := by
    rcases hs with h | h <;> rw [h] <;> norm_num
  have hN : 0 ≤ ((forward p j).t.sub (linkOrg p (thetaOf p j) i)).norm := V3.norm_nonneg _
  have hle : |e| * ((p.signs.get i) ^ 2 / 2 + |e| * |p.signs.get i| ^ 3 / 6) *
      ((forward p j).t.sub (linkOrg p (thetaOf p j) i)).norm ≤
      |e| * ((forward p j).t.sub (linkOrg p (thetaOf p j) i)).norm := by
    rw [habs, hsq]
    have h0 := abs_nonneg e
    have : |e| * (1 / 2 + |e| * 1 ^ 3 / 6) ≤ |e| * 1 :=
      mul_le_mul_of_nonneg_left (by linarith) h0
    nlinarith
  have hang : |e * p.signs.get i| < Real.pi := by
    rw [abs_mul, habs, mul_one]; linarith
  refine ⟨l, hl, (C15.computeJacobian_columns (forward p) j e).2 i hi, ?_, ?_, ?_, ?_⟩
  · rw [ha, ho]; exact hx.trans hle
  · rw [ha, ho]; exact hy.trans hle
  · rw [ha, ho]; exact hz.trans hle
  · rw [ha]; exact jacobian_column_angular_all p j i hi e he hang

/-! ### Examples (hypotheses are satisfiable; statements are not vacuous) -/

/-- every index `0 … 5` is covered -/
example (p : Params ℝ) (j : J6 ℝ) :
    ∀ i ∈ [0, 1, 2, 3, 4, 5], ∃ l : Iso ℝ, (chain p j)[i]? = some l := by
  intro i hi
  have : i < 6 := by
    simp only [List.mem_cons, List.mem_nil_iff, or_false] at hi
    omega
  obtain ⟨l, hl, -⟩ := jacobian_column_geometric_limit p j i this
  exact ⟨l, hl⟩

/-- the step hypotheses of `jacobian_column_angular_all` hold for the usual small step and `sᵢ = ±1` -/
example (s : ℝ) (hs : s = 1 ∨ s = -1) : (1e-6 : ℝ) ≠ 0 ∧ |(1e-6 : ℝ) * s| < Real.pi := by
  have hp := Real.pi_gt_three
  refine ⟨by norm_num, ?_⟩
  rcases hs with rfl | rfl
  · rw [mul_one, abs_of_pos (by norm_num)]; linarith
  · rw [mul_neg, mul_one, abs_neg, abs_of_pos (by norm_num)]; linarith

/-- a concrete robot (all signs `1` except `sign₂ = -1`, no offsets) at the zero configuration: joint 2
(index 1) has world axis `ŷ`, and with step `1/2` the angular part of column 2 is `-ŷ` -/
example :
    let p : Params ℝ := ⟨1, 2, 3, 4, 5, 6, 7, ⟨0, 0, 0, 0, 0, 0⟩, ⟨1, -1, 1, 1, 1, 1⟩, 6⟩
    let j : J6 ℝ := ⟨0, 0, 0, 0, 0, 0⟩
    worldAxis (thetaOf p j) 1 = ⟨0, 1, 0⟩ ∧
    (jacobianColumn (forward p) j (1 / 2) 1).ang = ⟨0, -1, 0⟩ := by
  intro p j
  have hθ : thetaOf p j = ⟨0, 0, 0, 0, 0, 0⟩ := by
    apply J6.ext' <;> simp only [thetaOf, p, j] <;> ring
  have ha : worldAxis (thetaOf p j) 1 = ⟨0, 1, 0⟩ := by
    rw [hθ]
    show (rot1 ⟨0, 0, 0, 0, 0, 0⟩).mulVec ey = _
    unfold rot1
    rw [rz_zero, M3.one_mulVec]; rfl
  refine ⟨ha, ?_⟩
  have hp := Real.pi_gt_three
  have hs : p.signs.get 1 = -1 := rfl
  rw [jacobian_column_angular_all p j 1 (by norm_num) (1 / 2) (by norm_num)
    (by rw [hs, mul_neg, mul_one, abs_neg, abs_of_pos (by norm_num)]; linarith), ha, hs]
  apply V3.ext' <;> simp only [V3.scale] <;> ring

/-- the hypotheses of `jacobian_column_geometric_within_step` hold for a concrete robot (signs `±1`) and
the usual small step, for every joint -/
example (j : J6 ℝ) (i : Nat) (hi : i < 6) :
    let p : Params ℝ := ⟨1, 2, 3, 4, 5, 6, 7, ⟨0, 0, 0, 0, 0, 0⟩, ⟨1, -1, 1, 1, -1, 1⟩, 6⟩
    ∃ l : Iso ℝ, (chain p j)[i]? = some l ∧
      (jacobianColumn (forward p) j 1e-6 i).ang = (l.q.rotate (localAxis i)).scale (p.signs.get i) := by
  intro p
  have hs : p.signs.get i = 1 ∨ p.signs.get i = -1 := by
    rcases six_cases hi with rfl | rfl | rfl | rfl | rfl | rfl
    · exact Or.inl rfl
    · exact Or.inr rfl
    · exact Or.inl rfl
    · exact Or.inl rfl
    · exact Or.inr rfl
    · exact Or.inl rfl
  obtain ⟨l, hl, -, -, -, -, h⟩ := jacobian_column_geometric_within_step p j i hi hs 1e-6
    (by norm_num) (by rw [abs_of_pos (by norm_num)]; norm_num)
  exact ⟨l, hl, h⟩

end Opw.C15b
