/-
  Source tie for the collision properties (C10, C11, C14): the per-pair decision of the model, `taskCollides`, is
  `CollisionTask::collides` as translated from the current text of collisions.rs (the parry3d queries being the oracles
  `Scene.intersects / aabbNear / distance`).  Generic in the number type.
-/
import OpwVerif.Lemmas.SrcCollTie
namespace Opw.TieColl
open Opw
variable {R : Type} [OpwNum R]

theorem taskCollides_is_source (sc : Scene R) (safety : Safety R) (i j : Nat) :
    SrcColl.taskCollidesSrc (safety.minDistance i j) (sc.intersects i j)
      (sc.aabbNear i j (safety.minDistance i j)) (sc.distance i j) = taskCollides sc safety i j :=
  taskCollidesSrc_eq sc safety i j

end Opw.TieColl
