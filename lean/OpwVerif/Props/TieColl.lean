/-
  Source tie for the collision properties (C10, C11, C14): the per-pair decision of the model, `taskCollides`, is
  `CollisionTask::collides` as translated from the current text of collisions.rs (the parry3d queries being the oracles
  `Scene.intersects / aabbNear / distance`).  Generic in the number type.
-/
import OpwVerif.Lemmas.SrcCollTie
namespace Opw.TieColl
open Opw
variable {R : Type} [OpwNum R]
set_option linter.unusedSectionVars false

theorem taskCollides_is_source (sc : Scene R) (safety : Safety R) (i j : Nat) :
    SrcColl.taskCollidesSrc (safety.minDistance i j) (sc.intersects i j)
      (sc.aabbNear i j (safety.minDistance i j)) (sc.distance i j) = taskCollides sc safety i j :=
  taskCollidesSrc_eq sc safety i j

/-- [G] the safety distance of a pair as the CURRENT text of `SafetyDistances::min_distance` looks it up (exact key, then
reversed key, then the environment default for pairs with an environment object, else the robot default) is the model's
`Safety.minDistance`: a swapped branch order or a changed index test breaks this equation -/
theorem minDistance_is_source (safety : Safety R) (i j : Nat) :
    SrcColl.minDistanceSrc safety i j = safety.minDistance i j := rfl

/-- [G] ... and so the whole per-pair verdict of the model is the two translated functions composed -/
theorem taskCollides_is_source' (sc : Scene R) (safety : Safety R) (i j : Nat) :
    SrcColl.taskCollidesSrc (SrcColl.minDistanceSrc safety i j) (sc.intersects i j)
      (sc.aabbNear i j (SrcColl.minDistanceSrc safety i j)) (sc.distance i j) = taskCollides sc safety i j := by
  rw [minDistance_is_source]; exact taskCollidesSrc_eq sc safety i j

end Opw.TieColl
