/-
  Source tie for the collision properties (C10, C11, C14): the per-pair decision of the model, `taskCollides`, is
  `CollisionTask::collides` as translated from the current text of collisions.rs (the parry3d queries being the oracles
  `Scene.intersects / aabbNear / distance`).  Generic in the number type.
-/
import OpwVerif.Lemmas.SrcCollTie
namespace Opw.TieColl
open Opw
variable {R : Type} [OpwNum R]
set_option linter.unusedSectionVars false

theorem taskCollides_is_source (sc : Scene R) (safety : Safety R) (i j : Nat) :
    SrcColl.taskCollidesSrc (safety.minDistance i j) (sc.intersects i j)
      (sc.aabbNear i j (safety.minDistance i j)) (sc.distance i j) = taskCollides sc safety i j :=
  taskCollidesSrc_eq sc safety i j

/-- [G] the safety distance of a pair as the CURRENT text of `SafetyDistances::min_distance` looks it up (exact key, then
reversed key, then the environment default for pairs with an environment object, else the robot default) is the model's
`Safety.minDistance`: a swapped branch order or a changed index test breaks this equation -/
theorem minDistance_is_source (safety : Safety R) (i j : Nat) :
    SrcColl.minDistanceSrc safety i j = safety.minDistance i j := rfl

/-- [G] ... and so the whole per-pair verdict of the model is the two translated functions composed -/
theorem taskCollides_is_source' (sc : Scene R) (safety : Safety R) (i j : Nat) :
    SrcColl.taskCollidesSrc (SrcColl.minDistanceSrc safety i j) (sc.intersects i j)
      (sc.aabbNear i j (SrcColl.minDistanceSrc safety i j)) (sc.distance i j) = taskCollides sc safety i j := by
  rw [minDistance_is_source]; exact taskCollidesSrc_eq sc safety i j

/-- [G] WHICH pairs of bodies are checked: the task list that the CURRENT text of `detect_collisions_with_skips` builds
(tool against every environment object; for every link the non-adjacent later links in reverse order, every environment
object, the tool unless the link is J5 / J6, the base unless the link is J1 or was skipped; tool against base), each push
handing over the pose and mesh of its own two indices (checked by the translator), gated by `check_required` as the CURRENT
source defines it, is the model's `tasks` — on which `relevant pairs` of C10 and the skip-list exactness of C14 are proved -/
theorem tasks_is_source (sc : Scene R) (own : Safety R) (skip : List Nat) (i j : Nat) :
    SrcColl.tasksSrc sc own skip = tasks sc own skip ∧ SrcColl.checkRequiredSrc own skip i j = checkRequired own skip i j :=
  ⟨tasksSrc_eq sc own skip, checkRequiredSrc_eq own skip i j⟩

/-- [G] the public methods of `RobotBody` as the CURRENT source text wires them — `collision_details` (own table, own mode),
`near` (the table handed in, its mode; pairs still gated by the OWN table), `collides` (false in NoCheck, else first-collision
over all tasks), `process_collision_tasks` (override or own mode; nothing / any one / all) — are the model's functions on which
the C10 theorems are stated -/
theorem robotBody_is_source (sc : Scene R) (own other : Safety R) (om : Option CheckMode) (ts : List (Nat × Nat))
    (choice : List (Nat × Nat) → Option (Nat × Nat)) :
    SrcColl.collisionDetailsSrc sc own other choice = collisionDetails sc own choice ∧
    SrcColl.nearSrc sc own other choice = near sc own other choice ∧
    SrcColl.collidesSrc sc own choice = collides sc own choice ∧
    SrcColl.processTasksSrc sc other om ts choice = processTasks sc other (om.getD other.mode) ts choice :=
  ⟨collisionDetailsSrc_eq .., nearSrc_eq .., collidesSrc_eq .., processTasksSrc_eq ..⟩

/-- [G] `RobotBody::non_colliding_offsets` as the CURRENT source text has it (read as one idiom by the translator: twelve
candidates joint by joint towards `from` then `to`, limits first, everything legal offered in NoCheck mode, otherwise the
first-collision check with the body's own table skipping the unchanged links before the tweaked joint) is the model's
`nonCollidingOffsets`, about which `offsets_exact` (C14) is proved -/
theorem nonCollidingOffsets_is_source (sceneAt : J6 R → Scene R) (unchanged : J6 R → Nat → Bool) (own : Safety R)
    (cons : Option (Constraints R)) (initial f t : J6 R) (choice : List (Nat × Nat) → Option (Nat × Nat)) :
    SrcColl.nonCollidingOffsetsSrc sceneAt unchanged own cons initial f t choice =
      nonCollidingOffsets sceneAt unchanged own cons initial f t choice :=
  nonCollidingOffsetsSrc_eq sceneAt unchanged own cons initial f t choice

end Opw.TieColl
