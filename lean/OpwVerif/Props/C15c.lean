/-
  C15c — Jacobian, geometric clause, WRAPPED robots (C15b treats the bare robot):
  "For any robot (bare or wrapped) and joint vector, the Jacobian agrees column by column with the
  geometric one built from the joint axes and origins of the independent link model (axis × lever arm,
  axis) to within the differencing step."

  `Jacobian::new(robot: &impl Kinematics, qs, epsilon)` takes the forward function of ANY robot, so
  `jacobianColumn k.forward` / `computeJacobian k.forward` is the numeric Jacobian of the wrapper stack
  `k : Kin ℝ` (Tool / Base / Frame / KinematicsWithShape around an `OPWKinematics`).  The stack must
  contain no Parallelogram (`k.noPara`) and every wrapper isometry must carry a unit quaternion (`k.WF`,
  as in C09).

  Notation (0-based joint index `i < 6`; `p = k.core.p`, `θ = thetaOf p j`, `B = k.baseOf` the accumulated
  base isometry with rotation matrix `R_B`, `Eᵢ, aᵢ, oᵢ, sᵢ` the bare-robot data of C15b):
   * `stackRot k j i φ = R_B Eᵢ(φ) R_Bᵀ` — `E'(φ)`: the rotation by `φ` about the base-moved joint axis;
   * `stackAxis k j i = R_B aᵢ`         — `a'`: the joint axis of the stack in the world frame;
   * `stackOrg k j i = B · oᵢ`          — `o'`: the base-moved link origin, a point on that axis;
   * `t' = (k.forward j).t`             — the tool position of the stack (lever arm extended by the tool).
  What is proved here, for every joint `i < 6` and every `noPara` stack (nothing is left partial):
   * [R] `stack_forward_perturb_joint`: adding `ε` to joint `i` multiplies the rotation of `k.forward j` by
     `E'(ε sᵢ)` on the left and moves its translation to `o' + E'(ε sᵢ)(t' − o')`; the relative rotation is a
     unit quaternion with matrix `E'(ε sᵢ)`; single wrappers `Kin.tool` / `Kin.base` spelled out;
   * [R] `stack_jacobian_column_angular`: angular part of column `i` = `sᵢ · a'` EXACTLY (`ε ≠ 0`, `|ε sᵢ| < π`);
   * [R] `stack_jacobian_column_linear`: linear part = `((E'(ε sᵢ) − 1)(t' − o'))/ε`;
     `stack_jacobian_column_tendsto`: it converges to `sᵢ · a' × (t' − o')` as `ε → 0`;
     `stack_jacobian_column_linear_error`: each component is within `|ε| (sᵢ²/2 + |ε||sᵢ|³/6) ‖t' − o'‖` of it;
   * [R] `stack_lever_arm`: for Tool/Base/Frame stacks `t' − o' = R_B ((robot · T).t − oᵢ)`, `T = k.toolOf`;
   * [R] assembly against the link poses `k.links j` of the stack (`stack_jacobian_column_geometric_limit`,
     `stack_jacobian_column_geometric_within_step`): axis = rotation of link `i` applied to `eᵢ`, origin =
     translation of link `i`.  For the LAST link (`i = 5`) the stack must contain no `Frame`, because
     `Frame` multiplies the last link pose by the frame transform (C09), which takes it off the joint axis;
     the columns themselves (`stackAxis`, `stackOrg`) need no such restriction.
  The bare-robot lemmas of `Lemmas/JacCols.lean` are reused: the induction over the stack
  (`JacStack.stack_moved`) starts from `forward_perturb`, a Tool/Frame is one more `Moved.step`, a Base
  conjugates; limit, Rodrigues formula and error bound are the `jointRot` ones conjugated by `R_B`.
  Property theorems only; helper lemmas live in `Lemmas/JacStack.lean`.
-/
import OpwVerif.Lemmas.JacStack
import OpwVerif.Props.C15b
import OpwVerif.Props.C09
namespace Opw.C15c
open Opw Opw.Limits Opw.MiscReal Opw.JacCols Opw.JacStack

attribute [-simp] Opw.ofNatLit_real

/-! ### 0. The geometric data of a stack, written out -/

/-- [R] the definitions: `E'(φ) = R_B Eᵢ(φ) R_Bᵀ`, `a' = R_B aᵢ`, `o' = B · oᵢ = R_B oᵢ + t_B` -/
theorem stack_data_eqns (k : Kin ℝ) (j : J6 ℝ) (i : Nat) (φ : ℝ) :
    stackRot k j i φ =
      (k.baseOf.q.toMat.mul (jointRot (thetaOf k.core.p j) i φ)).mul k.baseOf.q.toMat.transpose ∧
    stackAxis k j i = k.baseOf.q.toMat.mulVec (worldAxis (thetaOf k.core.p j) i) ∧
    stackOrg k j i = k.baseOf.transformPoint (linkOrg k.core.p (thetaOf k.core.p j) i) ∧
    stackOrg k j i =
      (k.baseOf.q.rotate (linkOrg k.core.p (thetaOf k.core.p j) i)).add k.baseOf.t :=
  ⟨rfl, rfl, rfl, rfl⟩

/-- [R] for the bare robot the data are those of C15b -/
theorem stack_data_bare (k : Opw ℝ) (j : J6 ℝ) (i : Nat) (φ : ℝ) :
    stackRot (.opw k) j i φ = jointRot (thetaOf k.p j) i φ ∧
    stackAxis (.opw k) j i = worldAxis (thetaOf k.p j) i ∧
    stackOrg (.opw k) j i = linkOrg k.p (thetaOf k.p j) i := by
  refine ⟨?_, ?_, Iso.transformPoint_one _⟩
  · show JacCols.conj (Quat.one : Quat ℝ).toMat _ = _
    rw [Quat.toMat_one, conj_one_left]; rfl
  · show (Quat.one : Quat ℝ).toMat.mulVec _ = _
    rw [Quat.toMat_one, M3.one_mulVec]; rfl

/-- [R] a Tool, a Frame and a collision filter leave the data unchanged; a Base `b` conjugates the
rotation by `R_b`, rotates the axis by `R_b` and moves the origin by `b` -/
theorem stack_data_wrappers (k : Kin ℝ) (hw : k.WF) (x : Iso ℝ) (hx : x.q.normSq = 1)
    (c : J6 ℝ → Bool) (j : J6 ℝ) (i : Nat) (φ : ℝ) :
    (stackRot (.tool k x) j i φ = stackRot k j i φ ∧ stackAxis (.tool k x) j i = stackAxis k j i ∧
      stackOrg (.tool k x) j i = stackOrg k j i) ∧
    (stackRot (.frame k x) j i φ = stackRot k j i φ ∧ stackAxis (.frame k x) j i = stackAxis k j i ∧
      stackOrg (.frame k x) j i = stackOrg k j i) ∧
    (stackRot (.shape k c) j i φ = stackRot k j i φ ∧ stackAxis (.shape k c) j i = stackAxis k j i ∧
      stackOrg (.shape k c) j i = stackOrg k j i) ∧
    (stackRot (.base k x) j i φ = (x.q.toMat.mul (stackRot k j i φ)).mul x.q.toMat.transpose ∧
      stackAxis (.base k x) j i = x.q.toMat.mulVec (stackAxis k j i) ∧
      stackOrg (.base k x) j i = x.transformPoint (stackOrg k j i)) := by
  refine ⟨⟨rfl, rfl, rfl⟩, ⟨rfl, rfl, rfl⟩, ⟨rfl, rfl, rfl⟩, ?_, ?_, stackOrg_base k hw x hx j i⟩
  · show JacCols.conj (x.q.mul k.baseOf.q).toMat _ = JacCols.conj x.q.toMat (JacCols.conj _ _)
    rw [conj_conj, Quat.toMat_mul]; rfl
  · show (x.q.mul k.baseOf.q).toMat.mulVec _ = x.q.toMat.mulVec (k.baseOf.q.toMat.mulVec _)
    rw [Quat.toMat_mul, M3.mulVec_mulVec]; rfl

/-- [R] `E'(φ)` is a rotation matrix, `E'(0) = 1`, it fixes the axis `a'`, `a'` is a unit vector, and
`E'(φ)` is the rotation matrix of the axis-angle quaternion `(cos φ/2, sin φ/2 · a')` -/
theorem stackRot_is_rotation_about_axis (k : Kin ℝ) (hw : k.WF) (j : J6 ℝ) (i : Nat) (φ : ℝ) :
    IsRot (stackRot k j i φ) ∧ stackRot k j i 0 = M3.one ∧
    (stackRot k j i φ).mulVec (stackAxis k j i) = stackAxis k j i ∧ (stackAxis k j i).normSq = 1 ∧
    stackRot k j i φ = (axisQuat (stackAxis k j i) (φ / 2)).toMat :=
  ⟨IsRot_stackRot k hw j i φ, stackRot_zero k hw j i, stackRot_mulVec_axis k hw j i φ,
    stackAxis_normSq k hw j i, stackRot_eq_toMat k hw j i φ⟩

/-! ### 1. Perturbing joint `i` of a stack is a rotation about the base-moved joint axis -/

/-- [R] every `noPara` stack with unit wrapper quaternions, every joint, any sign/offset convention:
adding `ε` to joint `i` moves the translation of `k.forward j` to `o' + E'(ε sᵢ)(t' − o')`, multiplies its
rotation matrix by `E'(ε sᵢ) = R_B Eᵢ(ε sᵢ) R_Bᵀ` on the left, and the relative rotation
`q(j + ε eᵢ) · q(j)⁻¹` used for the angular part of column `i` is a unit quaternion with rotation matrix
exactly `E'(ε sᵢ)` -/
theorem stack_forward_perturb_joint (k : Kin ℝ) (hp : k.noPara) (hw : k.WF) (j : J6 ℝ) (i : Nat)
    (hi : i < 6) (e : ℝ) :
    (k.forward (j.set i (j.get i + e))).t =
      (stackOrg k j i).add ((stackRot k j i (e * k.core.p.signs.get i)).mulVec
        ((k.forward j).t.sub (stackOrg k j i))) ∧
    (k.forward (j.set i (j.get i + e))).q.toMat =
      (stackRot k j i (e * k.core.p.signs.get i)).mul (k.forward j).q.toMat ∧
    ((k.forward (j.set i (j.get i + e))).q.mul (k.forward j).q.conj).toMat =
      stackRot k j i (e * k.core.p.signs.get i) ∧
    ((k.forward (j.set i (j.get i + e))).q.mul (k.forward j).q.conj).normSq = 1 := by
  have h := stack_moved k hp hw j hi e
  obtain ⟨hm, hu⟩ := h.rel (Kin.forward_unit k hw _) (Kin.forward_unit k hw _)
  exact ⟨h.org, h.rot, hm, hu⟩

/-- [R] single wrapper `Tool` over a bare robot: same rotation `Eᵢ(ε sᵢ)` about the same origin `oᵢ` as
the bare robot, applied to the tool-extended pose `forward · t` (no condition on the tool needed) -/
theorem tool_forward_perturb_joint (p : Params ℝ) (t : Iso ℝ) (j : J6 ℝ) (i : Nat) (hi : i < 6)
    (e : ℝ) :
    ((forward p (j.set i (j.get i + e))).mul t).t =
      (linkOrg p (thetaOf p j) i).add ((jointRot (thetaOf p j) i (e * p.signs.get i)).mulVec
        (((forward p j).mul t).t.sub (linkOrg p (thetaOf p j) i))) ∧
    ((forward p (j.set i (j.get i + e))).mul t).q.toMat =
      (jointRot (thetaOf p j) i (e * p.signs.get i)).mul ((forward p j).mul t).q.toMat := by
  obtain ⟨h1, h2, -, -⟩ := forward_perturb p j hi e
  have h : PoseMoved _ _ (forward p j) (forward p (j.set i (j.get i + e))) := ⟨h2, h1⟩
  have h' := h.tool (_root_.Opw.forward_unit p _) (_root_.Opw.forward_unit p _) t
  exact ⟨h'.org, h'.rot⟩

/-- [R] single wrapper `Base` over a bare robot: rotation `R_b Eᵢ(ε sᵢ) R_bᵀ` about the moved origin
`b · oᵢ` -/
theorem base_forward_perturb_joint (p : Params ℝ) (b : Iso ℝ) (hb : b.q.normSq = 1) (j : J6 ℝ)
    (i : Nat) (hi : i < 6) (e : ℝ) :
    (b.mul (forward p (j.set i (j.get i + e)))).t =
      (b.transformPoint (linkOrg p (thetaOf p j) i)).add
        (((b.q.toMat.mul (jointRot (thetaOf p j) i (e * p.signs.get i))).mul
            b.q.toMat.transpose).mulVec
          ((b.mul (forward p j)).t.sub (b.transformPoint (linkOrg p (thetaOf p j) i)))) ∧
    (b.mul (forward p (j.set i (j.get i + e)))).q.toMat =
      ((b.q.toMat.mul (jointRot (thetaOf p j) i (e * p.signs.get i))).mul
        b.q.toMat.transpose).mul (b.mul (forward p j)).q.toMat := by
  obtain ⟨h1, h2, -, -⟩ := forward_perturb p j hi e
  have h : PoseMoved _ _ (forward p j) (forward p (j.set i (j.get i + e))) := ⟨h2, h1⟩
  have h' := h.base b hb
  exact ⟨h'.org, h'.rot⟩

/-! ### 2. Angular part of column `i` -/

/-- [R] the angular part of column `i` of the numeric Jacobian of the stack is EXACTLY `sᵢ · R_B aᵢ`,
the geometric axis of joint `i` carried by the base, for every step with `ε ≠ 0`, `|ε sᵢ| < π` -/
theorem stack_jacobian_column_angular (k : Kin ℝ) (hp : k.noPara) (hw : k.WF) (j : J6 ℝ) (i : Nat)
    (hi : i < 6) (e : ℝ) (he : e ≠ 0) (hs : |e * k.core.p.signs.get i| < Real.pi) :
    (jacobianColumn k.forward j e i).ang = (stackAxis k j i).scale (k.core.p.signs.get i) :=
  stack_column_ang k hp hw j hi e he hs

/-! ### 3. Linear part of column `i` -/

/-- [R] the linear part of column `i` of the numeric Jacobian of the stack:
`((E'(ε sᵢ) − 1)(t' − o')) / ε` with `E' = R_B Eᵢ R_Bᵀ`, `o' = B · oᵢ`, `t'` the tool position of the
stack -/
theorem stack_jacobian_column_linear (k : Kin ℝ) (hp : k.noPara) (hw : k.WF) (j : J6 ℝ) (i : Nat)
    (hi : i < 6) (e : ℝ) :
    (jacobianColumn k.forward j e i).lin =
      (((stackRot k j i (e * k.core.p.signs.get i)).mulVec ((k.forward j).t.sub (stackOrg k j i))).sub
        ((k.forward j).t.sub (stackOrg k j i))).divs e :=
  stack_column_lin k hp hw j hi e

/-- [R] hence the linear part of the numeric column `i` of the stack converges to the geometric column
`sᵢ · (R_B aᵢ) × (t' − o')` (axis × lever arm) as the step `ε → 0`, `ε ≠ 0` (componentwise) -/
theorem stack_jacobian_column_tendsto (k : Kin ℝ) (hp : k.noPara) (hw : k.WF) (j : J6 ℝ) (i : Nat)
    (hi : i < 6) :
    Filter.Tendsto (fun e : ℝ => (jacobianColumn k.forward j e i).lin.x) (nhdsWithin 0 {0}ᶜ)
      (nhds (((stackAxis k j i).cross ((k.forward j).t.sub (stackOrg k j i))).scale
        (k.core.p.signs.get i)).x) ∧
    Filter.Tendsto (fun e : ℝ => (jacobianColumn k.forward j e i).lin.y) (nhdsWithin 0 {0}ᶜ)
      (nhds (((stackAxis k j i).cross ((k.forward j).t.sub (stackOrg k j i))).scale
        (k.core.p.signs.get i)).y) ∧
    Filter.Tendsto (fun e : ℝ => (jacobianColumn k.forward j e i).lin.z) (nhdsWithin 0 {0}ᶜ)
      (nhds (((stackAxis k j i).cross ((k.forward j).t.sub (stackOrg k j i))).scale
        (k.core.p.signs.get i)).z) := by
  have h := stackRot_slope_tendsto k hw j i ((k.forward j).t.sub (stackOrg k j i))
    (k.core.p.signs.get i)
  simp only [← stack_column_lin k hp hw j hi] at h
  exact h

/-- [R] Rodrigues' formula for the rotation about the base-moved axis of joint `i`:
`E'(φ) v = v + sin φ · a' × v + (1 − cos φ) · a' × (a' × v)` -/
theorem stackRot_rodrigues_formula (k : Kin ℝ) (hw : k.WF) (j : J6 ℝ) (i : Nat) (φ : ℝ) (v : V3 ℝ) :
    (stackRot k j i φ).mulVec v =
      (v.add (((stackAxis k j i).cross v).scale (Real.sin φ))).add
        (((stackAxis k j i).cross ((stackAxis k j i).cross v)).scale (1 - Real.cos φ)) :=
  stackRot_rodrigues k hw j i φ v

/-- [R] "to within the differencing step", every joint, every step `ε ≠ 0`, any sign: each component of
the linear part of column `i` of the stack differs from the geometric column `sᵢ · a' × (t' − o')` by at
most `|ε| (sᵢ²/2 + |ε| |sᵢ|³/6) ‖t' − o'‖` (the same bound as for the bare robot, with the lever arm of
the stack) -/
theorem stack_jacobian_column_linear_error (k : Kin ℝ) (hp : k.noPara) (hw : k.WF) (j : J6 ℝ)
    (i : Nat) (hi : i < 6) (e : ℝ) (he : e ≠ 0) :
    |(jacobianColumn k.forward j e i).lin.x - (((stackAxis k j i).cross
        ((k.forward j).t.sub (stackOrg k j i))).scale (k.core.p.signs.get i)).x| ≤
      |e| * ((k.core.p.signs.get i) ^ 2 / 2 + |e| * |k.core.p.signs.get i| ^ 3 / 6) *
        ((k.forward j).t.sub (stackOrg k j i)).norm ∧
    |(jacobianColumn k.forward j e i).lin.y - (((stackAxis k j i).cross
        ((k.forward j).t.sub (stackOrg k j i))).scale (k.core.p.signs.get i)).y| ≤
      |e| * ((k.core.p.signs.get i) ^ 2 / 2 + |e| * |k.core.p.signs.get i| ^ 3 / 6) *
        ((k.forward j).t.sub (stackOrg k j i)).norm ∧
    |(jacobianColumn k.forward j e i).lin.z - (((stackAxis k j i).cross
        ((k.forward j).t.sub (stackOrg k j i))).scale (k.core.p.signs.get i)).z| ≤
      |e| * ((k.core.p.signs.get i) ^ 2 / 2 + |e| * |k.core.p.signs.get i| ^ 3 / 6) *
        ((k.forward j).t.sub (stackOrg k j i)).norm :=
  stack_column_lin_error k hp hw j hi e he

/-- [R] the lever arm of a Tool/Base/Frame stack is the bare lever arm extended by the accumulated tool
`T = k.toolOf` and rotated by the base: `t' − o' = R_B ((robot · T).t − oᵢ)`; in particular it has the
length of the tool-extended bare lever arm -/
theorem stack_lever_arm (k : Kin ℝ) (hp : k.plain) (hw : k.WF) (j : J6 ℝ) (i : Nat) :
    (k.forward j).t.sub (stackOrg k j i) =
      k.baseOf.q.toMat.mulVec ((((forward k.core.p j).mul k.toolOf).t).sub
        (linkOrg k.core.p (thetaOf k.core.p j) i)) ∧
    ((k.forward j).t.sub (stackOrg k j i)).norm =
      ((((forward k.core.p j).mul k.toolOf).t).sub (linkOrg k.core.p (thetaOf k.core.p j) i)).norm := by
  have hB := Kin.baseOf_unit k hw
  have h1 : (k.forward j).t.sub (stackOrg k j i) =
      k.baseOf.q.toMat.mulVec ((((forward k.core.p j).mul k.toolOf).t).sub
        (linkOrg k.core.p (thetaOf k.core.p j) i)) := by
    rw [Kin.stack_forward k hp hw j]
    show (k.baseOf.t.add (k.baseOf.q.rotate _)).sub ((k.baseOf.q.rotate _).add k.baseOf.t) = _
    rw [Quat.rotate_eq_mulVec _ hB, Quat.rotate_eq_mulVec _ hB, JacStack.M3.mulVec_sub]
    apply V3.ext' <;> simp only [V3.sub, V3.add] <;> ring
  refine ⟨h1, ?_⟩
  rw [h1, V3.norm_eq, V3.norm_eq, (IsRot_baseOf k hw).normSq_mulVec]

/-! ### 4. Assembly against the independent link model of the stack (`Kin.links`) -/

/-- [R] stacks without a `Frame` wrapper (definition restated from `Lemmas/JacStack.lean`) -/
theorem frameFree_eqns (k : Opw ℝ) (i : Kin ℝ) (x : Iso ℝ) (c : J6 ℝ → Bool) :
    (frameFree (.opw k) ↔ True) ∧ (frameFree (.tool i x) ↔ frameFree i) ∧
    (frameFree (.base i x) ↔ frameFree i) ∧ (frameFree (.frame i x) ↔ False) ∧
    (frameFree (.shape i c) ↔ frameFree i) :=
  ⟨Iff.rfl, Iff.rfl, Iff.rfl, Iff.rfl, Iff.rfl⟩

/-- [R] the link poses of the stack (`forward_with_joint_poses` through the wrappers) carry the geometric
data: link `i` is a unit quaternion + translation with translation `o'` and with rotation taking the
joint's local axis `eᵢ` to the world axis `a'`.  For the last link the stack must contain no `Frame`. -/
theorem stack_link_axis_origin (k : Kin ℝ) (hp : k.noPara) (hw : k.WF) (j : J6 ℝ) (i : Nat)
    (hi : i < 6) (hf : i < 5 ∨ frameFree k) :
    ∃ l : Iso ℝ, (k.links j)[i]? = some l ∧ l.q.normSq = 1 ∧ l.t = stackOrg k j i ∧
      l.q.rotate (localAxis i) = stackAxis k j i :=
  JacStack.stack_link_axis_origin k hp hw j hi hf

/-- [R] C15, geometric clause, wrapped robots, every joint `i < 6`.  Let `l` be link `i` of `k.links j`,
`a = l.q · eᵢ` its joint axis in the world frame, `o = l.t` its origin, `t'` the tool position of the
stack, `s = signᵢ`.  Then `a` is a unit vector, column `i` of `compute_jacobian` is `jacobianColumn … i`,
its linear part converges (componentwise, `ε → 0`, `ε ≠ 0`) to `s · a × (t' − o)` (axis × lever arm), and
its angular part equals `s · a` (axis) exactly for every step with `ε ≠ 0`, `|ε s| < π`. -/
theorem stack_jacobian_column_geometric_limit (k : Kin ℝ) (hp : k.noPara) (hw : k.WF) (j : J6 ℝ)
    (i : Nat) (hi : i < 6) (hf : i < 5 ∨ frameFree k) :
    ∃ l : Iso ℝ, (k.links j)[i]? = some l ∧
      (l.q.rotate (localAxis i)).normSq = 1 ∧
      (∀ e : ℝ, (computeJacobian k.forward j e)[i]? = some (jacobianColumn k.forward j e i)) ∧
      Filter.Tendsto (fun e : ℝ => (jacobianColumn k.forward j e i).lin.x) (nhdsWithin 0 {0}ᶜ)
        (nhds (((l.q.rotate (localAxis i)).cross ((k.forward j).t.sub l.t)).scale
          (k.core.p.signs.get i)).x) ∧
      Filter.Tendsto (fun e : ℝ => (jacobianColumn k.forward j e i).lin.y) (nhdsWithin 0 {0}ᶜ)
        (nhds (((l.q.rotate (localAxis i)).cross ((k.forward j).t.sub l.t)).scale
          (k.core.p.signs.get i)).y) ∧
      Filter.Tendsto (fun e : ℝ => (jacobianColumn k.forward j e i).lin.z) (nhdsWithin 0 {0}ᶜ)
        (nhds (((l.q.rotate (localAxis i)).cross ((k.forward j).t.sub l.t)).scale
          (k.core.p.signs.get i)).z) ∧
      ∀ e : ℝ, e ≠ 0 → |e * k.core.p.signs.get i| < Real.pi →
        (jacobianColumn k.forward j e i).ang =
          (l.q.rotate (localAxis i)).scale (k.core.p.signs.get i) := by
  obtain ⟨l, hl, -, ho, ha⟩ := stack_link_axis_origin k hp hw j i hi hf
  obtain ⟨hx, hy, hz⟩ := stack_jacobian_column_tendsto k hp hw j i hi
  refine ⟨l, hl, ?_, fun e => (C15.computeJacobian_columns k.forward j e).2 i hi, ?_, ?_, ?_, ?_⟩
  · rw [ha]; exact stackAxis_normSq k hw j i
  · rw [ha, ho]; exact hx
  · rw [ha, ho]; exact hy
  · rw [ha, ho]; exact hz
  · intro e he hs
    rw [ha]; exact stack_jacobian_column_angular k hp hw j i hi e he hs

/-- [R] C15, geometric clause, quantitative form, wrapped robots, every joint `i < 6`, for a robot with
`signᵢ = ±1` and a step `0 < |ε| ≤ 1`.  With `l` link `i` of `k.links j`, `a = l.q · eᵢ`, `o = l.t`, `t'`
the tool position of the stack, `s = signᵢ`: every component of the linear part of column `i` is within
`|ε| · ‖t' − o‖` (the differencing step times the lever-arm length) of `s · a × (t' − o)`, and the angular
part is exactly `s · a`. -/
theorem stack_jacobian_column_geometric_within_step (k : Kin ℝ) (hp : k.noPara) (hw : k.WF)
    (j : J6 ℝ) (i : Nat) (hi : i < 6) (hf : i < 5 ∨ frameFree k)
    (hs : k.core.p.signs.get i = 1 ∨ k.core.p.signs.get i = -1) (e : ℝ) (he : e ≠ 0)
    (he1 : |e| ≤ 1) :
    ∃ l : Iso ℝ, (k.links j)[i]? = some l ∧
      (computeJacobian k.forward j e)[i]? = some (jacobianColumn k.forward j e i) ∧
      |(jacobianColumn k.forward j e i).lin.x -
          (((l.q.rotate (localAxis i)).cross ((k.forward j).t.sub l.t)).scale
            (k.core.p.signs.get i)).x| ≤ |e| * ((k.forward j).t.sub l.t).norm ∧
      |(jacobianColumn k.forward j e i).lin.y -
          (((l.q.rotate (localAxis i)).cross ((k.forward j).t.sub l.t)).scale
            (k.core.p.signs.get i)).y| ≤ |e| * ((k.forward j).t.sub l.t).norm ∧
      |(jacobianColumn k.forward j e i).lin.z -
          (((l.q.rotate (localAxis i)).cross ((k.forward j).t.sub l.t)).scale
            (k.core.p.signs.get i)).z| ≤ |e| * ((k.forward j).t.sub l.t).norm ∧
      (jacobianColumn k.forward j e i).ang =
        (l.q.rotate (localAxis i)).scale (k.core.p.signs.get i) := by
  obtain ⟨l, hl, -, ho, ha⟩ := stack_link_axis_origin k hp hw j i hi hf
  obtain ⟨hx, hy, hz⟩ := stack_jacobian_column_linear_error k hp hw j i hi e he
  have hpi := Real.pi_gt_three
  have habs : |k.core.p.signs.get i| = 1 := by
    rcases hs with h | h <;> rw [h] <;> simp
  have hsq : (k.core.p.signs.get i) ^ 2 = 1 := by
    rcases hs with h | h <;> rw [h] <;> norm_num
  have hN : 0 ≤ ((k.forward j).t.sub (stackOrg k j i)).norm := V3.norm_nonneg _
  have hle : |e| * ((k.core.p.signs.get i) ^ 2 / 2 + |e| * |k.core.p.signs.get i| ^ 3 / 6) *
      ((k.forward j).t.sub (stackOrg k j i)).norm ≤
      |e| * ((k.forward j).t.sub (stackOrg k j i)).norm := by
    rw [habs, hsq]
    have h0 := abs_nonneg e
    have : |e| * (1 / 2 + |e| * 1 ^ 3 / 6) ≤ |e| * 1 :=
      mul_le_mul_of_nonneg_left (by linarith) h0
    nlinarith
  have hang : |e * k.core.p.signs.get i| < Real.pi := by
    rw [abs_mul, habs, mul_one]; linarith
  refine ⟨l, hl, (C15.computeJacobian_columns k.forward j e).2 i hi, ?_, ?_, ?_, ?_⟩
  · rw [ha, ho]; exact hx.trans hle
  · rw [ha, ho]; exact hy.trans hle
  · rw [ha, ho]; exact hz.trans hle
  · rw [ha]; exact stack_jacobian_column_angular k hp hw j i hi e he hang

/-- [R] for the bare robot (`Kin.opw`) the stack statements are those of C15b: same column, same data -/
theorem stack_reduces_to_bare (k : Opw ℝ) (j : J6 ℝ) (i : Nat) (e : ℝ) :
    jacobianColumn (Kin.opw k).forward j e i = jacobianColumn (forward k.p) j e i ∧
    stackAxis (.opw k) j i = worldAxis (thetaOf k.p j) i ∧
    stackOrg (.opw k) j i = linkOrg k.p (thetaOf k.p j) i :=
  ⟨rfl, (stack_data_bare k j i 0).2.1, (stack_data_bare k j i 0).2.2⟩

/-! ### Examples (hypotheses are satisfiable; statements are not vacuous) -/

/-- the stack of C09 (tool 1 unit along z on a robot on a base at (1,2,3) turned half a turn about z),
inside a collision filter: no Parallelogram, unit quaternions, no Frame -/
noncomputable def exStack (k : Opw ℝ) : Kin ℝ := .shape (C09.exStack k) (fun _ => false)

/-- [R] the example stack satisfies the hypotheses of the theorems above -/
theorem exStack_noPara (k : Opw ℝ) : (exStack k).noPara := trivial
/-- [R] … unit quaternions -/
theorem exStack_WF (k : Opw ℝ) : (exStack k).WF := C09.exStack_WF k
/-- [R] … no `Frame` -/
theorem exStack_frameFree (k : Opw ℝ) : frameFree (exStack k) := trivial

/-- every index `0 … 5` of the example stack is covered, with the link of the stack's own link model -/
example (k : Opw ℝ) (j : J6 ℝ) :
    ∀ i ∈ [0, 1, 2, 3, 4, 5], ∃ l : Iso ℝ, ((exStack k).links j)[i]? = some l := by
  intro i hi
  have : i < 6 := by
    simp only [List.mem_cons, List.mem_nil_iff, or_false] at hi
    omega
  obtain ⟨l, hl, -⟩ := stack_jacobian_column_geometric_limit (exStack k) (exStack_noPara k)
    (exStack_WF k) j i this (Or.inr (exStack_frameFree k))
  exact ⟨l, hl⟩

/-- the base of the example stack turns the axis of joint 1 (`ẑ`) into itself and the axis data are
`R_B aᵢ` with `R_B = diag(-1, -1, 1)`: the world axis of joint 1 of the stack is still `ẑ` -/
example (k : Opw ℝ) (j : J6 ℝ) : stackAxis (exStack k) j 0 = ⟨0, 0, 1⟩ := by
  have hB : (exStack k).baseOf = C09.exBase := Iso.mul_one C09.exBase
  have ha : worldAxis (thetaOf (exStack k).core.p j) 0 = ⟨0, 0, 1⟩ :=
    (C15b.worldAxis_table _).1
  show (exStack k).baseOf.q.toMat.mulVec (worldAxis (thetaOf (exStack k).core.p j) 0) = _
  rw [hB, ha]
  apply V3.ext' <;> simp only [C09.exBase, Quat.toMat, M3.mulVec, lit2] <;> ring

/-- a concrete wrapped robot (all signs `1` except `sign₂ = -1`), usual small step: the angular part of
every column of the numeric Jacobian of the stack is `± a'`, read off the stack's link poses -/
example (j : J6 ℝ) (i : Nat) (hi : i < 6) :
    let p : Params ℝ := ⟨1, 2, 3, 4, 5, 6, 7, ⟨0, 0, 0, 0, 0, 0⟩, ⟨1, -1, 1, 1, -1, 1⟩, 6⟩
    let k : Kin ℝ := exStack ⟨p, none⟩
    ∃ l : Iso ℝ, (k.links j)[i]? = some l ∧
      (jacobianColumn k.forward j 1e-6 i).ang = (l.q.rotate (localAxis i)).scale (p.signs.get i) := by
  intro p k
  have hs : k.core.p.signs.get i = 1 ∨ k.core.p.signs.get i = -1 := by
    rcases six_cases hi with rfl | rfl | rfl | rfl | rfl | rfl
    · exact Or.inl rfl
    · exact Or.inr rfl
    · exact Or.inl rfl
    · exact Or.inl rfl
    · exact Or.inr rfl
    · exact Or.inl rfl
  obtain ⟨l, hl, -, -, -, -, h⟩ := stack_jacobian_column_geometric_within_step k
    (exStack_noPara _) (exStack_WF _) j i hi (Or.inr (exStack_frameFree _)) hs 1e-6
    (by norm_num) (by rw [abs_of_pos (by norm_num)]; norm_num)
  exact ⟨l, hl, h⟩

/-- a stack WITH a frame (C09's base + frame stack): every column is still covered by the
`stackAxis`/`stackOrg` form, and by the link form for joints 1–5 -/
example (k : Opw ℝ) (j : J6 ℝ) (i : Nat) (hi : i < 6) (e : ℝ) (he : e ≠ 0)
    (hs : |e * k.p.signs.get i| < Real.pi) :
    (jacobianColumn (C09.exStackBF k).forward j e i).ang =
      (stackAxis (C09.exStackBF k) j i).scale (k.p.signs.get i) :=
  stack_jacobian_column_angular (C09.exStackBF k) trivial (C09.exStackBF_WF k) j i hi e he hs

end Opw.C15c
