/-
  C17 — Frames (`frame.rs`): for any three non-collinear points and their images under a rigid
  motion, `Frame::frame` constructs a proper rigid transform that maps each point to its image (and
  hence equals that motion); collinear sources or targets and point triples whose mutual distances
  differ by more than 5 mm are rejected with the corresponding error.  `forward_transformed` returns
  the frame-moved tool pose and the answers of `inverse_continuing` for that pose.
  Property theorems only; helper lemmas live in `Lemmas/MiscReal.lean`.
  Kinds: [R] real arithmetic (the model text evaluated at `ℝ`), [G] generic (any number type, holds
  of the Float reading itself).
-/
import OpwVerif.Lemmas.MiscReal
import OpwVerif.Lemmas.Nearest
import OpwVerif.Props.C01
namespace Opw.C17
open Opw Opw.Limits Opw.MiscReal

attribute [-simp] Opw.ofNatLit_real

/-! ### Vocabulary -/

/-- the rotation `Frame::frame` computes on its success branch:
`from_rotation_matrix(B(w1, w2) · B(v1, v2)ᵀ)` with `v = p₂ − p₁, p₃ − p₁`, `w = q₂ − q₁, q₃ − q₁` -/
def frameRot {R : Type} [OpwNum R] (p1 p2 p3 q1 q2 q3 : V3 R) : Quat R :=
  Quat.ofMat ((basisOf (q2.sub q1) (q3.sub q1)).mul (basisOf (p2.sub p1) (p3.sub p1)).transpose)

/-- the isometry `Frame::frame` returns on its success branch: translation `q₁ − rot · p₁` -/
def frameIso {R : Type} [OpwNum R] (p1 p2 p3 q1 q2 q3 : V3 R) : Iso R :=
  ⟨q1.sub ((frameRot p1 p2 p3 q1 q2 q3).rotate p1), frameRot p1 p2 p3 q1 q2 q3⟩

/-- three points are collinear (or coincide): `(b − a) × (c − a) = 0` -/
def Collinear3 (a b c : V3 ℝ) : Prop := V3.cross (b.sub a) (c.sub a) = V3.zero

/-! ### 1. Order and content of the checks -/

/-- [G] `Frame::frame`: first the distance check (`NotIsometry`), then source collinearity
(`ColinearSource`), then target collinearity (`ColinearTarget`), else the isometry `frameIso`. -/
theorem frame_rejects {R : Type} [OpwNum R] (p1 p2 p3 q1 q2 q3 : V3 R) :
    (distancesMatch p1 p2 p3 q1 q2 q3 nonIsoTol = false →
      frameOf p1 p2 p3 q1 q2 q3 = .error .notIsometry) ∧
    (distancesMatch p1 p2 p3 q1 q2 q3 nonIsoTol = true →
      feq (V3.cross (p2.sub p1) (p3.sub p1)).norm 0 = true →
      frameOf p1 p2 p3 q1 q2 q3 = .error .colinearSource) ∧
    (distancesMatch p1 p2 p3 q1 q2 q3 nonIsoTol = true →
      feq (V3.cross (p2.sub p1) (p3.sub p1)).norm 0 = false →
      feq (V3.cross (q2.sub q1) (q3.sub q1)).norm 0 = true →
      frameOf p1 p2 p3 q1 q2 q3 = .error .colinearTarget) ∧
    (distancesMatch p1 p2 p3 q1 q2 q3 nonIsoTol = true →
      feq (V3.cross (p2.sub p1) (p3.sub p1)).norm 0 = false →
      feq (V3.cross (q2.sub q1) (q3.sub q1)).norm 0 = false →
      frameOf p1 p2 p3 q1 q2 q3 = .ok (frameIso p1 p2 p3 q1 q2 q3)) := by
  refine ⟨fun h => ?_, fun h hs => ?_, fun h hs ht => ?_, fun h hs ht => ?_⟩
  · simp [frameOf, h]
  · simp [frameOf, h, hs]
  · simp [frameOf, h, hs, ht]
  · simp [frameOf, h, hs, ht, frameIso, frameRot]

/-- [G] `Frame::translation`: identity rotation, translation `q − p` -/
theorem frameTranslation_def {R : Type} [OpwNum R] (p q : V3 R) :
    frameTranslation p q = ⟨q.sub p, Quat.one⟩ := rfl

/-! ### 2. The tolerance and the distance check -/

/-- [R] the tolerance is the `f64` nearest to `0.005` (5 mm) -/
theorem nonIsoTol_real : (nonIsoTol : ℝ) < 5.0000001e-3 ∧ 4.9999999e-3 < (nonIsoTol : ℝ) := by
  rw [nonIsoTol_eq]; constructor <;> norm_num

/-- [R] `distances_match`: the three mutual distances agree pairwise within `tol` -/
theorem distancesMatch_iff (a1 a2 a3 b1 b2 b3 : V3 ℝ) (tol : ℝ) :
    distancesMatch a1 a2 a3 b1 b2 b3 tol = true ↔
      |(a1.sub a2).norm - (b1.sub b2).norm| < tol ∧ |(a1.sub a3).norm - (b1.sub b3).norm| < tol ∧
      |(a2.sub a3).norm - (b2.sub b3).norm| < tol := by
  unfold distancesMatch
  simp only [Bool.and_eq_true, decide_eq_true_eq, and_assoc]
  exact Iff.rfl

/-- [R] the collinearity test `norm == 0.0` over the reals -/
theorem feq_norm_zero_iff (v : V3 ℝ) :
    feq v.norm (@OfNat.ofNat ℝ 0 instOfNatOpw) = true ↔ v = V3.zero := by
  rw [lit0_real, feq_real, decide_eq_true_eq, V3.norm_eq_zero_iff, V3.normSq_eq_zero_iff]

theorem not_collinear3_iff (a b c : V3 ℝ) :
    ¬ Collinear3 a b c ↔ (V3.cross (b.sub a) (c.sub a)).norm ≠ 0 := by
  unfold Collinear3
  rw [Ne, V3.norm_eq_zero_iff, V3.normSq_eq_zero_iff]

/-- [R] the geometric meaning of `Collinear3`: `c − a` a multiple of `b − a`, or `b = a` -/
theorem collinear3_of_scale {a b c : V3 ℝ} {s : ℝ} (h : c.sub a = (b.sub a).scale s) :
    Collinear3 a b c := by
  unfold Collinear3
  rw [h]
  apply V3.ext' <;> simp only [V3.cross, V3.scale, V3.zero, lit0_real] <;> ring

theorem collinear3_of_eq {a c : V3 ℝ} : Collinear3 a a c := by
  unfold Collinear3
  apply V3.ext' <;> simp only [V3.cross, V3.sub, V3.zero, lit0_real] <;> ring

/-! ### Rejections and acceptance over the reals -/

/-- [R] a triple with one mutual distance off by at least the tolerance is rejected as `NotIsometry` … -/
theorem rejects_non_isometry (p1 p2 p3 q1 q2 q3 : V3 ℝ)
    (h : (nonIsoTol : ℝ) ≤ |(p1.sub p2).norm - (q1.sub q2).norm| ∨
         (nonIsoTol : ℝ) ≤ |(p1.sub p3).norm - (q1.sub q3).norm| ∨
         (nonIsoTol : ℝ) ≤ |(p2.sub p3).norm - (q2.sub q3).norm|) :
    frameOf p1 p2 p3 q1 q2 q3 = .error .notIsometry := by
  apply (frame_rejects p1 p2 p3 q1 q2 q3).1
  rw [← Bool.not_eq_true, distancesMatch_iff]
  rintro ⟨h1, h2, h3⟩
  rcases h with h | h | h <;> linarith

/-- [R] … in particular when a distance differs by more than 5 mm (`5.0000001e-3` covers the rounding
of the constant) -/
theorem rejects_more_than_5mm (p1 p2 p3 q1 q2 q3 : V3 ℝ)
    (h : 5.0000001e-3 ≤ |(p1.sub p2).norm - (q1.sub q2).norm| ∨
         5.0000001e-3 ≤ |(p1.sub p3).norm - (q1.sub q3).norm| ∨
         5.0000001e-3 ≤ |(p2.sub p3).norm - (q2.sub q3).norm|) :
    frameOf p1 p2 p3 q1 q2 q3 = .error .notIsometry := by
  have ht := nonIsoTol_real.1
  apply rejects_non_isometry
  rcases h with h | h | h
  · exact Or.inl (by linarith)
  · exact Or.inr (Or.inl (by linarith))
  · exact Or.inr (Or.inr (by linarith))

/-- [R] collinear source points (distances matching) are rejected as `ColinearSource` -/
theorem rejects_collinear_source (p1 p2 p3 q1 q2 q3 : V3 ℝ)
    (hd : distancesMatch p1 p2 p3 q1 q2 q3 nonIsoTol = true) (hs : Collinear3 p1 p2 p3) :
    frameOf p1 p2 p3 q1 q2 q3 = .error .colinearSource :=
  (frame_rejects p1 p2 p3 q1 q2 q3).2.1 hd ((feq_norm_zero_iff _).2 hs)

/-- [R] collinear target points (distances matching, source not collinear) are rejected as
`ColinearTarget` -/
theorem rejects_collinear_target (p1 p2 p3 q1 q2 q3 : V3 ℝ)
    (hd : distancesMatch p1 p2 p3 q1 q2 q3 nonIsoTol = true) (hs : ¬ Collinear3 p1 p2 p3)
    (ht : Collinear3 q1 q2 q3) :
    frameOf p1 p2 p3 q1 q2 q3 = .error .colinearTarget := by
  apply (frame_rejects p1 p2 p3 q1 q2 q3).2.2.1 hd _ ((feq_norm_zero_iff _).2 ht)
  rw [← Bool.not_eq_true, feq_norm_zero_iff]; exact hs

/-- [R] otherwise the frame is constructed -/
theorem frame_ok (p1 p2 p3 q1 q2 q3 : V3 ℝ)
    (hd : distancesMatch p1 p2 p3 q1 q2 q3 nonIsoTol = true) (hs : ¬ Collinear3 p1 p2 p3)
    (ht : ¬ Collinear3 q1 q2 q3) :
    frameOf p1 p2 p3 q1 q2 q3 = .ok (frameIso p1 p2 p3 q1 q2 q3) := by
  apply (frame_rejects p1 p2 p3 q1 q2 q3).2.2.2 hd
  · rw [← Bool.not_eq_true, feq_norm_zero_iff]; exact hs
  · rw [← Bool.not_eq_true, feq_norm_zero_iff]; exact ht

/-- [R] and a constructed frame certifies all three checks (the four outcomes are exclusive) -/
theorem frame_ok_inv {p1 p2 p3 q1 q2 q3 : V3 ℝ} {iso : Iso ℝ}
    (h : frameOf p1 p2 p3 q1 q2 q3 = .ok iso) :
    distancesMatch p1 p2 p3 q1 q2 q3 nonIsoTol = true ∧ ¬ Collinear3 p1 p2 p3 ∧
      ¬ Collinear3 q1 q2 q3 ∧ iso = frameIso p1 p2 p3 q1 q2 q3 := by
  by_cases hd : distancesMatch p1 p2 p3 q1 q2 q3 nonIsoTol = true
  · by_cases hs : Collinear3 p1 p2 p3
    · rw [rejects_collinear_source _ _ _ _ _ _ hd hs] at h; cases h
    · by_cases ht : Collinear3 q1 q2 q3
      · rw [rejects_collinear_target _ _ _ _ _ _ hd hs ht] at h; cases h
      · rw [frame_ok _ _ _ _ _ _ hd hs ht] at h
        exact ⟨hd, hs, ht, (Except.ok.inj h).symm⟩
  · rw [Bool.not_eq_true] at hd
    rw [(frame_rejects p1 p2 p3 q1 q2 q3).1 hd] at h; cases h

/-! ### 3. The constructed frame is a proper rigid transform -/

/-- [R] the basis built from two non-parallel vectors is a proper rotation matrix: orthonormal
columns `b₁ = v₁/‖v₁‖`, `b₂ = (v₁ × v₂)/‖v₁ × v₂‖`, `b₃ = b₁ × b₂`, right-handed -/
theorem basisOf_isRot {v1 v2 : V3 ℝ} (h : (V3.cross v1 v2).norm ≠ 0) : IsRot (basisOf v1 v2) :=
  MiscReal.basisOf_isRot h

/-- [R] in particular its determinant is one and it preserves lengths -/
theorem basisOf_det {v1 v2 : V3 ℝ} (h : (V3.cross v1 v2).norm ≠ 0) : (basisOf v1 v2).det = 1 :=
  (basisOf_isRot h).det

/-- [R] the matrix product the frame converts to a quaternion is a proper rotation -/
theorem frame_matrix_isRot {p1 p2 p3 q1 q2 q3 : V3 ℝ} (hs : ¬ Collinear3 p1 p2 p3)
    (ht : ¬ Collinear3 q1 q2 q3) :
    IsRot ((basisOf (q2.sub q1) (q3.sub q1)).mul (basisOf (p2.sub p1) (p3.sub p1)).transpose) :=
  (basisOf_isRot ((not_collinear3_iff _ _ _).1 ht)).mul
    (basisOf_isRot ((not_collinear3_iff _ _ _).1 hs)).transpose

/-- [R] every frame `Frame::frame` returns is a proper rigid transform: its quaternion is a unit
quaternion, its rotation matrix is orthogonal with determinant one, and that matrix is exactly
`B(w₁, w₂) · B(v₁, v₂)ᵀ` -/
theorem frame_proper {p1 p2 p3 q1 q2 q3 : V3 ℝ} {iso : Iso ℝ}
    (h : frameOf p1 p2 p3 q1 q2 q3 = .ok iso) :
    iso.q.normSq = 1 ∧ IsRot iso.q.toMat ∧ iso.q.toMat.det = 1 ∧
      iso.q.toMat = (basisOf (q2.sub q1) (q3.sub q1)).mul (basisOf (p2.sub p1) (p3.sub p1)).transpose := by
  obtain ⟨-, hs, ht, rfl⟩ := frame_ok_inv h
  have hm := frame_matrix_isRot hs ht
  have hu : (frameIso p1 p2 p3 q1 q2 q3).q.normSq = 1 := Quat.normSq_ofMat _ hm
  exact ⟨hu, IsRot_toMat _ hu, Quat.det_toMat _ hu, Quat.toMat_ofMat _ hm⟩

/-! ### 4. What a constructed frame maps where -/

/-- [R] the first point is mapped to its target exactly -/
theorem frame_maps_p1 {p1 p2 p3 q1 q2 q3 : V3 ℝ} {iso : Iso ℝ}
    (h : frameOf p1 p2 p3 q1 q2 q3 = .ok iso) : iso.transformPoint p1 = q1 := by
  obtain ⟨-, -, -, rfl⟩ := frame_ok_inv h
  apply V3.ext' <;> simp only [Iso.transformPoint, frameIso, V3.add, V3.sub] <;> ring

/-- [R] the direction `p₁ → p₂` is rotated onto the direction `q₁ → q₂`, and the unit normal of the
source plane onto the unit normal of the target plane (no exactness assumption on the targets) -/
theorem frame_maps_directions {p1 p2 p3 q1 q2 q3 : V3 ℝ} {iso : Iso ℝ}
    (h : frameOf p1 p2 p3 q1 q2 q3 = .ok iso) :
    iso.q.rotate (p2.sub p1).normalize = (q2.sub q1).normalize ∧
    iso.q.rotate (V3.cross (p2.sub p1) (p3.sub p1)).normalize =
      (V3.cross (q2.sub q1) (q3.sub q1)).normalize := by
  obtain ⟨hu, -, -, hm⟩ := frame_proper h
  obtain ⟨-, hs, ht, rfl⟩ := frame_ok_inv h
  have hv := basisOf_isRot ((not_collinear3_iff _ _ _).1 hs)
  rw [Quat.rotate_eq_mulVec _ hu, Quat.rotate_eq_mulVec _ hu, hm, M3.mulVec_mulVec, M3.mulVec_mulVec]
  constructor
  · rw [← basisOf_col0 (p2.sub p1) (p3.sub p1), transpose_mulVec_col0 hv, mulVec_ex]; rfl
  · rw [← basisOf_col1 (p2.sub p1) (p3.sub p1), transpose_mulVec_col1 hv, mulVec_ey]; rfl

/-! ### 5. Exact images of a rigid motion: the frame is that motion -/

/-- [R] For three non-collinear points and their images under a rigid motion `g` (unit quaternion),
`Frame::frame` succeeds, and the frame it returns has the rotation matrix and the translation of
`g` (its quaternion is `±g.q`, the same rotation), hence maps every point — in particular the three
given ones — exactly as `g` does. -/
theorem frame_recovers_motion (g : Iso ℝ) (hg : g.q.normSq = 1) (p1 p2 p3 : V3 ℝ)
    (hs : ¬ Collinear3 p1 p2 p3) :
    ∃ iso, frameOf p1 p2 p3 (g.transformPoint p1) (g.transformPoint p2) (g.transformPoint p3) = .ok iso ∧
      iso.q.normSq = 1 ∧ iso.q.toMat = g.q.toMat ∧ iso.t = g.t ∧ (iso.q = g.q ∨ iso.q = g.q.neg) ∧
      (∀ p, iso.transformPoint p = g.transformPoint p) ∧
      iso.transformPoint p1 = g.transformPoint p1 ∧ iso.transformPoint p2 = g.transformPoint p2 ∧
      iso.transformPoint p3 = g.transformPoint p3 := by
  have hR : IsRot g.q.toMat := IsRot_toMat _ hg
  have hs' := (not_collinear3_iff _ _ _).1 hs
  -- differences of images are rotated differences
  have hdiff : ∀ a b : V3 ℝ, (g.transformPoint a).sub (g.transformPoint b) = g.q.toMat.mulVec (a.sub b) := by
    intro a b
    simp only [Iso.transformPoint, Quat.rotate_eq_mulVec _ hg, M3.mulVec_sub]
    apply V3.ext' <;> simp only [V3.add, V3.sub] <;> ring
  have hnorm : ∀ a b : V3 ℝ, ((g.transformPoint a).sub (g.transformPoint b)).norm = (a.sub b).norm := by
    intro a b; rw [hdiff, isRot_norm_mulVec hR]
  have htol : (0 : ℝ) < nonIsoTol := by rw [nonIsoTol_eq]; norm_num
  have hd : distancesMatch p1 p2 p3 (g.transformPoint p1) (g.transformPoint p2) (g.transformPoint p3)
      nonIsoTol = true := by
    rw [distancesMatch_iff, hnorm, hnorm, hnorm]
    simp only [sub_self, abs_zero]
    exact ⟨htol, htol, htol⟩
  have hcross : V3.cross ((g.transformPoint p2).sub (g.transformPoint p1))
      ((g.transformPoint p3).sub (g.transformPoint p1)) =
      g.q.toMat.mulVec (V3.cross (p2.sub p1) (p3.sub p1)) := by
    rw [hdiff, hdiff, isRot_cross_mulVec hR]
  have ht : ¬ Collinear3 (g.transformPoint p1) (g.transformPoint p2) (g.transformPoint p3) := by
    rw [not_collinear3_iff, hcross, isRot_norm_mulVec hR]; exact hs'
  have hv := basisOf_isRot hs'
  have hmat : (basisOf ((g.transformPoint p2).sub (g.transformPoint p1))
      ((g.transformPoint p3).sub (g.transformPoint p1))).mul
      (basisOf (p2.sub p1) (p3.sub p1)).transpose = g.q.toMat := by
    rw [hdiff, hdiff, basisOf_mulVec hR, M3.mul_assoc, hv.mt, M3.mul_one]
  have hq : (frameIso p1 p2 p3 (g.transformPoint p1) (g.transformPoint p2) (g.transformPoint p3)).q
      = Quat.ofMat g.q.toMat := by
    show frameRot _ _ _ _ _ _ = _
    unfold frameRot; rw [hmat]
  have hu : (Quat.ofMat g.q.toMat).normSq = 1 := Quat.normSq_ofMat _ hR
  have hm : (Quat.ofMat g.q.toMat).toMat = g.q.toMat := Quat.toMat_ofMat _ hR
  have htr : (frameIso p1 p2 p3 (g.transformPoint p1) (g.transformPoint p2) (g.transformPoint p3)).t
      = g.t := by
    show (g.transformPoint p1).sub ((frameRot _ _ _ _ _ _).rotate p1) = g.t
    have : frameRot p1 p2 p3 (g.transformPoint p1) (g.transformPoint p2) (g.transformPoint p3)
        = Quat.ofMat g.q.toMat := hq
    rw [this, Quat.rotate_ofMat _ hR]
    simp only [Iso.transformPoint, Quat.rotate_eq_mulVec _ hg]
    apply V3.ext' <;> simp only [V3.add, V3.sub] <;> ring
  have hall : ∀ p, (frameIso p1 p2 p3 (g.transformPoint p1) (g.transformPoint p2)
      (g.transformPoint p3)).transformPoint p = g.transformPoint p := by
    intro p
    show ((frameIso p1 p2 p3 (g.transformPoint p1) (g.transformPoint p2) (g.transformPoint p3)).q.rotate p).add
      (frameIso p1 p2 p3 (g.transformPoint p1) (g.transformPoint p2) (g.transformPoint p3)).t =
      (g.q.rotate p).add g.t
    rw [htr, hq, Quat.rotate_ofMat _ hR, Quat.rotate_eq_mulVec _ hg]
  refine ⟨_, frame_ok _ _ _ _ _ _ hd hs ht, ?_, ?_, htr, ?_, hall, hall p1, hall p2, hall p3⟩
  · rw [hq]; exact hu
  · rw [hq]; exact hm
  · rw [hq]; exact Quat.ofMat_toMat _ hg

/-- [R] uniqueness: a rigid motion (unit quaternion) is determined by the images of three
non-collinear points — two motions that agree on them have the same translation and rotation matrix
and agree everywhere.  So "the" motion recovered by `frame_recovers_motion` is well defined. -/
theorem frame_unique (g g' : Iso ℝ) (hg : g.q.normSq = 1) (hg' : g'.q.normSq = 1) (p1 p2 p3 : V3 ℝ)
    (hs : ¬ Collinear3 p1 p2 p3)
    (h1 : g.transformPoint p1 = g'.transformPoint p1) (h2 : g.transformPoint p2 = g'.transformPoint p2)
    (h3 : g.transformPoint p3 = g'.transformPoint p3) :
    g.t = g'.t ∧ g.q.toMat = g'.q.toMat ∧ ∀ p, g.transformPoint p = g'.transformPoint p := by
  obtain ⟨iso, hok, -, hm, ht, -, hall, -⟩ := frame_recovers_motion g hg p1 p2 p3 hs
  obtain ⟨iso', hok', -, hm', ht', -, hall', -⟩ := frame_recovers_motion g' hg' p1 p2 p3 hs
  rw [h1, h2, h3, hok'] at hok
  have e : iso' = iso := Except.ok.inj hok
  subst e
  exact ⟨ht.symm.trans ht', hm.symm.trans hm', fun p => (hall p).symm.trans (hall' p)⟩

/-! ### 6. `forward_transformed` -/

/-- [G] `Frame::forward_transformed`: the tool pose is the frame applied to the robot's forward
pose, the joint solutions are `inverse_continuing` of the robot for that pose -/
theorem forwardTransformed_def {R : Type} [OpwNum R] (robot : Kin R) (f : Iso R) (qs previous : J6 R) :
    forwardTransformed robot f qs previous =
      (robot.inverseContinuing (f.mul (robot.forward qs)) previous, f.mul (robot.forward qs)) := rfl

/-- [G] for a bare 6-DOF solver, every returned joint vector is `normalize_near(s0, reference)` of an
`s0` that passed the forward-kinematics cross-check against the frame-moved pose (or, when the solve
for that pose came back empty, against one of the singularity-shifted poses; see C01) -/
theorem forwardTransformed_sound {R : Type} [OpwNum R] (k : Opw R) (f : Iso R) (qs previous s : J6 R)
    (hd : k.p.dof ≠ 5) (h : s ∈ (forwardTransformed (.opw k) f qs previous).1) :
    ∃ s0, s = s0.normalizeNear (k.reference previous) ∧
      (Sound k.p (forwardTransformed (.opw k) f qs previous).2 s0 ∨
        ∃ d ∈ (shifts : List (V3 R)),
          Sound k.p (shiftPose (forwardTransformed (.opw k) f qs previous).2 d) s0 ∧
          (d = ⟨0, 0, 0⟩ ∨
            inverseIntern k.p (shiftPose (forwardTransformed (.opw k) f qs previous).2 ⟨0, 0, 0⟩) = [])) :=
  C01.inverseContinuing_sound_partial hd h

/-- [R] ordered by closeness: the returned list is sorted by the solver's cost with respect to the
reference vector (`previous`, or the constraint centres for the NaN sentinel) -/
theorem forwardTransformed_sorted (k : Opw ℝ) (f : Iso ℝ) (qs previous : J6 ℝ) (hd : k.p.dof ≠ 5) :
    (forwardTransformed (.opw k) f qs previous).1.Pairwise
      (fun a b => k.sortCost (k.reference previous) a ≤ k.sortCost (k.reference previous) b) := by
  have hd' : (k.p.dof == 5) = false := by simpa using hd
  show (k.inverseContinuing _ previous).Pairwise _
  unfold Opw.inverseContinuing
  rw [hd']
  simp only [Bool.false_eq_true, if_false]
  unfold Opw.inverseContinuing6
  simp only []
  have hp := Nearest.sortByCloseness_pairwise k
    ((shiftLoop k (f.mul (Kin.forward (.opw k) qs)) (k.reference previous) shifts []).map
      (fun s => s.normalizeNear (k.reference previous))) (k.reference previous)
  unfold Opw.filterCompliant
  cases k.cons with
  | none => exact hp
  | some c => exact hp.filter _

/-! ### Examples (hypotheses are satisfiable) -/

/-- a non-collinear triple -/
example : ¬ Collinear3 ⟨0, 0, 0⟩ ⟨1, 0, 0⟩ ⟨0, 1, 0⟩ := by
  unfold Collinear3
  intro h
  have := congrArg V3.z h
  simp only [V3.cross, V3.sub, V3.zero, lit0_real] at this
  norm_num at this

/-- a collinear triple -/
example : Collinear3 ⟨0, 0, 0⟩ ⟨1, 2, 3⟩ ⟨2, 4, 6⟩ := by
  apply collinear3_of_scale (s := 2)
  apply V3.ext' <;> simp only [V3.sub, V3.scale] <;> norm_num

/-- `frame_recovers_motion` applies, e.g. to a quarter turn about z followed by a translation -/
example : ∃ iso, frameOf (⟨0, 0, 0⟩ : V3 ℝ) ⟨1, 0, 0⟩ ⟨0, 1, 0⟩
    ((⟨⟨1, 2, 3⟩, Quat.rotZ (Real.pi / 2)⟩ : Iso ℝ).transformPoint ⟨0, 0, 0⟩)
    ((⟨⟨1, 2, 3⟩, Quat.rotZ (Real.pi / 2)⟩ : Iso ℝ).transformPoint ⟨1, 0, 0⟩)
    ((⟨⟨1, 2, 3⟩, Quat.rotZ (Real.pi / 2)⟩ : Iso ℝ).transformPoint ⟨0, 1, 0⟩) = .ok iso ∧
    iso.t = ⟨1, 2, 3⟩ := by
  have hnc : ¬ Collinear3 ⟨0, 0, 0⟩ ⟨1, 0, 0⟩ ⟨0, 1, 0⟩ := by
    unfold Collinear3
    intro h
    have := congrArg V3.z h
    simp only [V3.cross, V3.sub, V3.zero, lit0_real] at this
    norm_num at this
  obtain ⟨iso, h, -, -, ht, -⟩ :=
    frame_recovers_motion ⟨⟨1, 2, 3⟩, Quat.rotZ (Real.pi / 2)⟩ (Quat.normSq_rotZ _) _ _ _ hnc
  exact ⟨iso, h, ht⟩

end Opw.C17
