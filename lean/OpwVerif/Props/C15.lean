/-
  C15 — Jacobian (`jacobian.rs`): the numeric Jacobian is built column by column from finite
  differences of the forward pose; torques are the transpose applied to the wrench, and the
  isometry- and vector-based entry points agree.
  What is proved here:
   * [G] the structure of `compute_jacobian`, `torques`, the 6-vector extraction (definitional);
   * [R] `torquesFromVector` is the transpose of `jacMulVec` (`(Jᵀ F)·x = F·(J x)`), `jacMulVec` is
     linear;
   * [R] the geometric content of column 1 (representative joint): perturbing joint 1 by `ε` rotates
     the whole tool pose about the world z axis by `ε · sign₁`, so the finite-difference column is
     `(Rz(ε·sign₁) t − t)/ε` (linear part) and the relative rotation has matrix `Rz(ε·sign₁)`;
     as `ε → 0` the linear part tends to `ẑ × t`, the geometric Jacobian column of a revolute
     joint about `ẑ` through the origin (for `sign₁ = 1`); the angular part of column 1 is exactly
     `sign₁ · ẑ` for every step with `ε ≠ 0`, `|ε · sign₁| < π`.
  Not proved: the corresponding statements for joints 2–6 (joint 1 is the representative).
  Property theorems only; helper lemmas live in `Lemmas/MiscReal.lean`.
-/
import OpwVerif.Lemmas.MiscReal
import Mathlib.Analysis.SpecialFunctions.Trigonometric.Deriv
namespace Opw.C15
open Opw Opw.Limits Opw.MiscReal

attribute [-simp] Opw.ofNatLit_real

/-! ### 1. Torques -/

/-- the isometry-based entry point `torques(iso)`: extract the 6-vector (translation, scaled axis of
the rotation) and apply the transpose -/
def torquesFromIso {R : Type} [OpwNum R] (jac : List (Col R)) (iso : Iso R) : List R :=
  torquesFromVector jac (wrenchOfIso iso)

/-- [G] `self.matrix.transpose() * F`: entry `i` of the result is column `i` of the Jacobian dotted
with the wrench; one torque per column -/
theorem torques_transpose {R : Type} [OpwNum R] (jac : List (Col R)) (f : Col R) :
    torquesFromVector jac f = jac.map (fun c => V3.dot c.lin f.lin + V3.dot c.ang f.ang) ∧
    (torquesFromVector jac f).length = jac.length ∧
    ∀ i : Nat, (torquesFromVector jac f)[i]? =
      (jac[i]?).map (fun c => V3.dot c.lin f.lin + V3.dot c.ang f.ang) := by
  refine ⟨rfl, ?_, fun i => ?_⟩
  · simp [torquesFromVector]
  · simp [torquesFromVector]

/-- [G] the isometry entry point is the vector entry point on the extracted 6-vector … -/
theorem torques_iso_eq_vector {R : Type} [OpwNum R] (jac : List (Col R)) (iso : Iso R) :
    torquesFromIso jac iso = torquesFromVector jac (wrenchOfIso iso) := rfl

/-- [G] … and the extracted 6-vector is (translation, scaled axis of the rotation) -/
theorem wrenchOfIso_def {R : Type} [OpwNum R] (iso : Iso R) :
    (wrenchOfIso iso).lin = iso.t ∧ (wrenchOfIso iso).ang = iso.q.scaledAxis := ⟨rfl, rfl⟩

/-- [G] hence entry `i` of `torques(iso)` is `colᵢ.lin · t + colᵢ.ang · scaled_axis(q)` -/
theorem torques_iso_entry {R : Type} [OpwNum R] (jac : List (Col R)) (iso : Iso R) (i : Nat) :
    (torquesFromIso jac iso)[i]? =
      (jac[i]?).map (fun c => V3.dot c.lin iso.t + V3.dot c.ang iso.q.scaledAxis) :=
  (torques_transpose jac (wrenchOfIso iso)).2.2 i

/-- [R] transpose property (virtual work): `(Jᵀ F) · x = F · (J x)` for every joint-space vector `x` -/
theorem torques_virtual_work (jac : List (Col ℝ)) (f : Col ℝ) (x : List ℝ) :
    listDot (torquesFromVector jac f) x = Col.dot f (jacMulVec jac x) :=
  torques_dot jac f x

/-! ### 2. Columns of the numeric Jacobian; linearity of `J x` -/

/-- [G] column `i` of `compute_jacobian`: linear part = finite difference of the position divided by
`ε`, angular part = scaled axis of the relative rotation `q(θ + ε eᵢ) · q(θ)⁻¹` divided by `ε` -/
theorem jacobian_column_linear {R : Type} [OpwNum R] (fwd : J6 R → Iso R) (q : J6 R) (eps : R) (i : Nat) :
    (jacobianColumn fwd q eps i).lin =
      ((fwd (q.set i (q.get i + eps))).t.sub (fwd q).t).divs eps ∧
    (jacobianColumn fwd q eps i).ang =
      (((fwd (q.set i (q.get i + eps))).q.mul (fwd q).q.conj).scaledAxis).divs eps := ⟨rfl, rfl⟩

/-- [G] `compute_jacobian` has the six columns `0 … 5` -/
theorem computeJacobian_columns {R : Type} [OpwNum R] (fwd : J6 R → Iso R) (q : J6 R) (eps : R) :
    (computeJacobian fwd q eps).length = 6 ∧
    ∀ i : Nat, i < 6 → (computeJacobian fwd q eps)[i]? = some (jacobianColumn fwd q eps i) := by
  refine ⟨rfl, fun i hi => ?_⟩
  have : i = 0 ∨ i = 1 ∨ i = 2 ∨ i = 3 ∨ i = 4 ∨ i = 5 := by omega
  rcases this with rfl | rfl | rfl | rfl | rfl | rfl <;> rfl

/-- [G] `J x` for six columns, written out: `x₀ c₀ + x₁ c₁ + … + x₅ c₅` accumulated from zero -/
theorem jacMulVec_six {R : Type} [OpwNum R] (c0 c1 c2 c3 c4 c5 : Col R) (x0 x1 x2 x3 x4 x5 : R) :
    (jacMulVec [c0, c1, c2, c3, c4, c5] [x0, x1, x2, x3, x4, x5]).lin =
      ((((((V3.zero.add (c0.lin.scale x0)).add (c1.lin.scale x1)).add (c2.lin.scale x2)).add
        (c3.lin.scale x3)).add (c4.lin.scale x4)).add (c5.lin.scale x5)) ∧
    (jacMulVec [c0, c1, c2, c3, c4, c5] [x0, x1, x2, x3, x4, x5]).ang =
      ((((((V3.zero.add (c0.ang.scale x0)).add (c1.ang.scale x1)).add (c2.ang.scale x2)).add
        (c3.ang.scale x3)).add (c4.ang.scale x4)).add (c5.ang.scale x5)) := ⟨rfl, rfl⟩

/-- [R] `J x` is additive (vectors of equal length, e.g. both of length 6) … -/
theorem jacMulVec_add (jac : List (Col ℝ)) (x y : List ℝ) (h : x.length = y.length) :
    jacMulVec jac (List.zipWith (· + ·) x y) = (jacMulVec jac x).add (jacMulVec jac y) :=
  MiscReal.jacMulVec_add jac x y h

/-- [R] … and homogeneous -/
theorem jacMulVec_smul (jac : List (Col ℝ)) (k : ℝ) (x : List ℝ) :
    jacMulVec jac (x.map (k * ·)) = (jacMulVec jac x).scale k :=
  MiscReal.jacMulVec_smul jac k x

/-- [R] `J eᵢ` picks column `i` (shown for the first unit vector) -/
theorem jacMulVec_e0 (c0 c1 c2 c3 c4 c5 : Col ℝ) :
    jacMulVec [c0, c1, c2, c3, c4, c5] [1, 0, 0, 0, 0, 0] = c0 := by
  apply Col.ext' <;> apply V3.ext' <;>
    simp only [jacMulVec, List.zip_cons_cons, List.zip_nil_right, List.foldl_cons, List.foldl_nil,
      V3.add, V3.scale, V3.zero, lit0_real] <;> ring

/-! ### 3. Geometric content of column 1 -/

/-- [R] θ-space: adding `ε` to θ₁ multiplies the pose by `Rz(ε)` on the left — rotation matrix and
origin of the tool frame are both rotated about the world z axis (the base origin `(0,0,c₁)` is fixed) -/
theorem perturb_joint1_is_rotation (p : Params ℝ) (q : J6 ℝ) (e : ℝ) :
    rot6 (q.set 0 (q.get 0 + e)) = (M3.rz (Real.sin e) (Real.cos e)).mul (rot6 q) ∧
    org6 p (q.set 0 (q.get 0 + e)) = (M3.rz (Real.sin e) (Real.cos e)).mulVec (org6 p q) ∧
    forwardTheta p (q.set 0 (q.get 0 + e)) =
      ((M3.rz (Real.sin e) (Real.cos e)).mul (forwardTheta p q).1,
       (M3.rz (Real.sin e) (Real.cos e)).mulVec (forwardTheta p q).2) := by
  have h1 : rot6 (q.set 0 (q.get 0 + e)) = (M3.rz (Real.sin e) (Real.cos e)).mul (rot6 q) :=
    rot6_perturb q e
  have h2 : org6 p (q.set 0 (q.get 0 + e)) = (M3.rz (Real.sin e) (Real.cos e)).mulVec (org6 p q) :=
    org6_perturb p q e
  refine ⟨h1, h2, ?_⟩
  ext
  · rw [forwardTheta_rot, forwardTheta_rot]; exact h1
  · rw [forwardTheta_tr, forwardTheta_tr]; exact h2

/-- [R] `forward` itself (any sign/offset convention): adding `ε` to joint 1 rotates the tool position
about the world z axis by `ε · sign₁`, multiplies the rotation matrix by `Rz(ε · sign₁)` on the left,
and the relative rotation `q(j + ε e₁) · q(j)⁻¹` used for the angular part of column 1 is a unit
quaternion with rotation matrix exactly `Rz(ε · sign₁)`. -/
theorem forward_perturb_joint1 (p : Params ℝ) (j : J6 ℝ) (e : ℝ) :
    (forward p (j.set 0 (j.get 0 + e))).t =
      (M3.rz (Real.sin (e * p.signs.j1)) (Real.cos (e * p.signs.j1))).mulVec (forward p j).t ∧
    (forward p (j.set 0 (j.get 0 + e))).q.toMat =
      (M3.rz (Real.sin (e * p.signs.j1)) (Real.cos (e * p.signs.j1))).mul (forward p j).q.toMat ∧
    ((forward p (j.set 0 (j.get 0 + e))).q.mul (forward p j).q.conj).toMat =
      M3.rz (Real.sin (e * p.signs.j1)) (Real.cos (e * p.signs.j1)) ∧
    ((forward p (j.set 0 (j.get 0 + e))).q.mul (forward p j).q.conj).normSq = 1 := by
  have hθ : thetaOf p (j.set 0 (j.get 0 + e)) =
      withJ1 (thetaOf p j) ((thetaOf p j).j1 + e * p.signs.j1) := thetaOf_perturb p j e
  have ht : (forward p (j.set 0 (j.get 0 + e))).t =
      (M3.rz (Real.sin (e * p.signs.j1)) (Real.cos (e * p.signs.j1))).mulVec (forward p j).t := by
    show (forwardTheta p (thetaOf p (j.set 0 (j.get 0 + e)))).2 = (M3.rz _ _).mulVec (forwardTheta p (thetaOf p j)).2
    rw [hθ, forwardTheta_tr, forwardTheta_tr, org6_perturb]
  have hm0 : (forward p j).q.toMat = rot6 (thetaOf p j) := by
    show (Quat.ofMat (forwardTheta p (thetaOf p j)).1).toMat = _
    rw [forwardTheta_rot, Quat.toMat_ofMat _ (IsRot_rot6 _)]
  have hu0 : (forward p j).q.normSq = 1 := by
    show (Quat.ofMat (forwardTheta p (thetaOf p j)).1).normSq = 1
    rw [forwardTheta_rot]; exact Quat.normSq_ofMat _ (IsRot_rot6 _)
  have hm1 : (forward p (j.set 0 (j.get 0 + e))).q.toMat =
      (M3.rz (Real.sin (e * p.signs.j1)) (Real.cos (e * p.signs.j1))).mul (rot6 (thetaOf p j)) := by
    show (Quat.ofMat (forwardTheta p (thetaOf p (j.set 0 (j.get 0 + e)))).1).toMat = _
    rw [forwardTheta_rot, Quat.toMat_ofMat _ (IsRot_rot6 _), hθ, rot6_perturb]
  have hu1 : (forward p (j.set 0 (j.get 0 + e))).q.normSq = 1 := by
    show (Quat.ofMat (forwardTheta p (thetaOf p (j.set 0 (j.get 0 + e)))).1).normSq = 1
    rw [forwardTheta_rot]; exact Quat.normSq_ofMat _ (IsRot_rot6 _)
  refine ⟨ht, by rw [hm1, hm0], ?_, ?_⟩
  · rw [Quat.toMat_mul, Quat.toMat_conj, hm1, hm0, M3.mul_assoc, (IsRot_rot6 _).mt, M3.mul_one]
  · exact Quat.normSq_mul_unit _ _ hu1 (Quat.normSq_conj_unit _ hu0)

/-- [R] the linear part of column 1 of the numeric Jacobian of `forward`: the finite difference of a
rotation about the world z axis applied to the current tool position -/
theorem jacobian_column1_linear (p : Params ℝ) (j : J6 ℝ) (e : ℝ) :
    (jacobianColumn (forward p) j e 0).lin =
      (((M3.rz (Real.sin (e * p.signs.j1)) (Real.cos (e * p.signs.j1))).mulVec (forward p j).t).sub
        (forward p j).t).divs e := by
  rw [(jacobian_column_linear (forward p) j e 0).1, (forward_perturb_joint1 p j e).1]

/-- [R] the angular part of column 1 of the numeric Jacobian of `forward` is exactly `sign₁ · ẑ`, the
geometric axis of joint 1, for every step with `ε ≠ 0`, `|ε · sign₁| < π` (no limit needed: the relative
rotation is exactly a rotation about `ẑ` by `ε · sign₁`, whose scaled axis is `ε · sign₁ · ẑ`) -/
theorem jacobian_column1_angular (p : Params ℝ) (j : J6 ℝ) (e : ℝ) (he : e ≠ 0)
    (hs : |e * p.signs.j1| < Real.pi) :
    (jacobianColumn (forward p) j e 0).ang = ⟨0, 0, p.signs.j1⟩ := by
  obtain ⟨-, -, hm, hu⟩ := forward_perturb_joint1 p j e
  rw [(jacobian_column_linear (forward p) j e 0).2, scaledAxis_of_toMat_rz _ hu _ hs hm]
  apply V3.ext' <;> simp only [V3.divs]
  · exact zero_div e
  · exact zero_div e
  · field_simp

/-- [R] the geometric column of a revolute joint about `ẑ` through the origin is `ẑ × t`; it is the
derivative at `0` of `ε ↦ Rz(ε) t`, componentwise … -/
theorem rz_hasDerivAt (t : V3 ℝ) :
    HasDerivAt (fun e : ℝ => ((M3.rz (Real.sin e) (Real.cos e)).mulVec t).x) (V3.cross V3.ez t).x 0 ∧
    HasDerivAt (fun e : ℝ => ((M3.rz (Real.sin e) (Real.cos e)).mulVec t).y) (V3.cross V3.ez t).y 0 ∧
    HasDerivAt (fun e : ℝ => ((M3.rz (Real.sin e) (Real.cos e)).mulVec t).z) (V3.cross V3.ez t).z 0 := by
  have hs := Real.hasDerivAt_sin 0
  have hc := Real.hasDerivAt_cos 0
  simp only [M3.mulVec, M3.rz, V3.cross, V3.ez, lit0, lit1]
  refine ⟨?_, ?_, ?_⟩
  · have h := (((hc.mul_const t.x).add (hs.neg.mul_const t.y)).add_const (0 * t.z))
    have e1 : -Real.sin 0 * t.x + -Real.cos 0 * t.y = 0 * t.z - 1 * t.y := by simp
    rw [e1] at h
    exact h
  · have h := (((hs.mul_const t.x).add (hc.mul_const t.y)).add_const (0 * t.z))
    have e1 : Real.cos 0 * t.x + -Real.sin 0 * t.y = 1 * t.x - 0 * t.z := by simp
    rw [e1] at h
    exact h
  · have h := (hasDerivAt_const (0 : ℝ) (0 * t.x + 0 * t.y + 1 * t.z))
    have e1 : 0 * t.y - 0 * t.x = (0 : ℝ) := by simp
    rw [e1]
    exact h

/-- [R] … hence, for a robot with `sign₁ = 1`, the linear part of the numeric column 1 converges to the
geometric column `ẑ × t` as the step `ε → 0` (componentwise; `t` the current tool position) -/
theorem jacobian_column1_tendsto (p : Params ℝ) (j : J6 ℝ) (hs : p.signs.j1 = 1) :
    Filter.Tendsto (fun e : ℝ => (jacobianColumn (forward p) j e 0).lin.x)
      (nhdsWithin 0 {0}ᶜ) (nhds (V3.cross V3.ez (forward p j).t).x) ∧
    Filter.Tendsto (fun e : ℝ => (jacobianColumn (forward p) j e 0).lin.y)
      (nhdsWithin 0 {0}ᶜ) (nhds (V3.cross V3.ez (forward p j).t).y) ∧
    Filter.Tendsto (fun e : ℝ => (jacobianColumn (forward p) j e 0).lin.z)
      (nhdsWithin 0 {0}ᶜ) (nhds (V3.cross V3.ez (forward p j).t).z) := by
  obtain ⟨hx, hy, hz⟩ := rz_hasDerivAt (forward p j).t
  have h0 : (M3.rz (Real.sin 0) (Real.cos 0)).mulVec (forward p j).t = (forward p j).t := by
    apply V3.ext' <;> simp only [M3.mulVec, M3.rz, lit0, lit1, Real.sin_zero, Real.cos_zero] <;> ring
  have key : ∀ (f : V3 ℝ → ℝ) (hf : ∀ a b : V3 ℝ, ∀ e : ℝ, f ((a.sub b).divs e) = (f a - f b) / e),
      (fun e : ℝ => f (jacobianColumn (forward p) j e 0).lin) =
        slope (fun e : ℝ => f ((M3.rz (Real.sin e) (Real.cos e)).mulVec (forward p j).t)) 0 := by
    intro f hf
    funext e
    rw [jacobian_column1_linear, hs, mul_one, hf, slope_def_field, h0, sub_zero]
  refine ⟨?_, ?_, ?_⟩
  · rw [key V3.x (fun _ _ _ => rfl)]; exact hasDerivAt_iff_tendsto_slope.mp hx
  · rw [key V3.y (fun _ _ _ => rfl)]; exact hasDerivAt_iff_tendsto_slope.mp hy
  · rw [key V3.z (fun _ _ _ => rfl)]; exact hasDerivAt_iff_tendsto_slope.mp hz

/-! ### Examples (hypotheses are satisfiable) -/

/-- a robot with `sign₁ = 1` (all signs `1`, no offsets), as assumed by `jacobian_column1_tendsto` -/
example : ∃ p : Params ℝ, p.signs.j1 = 1 :=
  ⟨⟨1, 2, 3, 4, 5, 6, 7, ⟨0, 0, 0, 0, 0, 0⟩, ⟨1, 1, 1, 1, 1, 1⟩, 6⟩, rfl⟩

/-- the step hypotheses of `jacobian_column1_angular` hold for the usual small step and `sign₁ = ±1` -/
example (s : ℝ) (hs : s = 1 ∨ s = -1) : (1e-6 : ℝ) ≠ 0 ∧ |(1e-6 : ℝ) * s| < Real.pi := by
  have hp := Real.pi_gt_three
  refine ⟨by norm_num, ?_⟩
  rcases hs with rfl | rfl
  · rw [mul_one, abs_of_pos (by norm_num)]; linarith
  · rw [mul_neg, mul_one, abs_neg, abs_of_pos (by norm_num)]; linarith

/-- the transpose property on a concrete 2-column Jacobian -/
example (c0 c1 f : Col ℝ) (x0 x1 : ℝ) :
    listDot (torquesFromVector [c0, c1] f) [x0, x1] = Col.dot f (jacMulVec [c0, c1] [x0, x1]) :=
  torques_virtual_work _ _ _

/-- additivity on vectors of length 6 -/
example (jac : List (Col ℝ)) (x0 x1 x2 x3 x4 x5 y0 y1 y2 y3 y4 y5 : ℝ) :
    jacMulVec jac [x0 + y0, x1 + y1, x2 + y2, x3 + y3, x4 + y4, x5 + y5] =
      (jacMulVec jac [x0, x1, x2, x3, x4, x5]).add (jacMulVec jac [y0, y1, y2, y3, y4, y5]) :=
  jacMulVec_add jac [x0, x1, x2, x3, x4, x5] [y0, y1, y2, y3, y4, y5] rfl

end Opw.C15
