/-
  C05 — Wrist singularity (`kinematic_singularity`, the J4/J6 redistribution of
  `inverse_continuing`): a configuration is reported wrist-singular exactly when the rotation axes
  of joints 4 and 6 are collinear inside the documented 0.01 degree band, on either side of every
  multiple of π of θ5, whatever the robot's offsets and sign conventions; the recovered answer
  moves J4 and J6 by the same amount from their previous values.

  Property theorems only; helper lemmas live in `Lemmas/Wrist.lean`.
  All theorems are [R]: the model text of `Kin.lean` evaluated with exact real arithmetic.
-/
import OpwVerif.Lemmas.Wrist
import Mathlib.Analysis.Real.Pi.Bounds
namespace Opw.C05
open Opw Opw.Wrist

attribute [-simp] Opw.ofNatLit_real

/-! ### 1. The threshold constant -/

/-- the `f64` constant `SINGULARITY_ANGLE_THR` of the source, exactly -/
theorem singThr_real : (singThr : ℝ) = 6439128407179665 / 2 ^ 65 := by
  show ((Gen.singThrM : ℤ) : ℝ) * (2 : ℝ) ^ Gen.singThrE = _
  simp only [Gen.singThrM, Gen.singThrE]
  norm_num

theorem singThr_pos : (0 : ℝ) < singThr := by rw [singThr_real]; norm_num

theorem singThr_lt : (singThr : ℝ) < 1 / 1000 := by rw [singThr_real]; norm_num

theorem singThr_lt_half_pi : (singThr : ℝ) < Real.pi / 2 := by
  have := singThr_lt; have := Real.pi_gt_three; linarith

/-- the constant is the documented 0.01 degree, in radians, to within `1e-15` -/
theorem singThr_eq_hundredth_degree : |(singThr : ℝ) - 0.01 * Real.pi / 180| < 1e-15 := by
  rw [singThr_real, abs_lt]
  have h1 := Real.pi_gt_d20
  have h2 := Real.pi_lt_d20
  constructor <;> norm_num at h1 h2 ⊢ <;> linarith

/-- … in fact to within `7e-21` (a quarter of the spacing `2^-65` of doubles at that magnitude) -/
theorem singThr_eq_hundredth_degree_tight : |(singThr : ℝ) - 0.01 * Real.pi / 180| < 7e-21 := by
  rw [singThr_real, abs_lt]
  have h1 := Real.pi_gt_d20
  have h2 := Real.pi_lt_d20
  constructor <;> norm_num at h1 h2 ⊢ <;> linarith

/-! ### 2. `is_close_to_multiple_of_pi` is a two-sided band at every multiple of π -/

/-- the three run-time tests, with `rem_euclid` replaced by its real value -/
theorem isCloseToMultipleOfPi_real (v thr : ℝ) :
    isCloseToMultipleOfPi v thr = true ↔
      (v - 2 * Real.pi * ⌊v / (2 * Real.pi)⌋ < thr ∨
       2 * Real.pi - (v - 2 * Real.pi * ⌊v / (2 * Real.pi)⌋) < thr ∨
       |Real.pi - (v - 2 * Real.pi * ⌊v / (2 * Real.pi)⌋)| < thr) := by
  unfold isCloseToMultipleOfPi
  simp only [Bool.or_eq_true, decide_eq_true_eq, nabs_real, pi_def_real, lit2, or_assoc,
    remEuclid_real v Real.two_pi_pos]

/-- `is_close_to_multiple_of_pi(v, thr)` holds exactly when `v` is strictly within `thr` of some
integer multiple of π, on either side (`0 < thr < π/2`). -/
theorem isCloseToMultipleOfPi_iff (v thr : ℝ) (h0 : 0 < thr) (h1 : thr < Real.pi / 2) :
    isCloseToMultipleOfPi v thr = true ↔ ∃ k : ℤ, |v - k * Real.pi| < thr := by
  rw [isCloseToMultipleOfPi_real]
  have hpi := Real.pi_pos
  set m : ℤ := ⌊v / (2 * Real.pi)⌋ with hm
  set n : ℝ := v - 2 * Real.pi * m with hn
  have hn0 : 0 ≤ n := floorRem_nonneg v Real.two_pi_pos
  have hn1 : n < 2 * Real.pi := floorRem_lt v Real.two_pi_pos
  constructor
  · rintro (h | h | h)
    · refine ⟨2 * m, ?_⟩
      have e : v - ((2 * m : ℤ) : ℝ) * Real.pi = n := by rw [hn]; push_cast; ring
      rw [e, abs_of_nonneg hn0]; exact h
    · refine ⟨2 * m + 2, ?_⟩
      have e : v - ((2 * m + 2 : ℤ) : ℝ) * Real.pi = -(2 * Real.pi - n) := by
        rw [hn]; push_cast; ring
      rw [e, abs_neg, abs_of_pos (by linarith)]; exact h
    · refine ⟨2 * m + 1, ?_⟩
      have e : v - ((2 * m + 1 : ℤ) : ℝ) * Real.pi = -(Real.pi - n) := by
        rw [hn]; push_cast; ring
      rw [e, abs_neg]; exact h
  · rintro ⟨k, hk⟩
    -- `j = k − 2m` is the multiple of π that `n ∈ [0, 2π)` is close to: `j ∈ {0, 1, 2}`
    have e : v - (k : ℝ) * Real.pi = n - ((k - 2 * m : ℤ) : ℝ) * Real.pi := by
      rw [hn]; push_cast; ring
    rw [e] at hk
    set j : ℤ := k - 2 * m with hj
    rw [abs_lt] at hk
    have hjlo : (-1 : ℝ) < (j : ℝ) := by
      by_contra hc
      have : (j : ℝ) * Real.pi ≤ -1 * Real.pi := mul_le_mul_of_nonneg_right (not_lt.mp hc) hpi.le
      linarith
    have hjhi : (j : ℝ) < 3 := by
      by_contra hc
      have : 3 * Real.pi ≤ (j : ℝ) * Real.pi := mul_le_mul_of_nonneg_right (not_lt.mp hc) hpi.le
      linarith
    have hjlo' : -1 < j := by exact_mod_cast hjlo
    have hjhi' : j < 3 := by exact_mod_cast hjhi
    have hcases : j = 0 ∨ j = 1 ∨ j = 2 := by omega
    rcases hcases with h | h | h
    · left; rw [h] at hk; simp only [Int.cast_zero, zero_mul, sub_zero] at hk; exact hk.2
    · right; right
      rw [h] at hk; simp only [Int.cast_one, one_mul] at hk
      rw [abs_lt]; constructor <;> linarith
    · right; left
      rw [h] at hk; push_cast at hk; linarith

/-! ### 3. `kinematic_singularity` -/

/-- A configuration is reported wrist-singular exactly when θ5 (the sign- and offset-corrected
joint 5) is strictly within the threshold of a multiple of π, on either side of it. -/
theorem singular_iff_band (p : Params ℝ) (q : J6 ℝ) :
    kinematicSingularity p q = true ↔ ∃ k : ℤ, |(thetaOf p q).j5 - k * Real.pi| < singThr :=
  isCloseToMultipleOfPi_iff _ _ singThr_pos singThr_lt_half_pi

/-- offsets and sign conventions enter only through θ5: two robots/configurations with the same
θ5 get the same verdict -/
theorem singular_depends_on_theta5 (p p' : Params ℝ) (q q' : J6 ℝ)
    (h : (thetaOf p q).j5 = (thetaOf p' q').j5) :
    kinematicSingularity p q = kinematicSingularity p' q' := by
  show isCloseToMultipleOfPi (thetaOf p q).j5 singThr = isCloseToMultipleOfPi (thetaOf p' q').j5 singThr
  rw [h]

/-- the verdict is the same at θ5 and at θ5 + jπ (every multiple of π has its band) -/
theorem band_shift (x thr : ℝ) (j : ℤ) :
    (∃ k : ℤ, |x + j * Real.pi - k * Real.pi| < thr) ↔ ∃ k : ℤ, |x - k * Real.pi| < thr := by
  constructor
  · rintro ⟨k, hk⟩
    exact ⟨k - j, by rw [show x - ((k - j : ℤ) : ℝ) * Real.pi = x + j * Real.pi - k * Real.pi by
      push_cast; ring]; exact hk⟩
  · rintro ⟨k, hk⟩
    exact ⟨k + j, by rw [show x + j * Real.pi - ((k + j : ℤ) : ℝ) * Real.pi = x - k * Real.pi by
      push_cast; ring]; exact hk⟩

/-- both sides of the band: the test is symmetric in θ5 ↦ −θ5 -/
theorem band_neg (x thr : ℝ) :
    (∃ k : ℤ, |-x - k * Real.pi| < thr) ↔ ∃ k : ℤ, |x - k * Real.pi| < thr := by
  constructor
  · rintro ⟨k, hk⟩
    refine ⟨-k, ?_⟩
    have e : x - ((-k : ℤ) : ℝ) * Real.pi = -(-x - k * Real.pi) := by push_cast; ring
    rw [e, abs_neg]; exact hk
  · rintro ⟨k, hk⟩
    refine ⟨-k, ?_⟩
    have e : -x - ((-k : ℤ) : ℝ) * Real.pi = -(x - k * Real.pi) := by push_cast; ring
    rw [e, abs_neg]; exact hk

/-! ### 4. Geometry: the band is about the angle between the axes of joints 4 and 6 -/

/-- With `a4`, `a6` the z-axes (rotation axes of joints 4 and 6) of links 4 and 6 of the reference
chain at θ: `|a4 × a6|² = sin² θ5`. -/
theorem axes_collinear (θ : J6 ℝ) :
    (V3.cross ((rot4 θ).mulVec V3.ez) ((rot6 θ).mulVec V3.ez)).normSq = Real.sin θ.j5 ^ 2 :=
  cross_axes_normSq θ

/-- the axes of joints 4 and 6 are parallel exactly at the multiples of π of θ5 -/
theorem axes_collinear_iff (p : Params ℝ) (q : J6 ℝ) :
    (V3.cross ((rot4 (thetaOf p q)).mulVec V3.ez) ((rot6 (thetaOf p q)).mulVec V3.ez)).normSq = 0 ↔
      ∃ k : ℤ, (thetaOf p q).j5 = k * Real.pi := by
  rw [axes_collinear, sq_eq_zero_iff, Real.sin_eq_zero_iff]
  constructor
  · rintro ⟨k, hk⟩; exact ⟨k, hk.symm⟩
  · rintro ⟨k, hk⟩; exact ⟨k, hk.symm⟩

/-- the same statement about the link poses the code itself returns
(`forward_with_joint_poses`, entries 3 and 5 of `chain`): the z-axis of a link is its unit
quaternion applied to `e_z`. -/
theorem axes_collinear_links (p : Params ℝ) (q : J6 ℝ) :
    ∃ l4 l6, (chain p q)[3]? = some l4 ∧ (chain p q)[5]? = some l6 ∧
      (V3.cross (l4.q.rotate V3.ez) (l6.q.rotate V3.ez)).normSq = Real.sin (thetaOf p q).j5 ^ 2 := by
  obtain ⟨l1, l2, l3, l4, l5, l6, hc, -, -, -, h4, -, h6⟩ := chainTheta_links p (thetaOf p q)
  refine ⟨l4, l6, by unfold chain; rw [hc]; rfl, by unfold chain; rw [hc]; rfl, ?_⟩
  rw [Quat.rotate_eq_mulVec _ h4.unit, Quat.rotate_eq_mulVec _ h6.unit, h4.rot, h6.rot]
  exact axes_collinear _

/-- inside the band ⇔ the sine of the angle between the axes is below `sin thr`
(`0 < thr < π/2`) -/
theorem band_iff_sin (x thr : ℝ) (h0 : 0 < thr) (h1 : thr < Real.pi / 2) :
    (∃ k : ℤ, |x - k * Real.pi| < thr) ↔ |Real.sin x| < Real.sin thr := by
  have hpi := Real.pi_pos
  -- `|sin y| = sin |y|` on `[-π/2, π/2]`
  have habs : ∀ y : ℝ, |y| ≤ Real.pi / 2 → |Real.sin y| = Real.sin |y| := by
    intro y hy
    rcases abs_cases y with ⟨e, hy0⟩ | ⟨e, hy0⟩
    · rw [e, abs_of_nonneg (Real.sin_nonneg_of_nonneg_of_le_pi hy0 (by rw [e] at hy; linarith))]
    · rw [e, Real.sin_neg, abs_of_neg (Real.sin_neg_of_neg_of_neg_pi_lt hy0 (by rw [e] at hy; linarith))]
  have hshift : ∀ k : ℤ, |Real.sin (x - k * Real.pi)| = |Real.sin x| := by
    intro k
    rw [Real.sin_sub_int_mul_pi, abs_mul, abs_zpow, abs_neg, abs_one, one_zpow, one_mul]
  constructor
  · rintro ⟨k, hk⟩
    rw [← hshift k, habs _ (by linarith)]
    exact Real.strictMonoOn_sin ⟨by linarith [abs_nonneg (x - k * Real.pi)], by linarith⟩
      ⟨by linarith, by linarith⟩ hk
  · intro h
    refine ⟨round (x / Real.pi), ?_⟩
    set k := round (x / Real.pi) with hk
    have hr : |x / Real.pi - k| ≤ 1 / 2 := abs_sub_round _
    have hy : |x - k * Real.pi| ≤ Real.pi / 2 := by
      have e : x - k * Real.pi = (x / Real.pi - k) * Real.pi := by field_simp
      rw [e, abs_mul, abs_of_pos hpi]
      calc |x / Real.pi - k| * Real.pi ≤ 1 / 2 * Real.pi := mul_le_mul_of_nonneg_right hr hpi.le
        _ = Real.pi / 2 := by ring
    rw [← hshift k, habs _ hy] at h
    by_contra hc
    have := Real.strictMonoOn_sin.monotoneOn ⟨by linarith, by linarith⟩
      ⟨by linarith [abs_nonneg (x - k * Real.pi)], hy⟩ (not_lt.mp hc)
    linarith

/-- C05, geometric form: a configuration is reported wrist-singular exactly when the sine of the
angle between the rotation axes of joints 4 and 6 (the length of the cross product of the two
unit axes) is below `sin(threshold)`. -/
theorem singular_iff_axes (p : Params ℝ) (q : J6 ℝ) :
    kinematicSingularity p q = true ↔
      (V3.cross ((rot4 (thetaOf p q)).mulVec V3.ez) ((rot6 (thetaOf p q)).mulVec V3.ez)).normSq
        < Real.sin singThr ^ 2 := by
  rw [singular_iff_band, band_iff_sin _ _ singThr_pos singThr_lt_half_pi, axes_collinear,
    ← sq_abs (Real.sin _)]
  have hs : 0 ≤ Real.sin singThr :=
    Real.sin_nonneg_of_nonneg_of_le_pi singThr_pos.le (by linarith [singThr_lt_half_pi, Real.pi_pos])
  constructor
  · intro h; exact pow_lt_pow_left₀ h (abs_nonneg _) (by norm_num)
  · intro h; exact lt_of_pow_lt_pow_left₀ 2 hs h

/-! ### 5. The recovery step of `inverse_continuing` -/

/-- For a singular candidate `now`, the recovered answer keeps J1–J3 of `now` and moves J4 and J6
away from their previous values by the same amount. -/
theorem recovery_equal_shift (p : Params ℝ) (previous now : J6 ℝ)
    (hs4 : p.signs.j4 = 1 ∨ p.signs.j4 = -1) (hs6 : p.signs.j6 = 1 ∨ p.signs.j6 = -1) :
    |(singularCandidate p previous now).j4 - previous.j4| =
        |(singularCandidate p previous now).j6 - previous.j6| ∧
      (singularCandidate p previous now).j1 = now.j1 ∧
      (singularCandidate p previous now).j2 = now.j2 ∧
      (singularCandidate p previous now).j3 = now.j3 := by
  refine ⟨?_, rfl, rfl, rfl⟩
  simp only [singularCandidate, add_sub_cancel_left, abs_mul, IsSign.abs hs4, IsSign.abs hs6]

/-- In the θ5 ≈ 0 branch the sign-corrected sum J4·s4 + J6·s6 (the only combination the pose
depends on there) of the recovered answer is that of `now`, modulo whole turns. -/
theorem recovery_sum_preserved (p : Params ℝ) (previous now : J6 ℝ)
    (hs4 : p.signs.j4 = 1 ∨ p.signs.j4 = -1) (hs6 : p.signs.j6 = 1 ∨ p.signs.j6 = -1)
    (hz : areAnglesClose (now.j5 * p.signs.j5 - p.offsets.j5) 0 = true) :
    ∃ k : ℤ, (singularCandidate p previous now).j4 * p.signs.j4 +
        (singularCandidate p previous now).j6 * p.signs.j6 =
      now.j4 * p.signs.j4 + now.j6 * p.signs.j6 + 2 * Real.pi * k := by
  simp only [singularCandidate, lit0, hz, if_true, lit2]
  obtain ⟨k, hk⟩ := normPi_turn (now.j4 * p.signs.j4 + now.j6 * p.signs.j6 -
    (previous.j4 * p.signs.j4 + previous.j6 * p.signs.j6))
  refine ⟨k, ?_⟩
  rw [hk]
  have e4 := IsSign.mul_self hs4
  have e6 := IsSign.mul_self hs6
  linear_combination
    ((now.j4 * p.signs.j4 + now.j6 * p.signs.j6 -
      (previous.j4 * p.signs.j4 + previous.j6 * p.signs.j6) + 2 * Real.pi * k) / 2) * (e4 + e6)

/-- In the other branch (θ5 ≈ π, where the pose depends on J4·s4 − J6·s6) the equal shift leaves
that difference at its PREVIOUS value; the candidate is then subject to the forward cross-check of
`shiftStep`. -/
theorem recovery_diff_previous (p : Params ℝ) (previous now : J6 ℝ)
    (hs4 : p.signs.j4 = 1 ∨ p.signs.j4 = -1) (hs6 : p.signs.j6 = 1 ∨ p.signs.j6 = -1) :
    (singularCandidate p previous now).j4 * p.signs.j4 -
        (singularCandidate p previous now).j6 * p.signs.j6 =
      previous.j4 * p.signs.j4 - previous.j6 * p.signs.j6 := by
  simp only [singularCandidate, lit2]
  have e4 := IsSign.mul_self hs4
  have e6 := IsSign.mul_self hs6
  generalize (normPi _ : ℝ) / 2 = jd
  linear_combination jd * (e4 - e6)

/-! ### Non-vacuity -/

/-- a robot with mixed sign conventions and offsets -/
noncomputable def pEx : Params ℝ :=
  { a1 := 0.025, a2 := -0.035, b := 0, c1 := 0.4, c2 := 0.315, c3 := 0.365, c4 := 0.08,
    offsets := ⟨0, 0, -Real.pi / 2, 0, 0.3, Real.pi⟩, signs := ⟨1, 1, -1, -1, -1, -1⟩, dof := 6 }

example : pEx.signs.j4 = 1 ∨ pEx.signs.j4 = -1 := Or.inr rfl
example : pEx.signs.j6 = 1 ∨ pEx.signs.j6 = -1 := Or.inr rfl

/-- `J5 = −0.3` is θ5 = 0 for this robot: singular -/
example : kinematicSingularity pEx ⟨0, 0, 0, 0, -0.3, 0⟩ = true := by
  rw [singular_iff_band]
  refine ⟨0, ?_⟩
  have : (thetaOf pEx ⟨0, 0, 0, 0, -0.3, 0⟩).j5 = 0 := by
    simp only [thetaOf, pEx]; norm_num
  rw [this]; simpa using singThr_pos

/-- `J5 = 0` is θ5 = −0.3 for this robot: not singular -/
example : kinematicSingularity pEx ⟨0, 0, 0, 0, 0, 0⟩ = false := by
  rw [Bool.eq_false_iff, Ne, singular_iff_band]
  rintro ⟨k, hk⟩
  have e : (thetaOf pEx ⟨0, 0, 0, 0, 0, 0⟩).j5 = -0.3 := by
    simp only [thetaOf, pEx]; norm_num
  rw [e, abs_lt] at hk
  have h3 := Real.pi_gt_three
  have hthr := singThr_lt
  rcases le_or_gt 0 k with h | h
  · have : (0 : ℝ) ≤ (k : ℝ) * Real.pi := mul_nonneg (by exact_mod_cast h) Real.pi_pos.le
    linarith
  · have hk1 : (k : ℝ) ≤ -1 := by exact_mod_cast (by omega : k ≤ -1)
    have : (k : ℝ) * Real.pi ≤ -1 * Real.pi := mul_le_mul_of_nonneg_right hk1 Real.pi_pos.le
    linarith

end Opw.C05
