/-
  C10b — the geometric fact behind the hypothesis `PrefilterSound` of `Props/C10.lean`.
  The per-pair decision of `collisions.rs` at a positive safety distance `r` first asks whether the
  axis-aligned bounding box of the smaller shape, grown by `r` on every side (parry3d
  `Aabb::loosened`), meets the bounding box of the other shape (`Aabb::intersects`); only then the
  exact distance is computed.  Over ℝ this pre-filter is conservative: two bodies that have points
  within `r` of each other always pass it, whichever of the two boxes is the loosened one.
  Self-contained (boxes and point sets over `V3 ℝ`); all theorems of kind [R].
-/
import Mathlib.Tactic
import OpwVerif.Lemmas.GeomReal
namespace Opw.C10b
open Opw
attribute [-simp] Opw.ofNatLit_real

/-! ### Vocabulary -/

/-- an axis-aligned box (parry3d `Aabb`: `mins`, `maxs`) -/
structure Box where
  lo : V3 ℝ
  hi : V3 ℝ

/-- the point `p` lies in the box (componentwise `lo ≤ p ≤ hi`) -/
def Box.contains (b : Box) (p : V3 ℝ) : Prop :=
  (b.lo.x ≤ p.x ∧ p.x ≤ b.hi.x) ∧ (b.lo.y ≤ p.y ∧ p.y ≤ b.hi.y) ∧ (b.lo.z ≤ p.z ∧ p.z ≤ b.hi.z)

/-- parry3d `Aabb::loosened(r)`: `mins - r`, `maxs + r` in every coordinate -/
def Box.loosened (b : Box) (r : ℝ) : Box :=
  ⟨⟨b.lo.x - r, b.lo.y - r, b.lo.z - r⟩, ⟨b.hi.x + r, b.hi.y + r, b.hi.z + r⟩⟩

/-- parry3d `Aabb::intersects`: `a.mins ≤ b.maxs ∧ b.mins ≤ a.maxs` in every coordinate -/
def Box.intersects (a b : Box) : Prop :=
  (a.lo.x ≤ b.hi.x ∧ b.lo.x ≤ a.hi.x) ∧ (a.lo.y ≤ b.hi.y ∧ b.lo.y ≤ a.hi.y) ∧
    (a.lo.z ≤ b.hi.z ∧ b.lo.z ≤ a.hi.z)

/-! ### Helpers -/

/-- every coordinate of a vector is bounded by its Euclidean norm -/
private theorem abs_comp_le_norm (u : V3 ℝ) : |u.x| ≤ u.norm ∧ |u.y| ≤ u.norm ∧ |u.z| ≤ u.norm := by
  rw [V3.norm_eq, V3.normSq_eq]
  refine ⟨Real.abs_le_sqrt ?_, Real.abs_le_sqrt ?_, Real.abs_le_sqrt ?_⟩ <;>
    nlinarith [mul_self_nonneg u.x, mul_self_nonneg u.y, mul_self_nonneg u.z]

/-- the Euclidean distance is symmetric -/
private theorem norm_sub_comm (p q : V3 ℝ) : (p.sub q).norm = (q.sub p).norm := by
  rw [V3.norm_eq, V3.norm_eq, V3.normSq_eq, V3.normSq_eq]
  congr 1
  simp only [V3.sub]
  ring

/-! ### The pre-filter is conservative -/

/-- [R] `Aabb::intersects` is symmetric -/
theorem intersects_symm {a b : Box} (h : a.intersects b) : b.intersects a := by
  obtain ⟨⟨h1, h2⟩, ⟨h3, h4⟩, h5, h6⟩ := h
  exact ⟨⟨h2, h1⟩, ⟨h4, h3⟩, h6, h5⟩

/-- [R] loosening the one box or the other gives the same answer (the code loosens the box of the
shape with fewer vertices; the choice is immaterial over ℝ) -/
theorem loosened_intersects_symm (a b : Box) (r : ℝ) :
    (a.loosened r).intersects b ↔ (b.loosened r).intersects a := by
  simp only [Box.intersects, Box.loosened]
  constructor <;> rintro ⟨⟨h1, h2⟩, ⟨h3, h4⟩, h5, h6⟩ <;>
    exact ⟨⟨by linarith, by linarith⟩, ⟨by linarith, by linarith⟩, by linarith, by linarith⟩

/-- [R] loosening by a larger amount keeps an intersection (the filter is monotone in `r`) -/
theorem loosened_intersects_mono {a b : Box} {r s : ℝ} (hrs : r ≤ s)
    (h : (a.loosened r).intersects b) : (a.loosened s).intersects b := by
  simp only [Box.intersects, Box.loosened] at h ⊢
  obtain ⟨⟨h1, h2⟩, ⟨h3, h4⟩, h5, h6⟩ := h
  exact ⟨⟨by linarith, by linarith⟩, ⟨by linarith, by linarith⟩, by linarith, by linarith⟩

/-- [R] if box `a` contains a point `p`, box `b` contains a point `q` and `‖p − q‖ ≤ r`, then `a`
loosened by `r` intersects `b`: the AABB pre-filter never discards a pair within distance `r` -/
theorem prefilter_conservative {a b : Box} {p q : V3 ℝ} {r : ℝ} (hp : a.contains p)
    (hq : b.contains q) (hd : (p.sub q).norm ≤ r) : (a.loosened r).intersects b := by
  obtain ⟨hx, hy, hz⟩ := abs_comp_le_norm (p.sub q)
  have hx := abs_le.mp (hx.trans hd)
  have hy := abs_le.mp (hy.trans hd)
  have hz := abs_le.mp (hz.trans hd)
  simp only [V3.sub] at hx hy hz
  obtain ⟨⟨a1, a2⟩, ⟨a3, a4⟩, a5, a6⟩ := hp
  obtain ⟨⟨b1, b2⟩, ⟨b3, b4⟩, b5, b6⟩ := hq
  simp only [Box.intersects, Box.loosened]
  exact ⟨⟨by linarith, by linarith⟩, ⟨by linarith, by linarith⟩, by linarith, by linarith⟩

/-- [R] bodies as point sets `A`, `B` with bounding boxes `a`, `b`: if some `p ∈ A`, `q ∈ B` are
within `r`, the loosened box of EITHER body intersects the box of the other (the code loosens the
box of the body with fewer vertices, so both orders are needed) -/
theorem prefilter_conservative_sets {A B : Set (V3 ℝ)} {a b : Box} {r : ℝ}
    (hA : A ⊆ {p | a.contains p}) (hB : B ⊆ {p | b.contains p})
    (h : ∃ p ∈ A, ∃ q ∈ B, (p.sub q).norm ≤ r) :
    (a.loosened r).intersects b ∧ (b.loosened r).intersects a := by
  obtain ⟨p, hp, q, hq, hd⟩ := h
  exact ⟨prefilter_conservative (hA hp) (hB hq) hd,
    prefilter_conservative (hB hq) (hA hp) (by rw [norm_sub_comm]; exact hd)⟩

/-- [R] contrapositive, the form the code relies on: a pair rejected by the pre-filter has no two
points within `r`, i.e. the exact distance test would have answered "no collision" as well -/
theorem rejected_imp_far {A B : Set (V3 ℝ)} {a b : Box} {r : ℝ}
    (hA : A ⊆ {p | a.contains p}) (hB : B ⊆ {p | b.contains p})
    (h : ¬ (a.loosened r).intersects b) : ∀ p ∈ A, ∀ q ∈ B, r < (p.sub q).norm := by
  intro p hp q hq
  by_contra hn
  exact h (prefilter_conservative_sets hA hB ⟨p, hp, q, hq, not_lt.mp hn⟩).1

/-! ### Satisfiability / non-vacuity -/

/-- the unit cube `[0,1]³` -/
def cube0 : Box := ⟨⟨0, 0, 0⟩, ⟨1, 1, 1⟩⟩
/-- the unit cube shifted by `1.3` along `x`: a gap of `0.3` to `cube0` -/
def cube1 : Box := ⟨⟨1.3, 0, 0⟩, ⟨2.3, 1, 1⟩⟩

/-- hypotheses of `prefilter_conservative` hold on the two cubes (closest corner points, exactly
`0.3` apart), so loosened by `0.3` they intersect … -/
example : (cube0.loosened 0.3).intersects cube1 := by
  refine prefilter_conservative (p := ⟨1, 0, 0⟩) (q := ⟨1.3, 0, 0⟩) ?_ ?_ ?_
  · simp only [Box.contains, cube0]; norm_num
  · simp only [Box.contains, cube1]; norm_num
  · rw [V3.norm_eq, V3.normSq_eq]
    simp only [V3.sub]
    exact Real.sqrt_le_iff.mpr ⟨by norm_num, by norm_num⟩

/-- … and the set version on the two singleton bodies, in both orders … -/
example : (cube0.loosened 0.3).intersects cube1 ∧ (cube1.loosened 0.3).intersects cube0 := by
  refine prefilter_conservative_sets (A := {⟨1, 0, 0⟩}) (B := {⟨1.3, 0, 0⟩}) ?_ ?_
    ⟨_, rfl, _, rfl, ?_⟩
  · rintro _ rfl; show cube0.contains _; simp only [Box.contains, cube0]; norm_num
  · rintro _ rfl; show cube1.contains _; simp only [Box.contains, cube1]; norm_num
  · rw [V3.norm_eq, V3.normSq_eq]
    simp only [V3.sub]
    exact Real.sqrt_le_iff.mpr ⟨by norm_num, by norm_num⟩

/-- … while loosened by only `0.2` they do not: the filter does reject pairs (not vacuous) -/
example : ¬ (cube0.loosened 0.2).intersects cube1 := by
  simp only [Box.intersects, Box.loosened, cube0, cube1]; norm_num

end Opw.C10b
