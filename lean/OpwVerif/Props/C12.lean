/-
  C12 — Cartesian stroke planning (`path_plan/cartesian.rs`; model `Cartesian.lean`):
  whenever stroke planning succeeds, every waypoint is free of collisions, the path leads from the
  given start configuration to the strategy point (a solution of the landing pose) flagged LAND, the
  stroke and parking poses appear in order with their flags and are inverse-kinematics solutions of
  those poses, every Cartesian waypoint solves a pose on the straight segment between the poses it
  interpolates, consecutive Cartesian waypoints pass the configured transition-cost test, and
  interpolated waypoints are present only when requested.  Whether planning succeeds does not depend
  on which successful strategy the parallel search reports.

  Everything is proved for ALL inverse-kinematics functions `ik`, ALL joint-space planners `rrt`,
  ALL fallbacks `closeWithRrt` (items 5, 6; items 3, 4 concern the transitions that need no random
  re-planning, i.e. `closeWithRrt := fun _ _ => none`), ALL collision verdicts `collides` and ALL pose
  lists of any length.
  Kinds: [G] generic (any number type `R`; holds of the Float reading itself),
         [R] real arithmetic (the model text evaluated at `ℝ`).
  "Within joint limits" and "reproduced by forward kinematics" are facts about the members of
  `ik pose prev` (properties of the inverse kinematics, C01/C03/C05); here every Cartesian waypoint
  is shown to BE such a member (`cartesianTrace_all_ik`, `stroke_plan_keyframes`), and
  `stroke_plan_keyframes_fk` transports any such fact (`fk j = pose` for `j ∈ ik pose prev`) to the
  waypoints.  Vocabulary (`Bisect`, `CostOk`, `Realises`, …) and helper lemmas: `Lemmas/CartLemmas.lean`.
-/
import OpwVerif.Lemmas.CartLemmas
namespace Opw.C12
open Opw Opw.Cart

attribute [-simp] Opw.ofNatLit_real

section Generic
variable {R : Type} [OpwNum R]

/-! ### 6. `plan`: success does not depend on the scheduler -/

omit [OpwNum R] in
/-- [G] for EVERY `choice` (which successful strategy the parallel `find_map_any` reports): planning
succeeds iff the start is collision free and some strategy succeeds on its own -/
theorem plan_schedule_independent (collidesFrom : Bool) (strategies : List (J6 R))
    (outcome : J6 R → Option (List (AJoints R))) (choice : Nat) :
    (planWith collidesFrom strategies outcome choice).isSome
      = (!collidesFrom && strategies.any (fun s => (outcome s).isSome)) :=
  planWith_isSome collidesFrom strategies outcome choice

omit [OpwNum R] in
/-- [G] two schedules agree on success -/
theorem plan_success_same_for_all_choices (collidesFrom : Bool) (strategies : List (J6 R))
    (outcome : J6 R → Option (List (AJoints R))) (c₁ c₂ : Nat) :
    (planWith collidesFrom strategies outcome c₁).isSome
      = (planWith collidesFrom strategies outcome c₂).isSome := by
  rw [plan_schedule_independent, plan_schedule_independent]

omit [OpwNum R] in
/-- [G] whatever is returned is the outcome of one of the strategies (and the start did not collide) -/
theorem plan_returns_strategy_outcome (collidesFrom : Bool) (strategies : List (J6 R))
    (outcome : J6 R → Option (List (AJoints R))) (choice : Nat) (tr : List (AJoints R))
    (h : planWith collidesFrom strategies outcome choice = some tr) :
    collidesFrom = false ∧ ∃ s ∈ strategies, outcome s = some tr :=
  planWith_some collidesFrom strategies outcome choice tr h

/-! ### 5. `probe_strategy` -/

/-- [G] a successful probe: (a) the stop flag was not raised; (b) every waypoint of the unfiltered
trace, hence every returned waypoint, is collision free; (d) the returned list is the whole trace when
interpolated waypoints are requested and otherwise contains no waypoint flagged LIN_INTERP -/
theorem probeStrategy_spec (cfg : CartCfg R) (ik : Iso R → J6 R → List (J6 R)) (half : R)
    (rrt : J6 R → J6 R → Option (List (J6 R)))
    (closeWithRrt : J6 R → APose R → Option (List (AJoints R)))
    (collides : J6 R → Bool) (stopped : Bool) (from_ strategy : J6 R) (poses : List (APose R))
    (out : List (AJoints R))
    (h : probeStrategy cfg ik half rrt closeWithRrt collides stopped from_ strategy poses = some out) :
    stopped = false ∧ (∀ s ∈ out, collides s.joints = false) ∧
    ∃ onboarding trace, rrt from_ strategy = some onboarding ∧
      cartesianTrace cfg ik half closeWithRrt poses
        ((onboarding.take (onboarding.length - 1)).map (fun j => (⟨j, flagOnboarding⟩ : AJoints R))
          ++ [⟨strategy, flagLand⟩]) = some trace ∧
      (∀ s ∈ trace, collides s.joints = false) ∧
      (cfg.includeLinearInterpolation = true → out = trace) ∧
      (cfg.includeLinearInterpolation = false →
        out = trace.filter (fun s => !(hasFlag s.flags flagLinInterp)) ∧
        ∀ s ∈ out, hasFlag s.flags flagLinInterp = false) := by
  obtain ⟨onboarding, trace, hr, ht, hs, hc, ho⟩ := probeStrategy_some _ _ _ _ _ _ _ _ _ _ _ h
  have hout : ∀ s ∈ out, s ∈ trace := by
    intro s hs
    rw [ho] at hs
    split at hs
    · exact hs
    · exact (List.mem_filter.1 hs).1
  refine ⟨hs, fun s hs => hc s (hout s hs), onboarding, trace, hr, ht, hc, ?_, ?_⟩
  · intro hi; rw [ho, hi]; rfl
  · intro hi
    rw [hi] at ho
    simp only [Bool.false_eq_true, if_false] at ho
    refine ⟨ho, ?_⟩
    intro s hs
    rw [ho] at hs
    simpa using (List.mem_filter.1 hs).2

/-- [G] (c) shape of the result: the onboarding waypoints (all nodes of the RRT path but the last, flagged
ONBOARDING), then the strategy point flagged LAND, then the Cartesian part; no waypoint of the first two
groups is ever filtered out -/
theorem probeStrategy_onboarding (cfg : CartCfg R) (ik : Iso R → J6 R → List (J6 R)) (half : R)
    (rrt : J6 R → J6 R → Option (List (J6 R)))
    (closeWithRrt : J6 R → APose R → Option (List (AJoints R)))
    (collides : J6 R → Bool) (stopped : Bool) (from_ strategy : J6 R) (poses : List (APose R))
    (out : List (AJoints R))
    (h : probeStrategy cfg ik half rrt closeWithRrt collides stopped from_ strategy poses = some out) :
    ∃ onboarding rest, rrt from_ strategy = some onboarding ∧
      out = (onboarding.take (onboarding.length - 1)).map (fun j => (⟨j, flagOnboarding⟩ : AJoints R))
              ++ ⟨strategy, flagLand⟩ :: rest := by
  obtain ⟨onboarding, ext, hr, _, ho⟩ := probeStrategy_shape _ _ _ _ _ _ _ _ _ _ _ h
  exact ⟨onboarding, _, hr, by rw [ho, List.append_assoc]; rfl⟩

/-- [G] (c) with the RRT contract (C13: a returned path starts at the start and ends at the goal): the
first waypoint of the result has the joints `from_`; when the onboarding path has at least two nodes it
is `⟨from_, ONBOARDING⟩`, and the RRT path ends at the strategy point -/
theorem probeStrategy_starts_at_from (cfg : CartCfg R) (ik : Iso R → J6 R → List (J6 R)) (half : R)
    (rrt : J6 R → J6 R → Option (List (J6 R)))
    (closeWithRrt : J6 R → APose R → Option (List (AJoints R)))
    (collides : J6 R → Bool) (stopped : Bool) (from_ strategy : J6 R) (poses : List (APose R))
    (out : List (AJoints R))
    (hrrt : ∀ a b p, rrt a b = some p → p.head? = some a ∧ p.getLast? = some b)
    (h : probeStrategy cfg ik half rrt closeWithRrt collides stopped from_ strategy poses = some out) :
    ∃ onboarding rest, rrt from_ strategy = some onboarding ∧
      onboarding.head? = some from_ ∧ onboarding.getLast? = some strategy ∧
      out = (onboarding.take (onboarding.length - 1)).map (fun j => (⟨j, flagOnboarding⟩ : AJoints R))
              ++ ⟨strategy, flagLand⟩ :: rest ∧
      (out.head?).map (·.joints) = some from_ ∧
      (2 ≤ onboarding.length → out.head? = some ⟨from_, flagOnboarding⟩) := by
  obtain ⟨onboarding, ext, hr, _, ho⟩ := probeStrategy_shape _ _ _ _ _ _ _ _ _ _ _ h
  obtain ⟨hh, hl⟩ := hrrt _ _ _ hr
  have := onb_head onboarding from_ strategy
    (if cfg.includeLinearInterpolation then ext else ext.filter keepW) hh hl
  rw [← ho] at this
  exact ⟨onboarding, _, hr, hh, hl, by rw [ho, List.append_assoc]; rfl, this.1, this.2⟩

/-! ### 3. `step_adaptive_linear_transition` -/

/-- [G] a successful transition yields a non-empty list of joint vectors; every consecutive pair along
`starting :: l` passed the transition-cost test; every element is an inverse-kinematics solution of some
pose, continued from some previous joints; the LAST element solves the target pose itself -/
theorem stepAdaptive_spec (cfg : CartCfg R) (ik : Iso R → J6 R → List (J6 R)) (half : R)
    (fuel depth : Nat) (starting : J6 R) (from_ to_ : APose R) (l : List (J6 R))
    (h : stepAdaptive cfg ik half fuel depth starting from_ to_ = some l) :
    l ≠ [] ∧
    List.IsChain (fun x y => decide (transitionCosts x y cfg.coefficients ≤ cfg.maxTransitionCost) = true)
      (starting :: l) ∧
    (∀ j ∈ l, ∃ pose prev, j ∈ ik pose prev) ∧
    ∃ last prev', l.getLast? = some last ∧ last ∈ ik to_.pose prev' := by
  obtain ⟨hc, init, last, rfl, hm⟩ := stepAdaptive_chain cfg ik half fuel depth starting from_ to_ l h
  refine ⟨by simp, hc.imp (fun _ _ h => h.1), ?_, last, _, by simp, hm⟩
  intro j hj
  obtain ⟨x, _, hx⟩ := isChain_pred _ _ hc j hj
  obtain ⟨_, p, _, hp⟩ := hx
  exact ⟨p.pose, x, hp⟩

/-- [G] sharper form: every element passed the cost test against, and is a solution CONTINUED FROM, its
immediate predecessor, and the pose it solves is the target or a pose obtained from the segment
`from_`–`to_` by repeated bisection (`Bisect`); the last element solves `to_.pose` continued from the
element before it -/
theorem stepAdaptive_spec_strong (cfg : CartCfg R) (ik : Iso R → J6 R → List (J6 R)) (half : R)
    (fuel depth : Nat) (starting : J6 R) (from_ to_ : APose R) (l : List (J6 R))
    (h : stepAdaptive cfg ik half fuel depth starting from_ to_ = some l) :
    List.IsChain (fun x y =>
        decide (transitionCosts x y cfg.coefficients ≤ cfg.maxTransitionCost) = true ∧
        ∃ p, Bisect half from_ to_ p ∧ y ∈ ik p.pose x) (starting :: l) ∧
    ∃ init last, l = init ++ [last] ∧ last ∈ ik to_.pose ((starting :: init).getLast (by simp)) :=
  stepAdaptive_chain cfg ik half fuel depth starting from_ to_ l h

/-- [G] a bisection pose is the target itself or carries exactly the flag LIN_INTERP -/
theorem bisect_pose_flags (half : R) (a b p : APose R) (h : Bisect half a b p) :
    p = b ∨ p.flags = flagLinInterp := bisect_flags half a b p h

/-! ### 1. Densification -/

/-- the four pose flags are different bit values -/
theorem flags_distinct :
    flagLinInterp ≠ flagLand ∧ flagLinInterp ≠ flagTrace ∧ flagLinInterp ≠ flagPark ∧
    flagLand ≠ flagTrace ∧ flagLand ≠ flagPark ∧ flagTrace ≠ flagPark ∧
    hasFlag flagLand flagLinInterp = false ∧ hasFlag flagTrace flagLinInterp = false ∧
    hasFlag flagPark flagLinInterp = false ∧ hasFlag flagLinInterp flagLinInterp = true := by decide

/-- [G] every pose produced by `add_intermediate_poses` carries exactly the flag LIN_INTERP -/
theorem intermediatePoses_flags (a b : Iso R) (sm sr : R) (ofNat : Nat → R) :
    ∀ p ∈ intermediatePoses a b sm sr ofNat, p.flags = flagLinInterp :=
  Cart.intermediatePoses_flags a b sm sr ofNat

/-- [G] number of intermediate poses: one less than the number of steps -/
theorem intermediatePoses_length (a b : Iso R) (sm sr : R) (ofNat : Nat → R) :
    (intermediatePoses a b sm sr ofNat).length
      = max (max (OpwNum.ceilNat ((b.t.sub a.t).norm / sm))
                 (OpwNum.ceilNat ((b.q.mul a.q.conj).angle / sr))) 1 - 1 :=
  Cart.intermediatePoses_length a b sm sr ofNat

/-- [G] the densified list starts with the landing pose flagged LAND, ends with the parking pose flagged
PARK, every pose in between carries LIN_INTERP or TRACE, and removing the poses flagged LIN_INTERP leaves
exactly land, the stroke steps flagged TRACE in order, park -/
theorem withIntermediatePoses_shape (land : Iso R) (steps : List (Iso R)) (park : Iso R) (sm sr : R)
    (ofNat : Nat → R) :
    (∃ mid, withIntermediatePoses land steps park sm sr ofNat
        = ⟨land, flagLand⟩ :: (mid ++ [⟨park, flagPark⟩]) ∧
        ∀ p ∈ mid, p.flags = flagLinInterp ∨ p.flags = flagTrace) ∧
    (withIntermediatePoses land steps park sm sr ofNat).filter
        (fun p => !(hasFlag p.flags flagLinInterp))
      = ⟨land, flagLand⟩ :: (steps.map (fun s => ⟨s, flagTrace⟩) ++ [⟨park, flagPark⟩]) := by
  refine ⟨⟨_, withIntermediatePoses_eq land steps park sm sr ofNat, ?_⟩,
    withIntermediatePoses_filter land steps park sm sr ofNat⟩
  have : ∀ (steps : List (Iso R)) (prev : Iso R),
      ∀ p ∈ withIntermediatePoses.stroke park (fun a b => intermediatePoses a b sm sr ofNat) prev steps,
        p.flags = flagLinInterp ∨ p.flags = flagTrace := by
    intro steps
    induction steps with
    | nil =>
      intro prev p hp
      rw [stroke_nil] at hp
      exact Or.inl (Cart.intermediatePoses_flags _ _ _ _ _ p hp)
    | cons s rest ih =>
      intro prev p hp
      rw [stroke_cons, List.mem_append, List.mem_append, List.mem_singleton] at hp
      rcases hp with (hp | rfl) | hp
      · exact Or.inl (Cart.intermediatePoses_flags _ _ _ _ _ p hp)
      · exact Or.inr rfl
      · exact ih _ p hp
  exact this steps land

/-- [G] the densified list, unrolled: between two consecutive key poses stand exactly their
intermediate poses -/
theorem withIntermediatePoses_nil (land park : Iso R) (sm sr : R) (ofNat : Nat → R) :
    withIntermediatePoses land [] park sm sr ofNat
      = ⟨land, flagLand⟩ :: (intermediatePoses land park sm sr ofNat ++ [⟨park, flagPark⟩]) := by
  rw [withIntermediatePoses_eq, stroke_nil]

theorem withIntermediatePoses_cons (land s : Iso R) (rest : List (Iso R)) (park : Iso R) (sm sr : R)
    (ofNat : Nat → R) :
    withIntermediatePoses land (s :: rest) park sm sr ofNat
      = ⟨land, flagLand⟩ :: (intermediatePoses land s sm sr ofNat ++
          ⟨s, flagTrace⟩ :: (withIntermediatePoses s rest park sm sr ofNat).tail) := by
  rw [withIntermediatePoses_eq, withIntermediatePoses_eq, stroke_cons]
  simp

/-! ### 4. The Cartesian part of `probe_strategy` -/

/-- [G] flags of the waypoints of one transition: all but the last get
`clear(clear(set(toFlags, LIN_INTERP), TRACE), PARK)`, the last gets `toFlags` -/
theorem extensionFlags_eq (toFlags n : Nat) :
    extensionFlags toFlags (n + 1)
      = List.replicate n (clearFlag (clearFlag (setFlag toFlags flagLinInterp) flagTrace) flagPark)
          ++ [toFlags] := extensionFlags_succ toFlags n

/-- the flags of a non-final waypoint contain LIN_INTERP and neither TRACE nor PARK, for EVERY `toFlags` -/
theorem interFlags_hasFlag (f : Nat) :
    hasFlag (clearFlag (clearFlag (setFlag f flagLinInterp) flagTrace) flagPark) flagLinInterp = true ∧
    hasFlag (clearFlag (clearFlag (setFlag f flagLinInterp) flagTrace) flagPark) flagTrace = false ∧
    hasFlag (clearFlag (clearFlag (setFlag f flagLinInterp) flagTrace) flagPark) flagPark = false :=
  ⟨hasFlag_inter_lin f, hasFlag_inter_trace f, hasFlag_inter_park f⟩

/-- for the flags that occur as targets they are exactly LIN_INTERP -/
theorem interFlags_values :
    clearFlag (clearFlag (setFlag flagTrace flagLinInterp) flagTrace) flagPark = flagLinInterp ∧
    clearFlag (clearFlag (setFlag flagPark flagLinInterp) flagTrace) flagPark = flagLinInterp ∧
    clearFlag (clearFlag (setFlag flagLinInterp flagLinInterp) flagTrace) flagPark = flagLinInterp := by
  decide

/-- [G] the trace only grows, whatever the fallback does -/
theorem cartesianTrace_prefix (cfg : CartCfg R) (ik : Iso R → J6 R → List (J6 R)) (half : R)
    (closeWithRrt : J6 R → APose R → Option (List (AJoints R)))
    (poses : List (APose R)) (trace0 tr : List (AJoints R))
    (h : cartesianTrace cfg ik half closeWithRrt poses trace0 = some tr) :
    ∃ ext, tr = trace0 ++ ext := Cart.cartesianTrace_prefix cfg ik half closeWithRrt poses trace0 tr h

/-- [G] without random re-planning: the result is `trace0` followed by one non-empty block of waypoints
per consecutive pose pair `(from_, to_)`, in order.  The last waypoint of a block carries exactly
`to_.flags` and solves `to_.pose`; the earlier ones carry the interpolation flags (LIN_INTERP set, TRACE
and PARK clear) and solve bisection poses of the segment `from_`–`to_`.  Along the whole appended part,
starting at the last waypoint of `trace0`, every waypoint passed the transition-cost test against its
predecessor and is an inverse-kinematics solution continued from it. -/
theorem cartesianTrace_spec (cfg : CartCfg R) (ik : Iso R → J6 R → List (J6 R)) (half : R)
    (poses : List (APose R)) (trace0 tr : List (AJoints R))
    (h : cartesianTrace cfg ik half (fun _ _ => none) poses trace0 = some tr) :
    ∃ segs : List (List (AJoints R)), tr = trace0 ++ segs.flatten ∧
      List.Forall₂ (fun (ft : APose R × APose R) seg =>
          ∃ init last, seg = init ++ [last] ∧ last.flags = ft.2.flags ∧
            (∃ prev, last.joints ∈ ik ft.2.pose prev) ∧
            ∀ w ∈ init,
              w.flags = clearFlag (clearFlag (setFlag ft.2.flags flagLinInterp) flagTrace) flagPark ∧
              hasFlag w.flags flagLinInterp = true ∧ hasFlag w.flags flagTrace = false ∧
              hasFlag w.flags flagPark = false ∧
              ∃ p prev, Bisect half ft.1 ft.2 p ∧ w.joints ∈ ik p.pose prev)
        (poses.zip poses.tail) segs ∧
      ∀ last, trace0.getLast? = some last →
        List.IsChain (fun x y =>
            decide (transitionCosts x.joints y.joints cfg.coefficients ≤ cfg.maxTransitionCost) = true ∧
            ∃ pose, y.joints ∈ ik pose x.joints) (last :: segs.flatten) := by
  obtain ⟨segs, htr, hf, hc⟩ := cartesianTrace_segs cfg ik half poses trace0 tr h
  refine ⟨segs, htr, hf.imp ?_, hc⟩
  rintro ⟨from_, to_⟩ seg ⟨init, last, e, hl, hp, hi⟩
  refine ⟨init, last, e, hl, hp, ?_⟩
  intro w hw
  obtain ⟨hwf, hb⟩ := hi w hw
  refine ⟨hwf, ?_, ?_, ?_, hb⟩
  · rw [hwf]; exact hasFlag_inter_lin _
  · rw [hwf]; exact hasFlag_inter_trace _
  · rw [hwf]; exact hasFlag_inter_park _

/-- [G] corollary: for every pose after the first there is a waypoint in the appended part carrying
exactly its flags and solving it, in the same order as the poses -/
theorem cartesianTrace_keys_in_order (cfg : CartCfg R) (ik : Iso R → J6 R → List (J6 R)) (half : R)
    (poses : List (APose R)) (trace0 tr : List (AJoints R))
    (h : cartesianTrace cfg ik half (fun _ _ => none) poses trace0 = some tr) :
    ∃ ext ws, tr = trace0 ++ ext ∧ ws.Sublist ext ∧
      List.Forall₂ (fun to_ w => w.flags = to_.flags ∧ ∃ prev, w.joints ∈ ik to_.pose prev)
        poses.tail ws :=
  cartesianTrace_keys cfg ik half poses trace0 tr h

/-- [G] corollary: every appended waypoint is a member of some `ik pose prev` (so every property of the
inverse-kinematics solutions — joint limits, forward kinematics — holds of it) -/
theorem cartesianTrace_all_ik (cfg : CartCfg R) (ik : Iso R → J6 R → List (J6 R)) (half : R)
    (poses : List (APose R)) (trace0 tr : List (AJoints R))
    (h : cartesianTrace cfg ik half (fun _ _ => none) poses trace0 = some tr) :
    ∃ ext, tr = trace0 ++ ext ∧ ∀ w ∈ ext, ∃ pose prev, w.joints ∈ ik pose prev :=
  Cart.cartesianTrace_all_ik cfg ik half poses trace0 tr h

/-! ### The stroke as a whole -/

/-- [G] a successful probe of the densified stroke, without random re-planning: the result is the
onboarding waypoints, the strategy point flagged LAND, and a rest in which waypoints carrying TRACE for
each stroke step and PARK for the parking pose appear IN ORDER, each an inverse-kinematics solution of its
pose — whether or not the interpolated waypoints are kept -/
theorem stroke_plan_keyframes (cfg : CartCfg R) (ik : Iso R → J6 R → List (J6 R)) (half : R)
    (rrt : J6 R → J6 R → Option (List (J6 R))) (collides : J6 R → Bool) (stopped : Bool)
    (from_ strategy : J6 R) (land : Iso R) (steps : List (Iso R)) (park : Iso R) (sm sr : R)
    (ofNat : Nat → R) (out : List (AJoints R))
    (h : probeStrategy cfg ik half rrt (fun _ _ => none) collides stopped from_ strategy
          (withIntermediatePoses land steps park sm sr ofNat) = some out) :
    ∃ onboarding rest ws, rrt from_ strategy = some onboarding ∧
      out = (onboarding.take (onboarding.length - 1)).map (fun j => (⟨j, flagOnboarding⟩ : AJoints R))
              ++ [⟨strategy, flagLand⟩] ++ rest ∧
      ws.Sublist rest ∧
      List.Forall₂ (fun (kp : APose R) w => w.flags = kp.flags ∧ ∃ prev, w.joints ∈ ik kp.pose prev)
        (steps.map (fun s => ⟨s, flagTrace⟩) ++ [⟨park, flagPark⟩]) ws :=
  stroke_keyframes cfg ik half rrt collides stopped from_ strategy land steps park sm sr ofNat out h

/-- [G] if the inverse kinematics is sound for a forward kinematics `fk` (C01), the key waypoints are
reproduced by forward kinematics -/
theorem stroke_plan_keyframes_fk (cfg : CartCfg R) (ik : Iso R → J6 R → List (J6 R)) (half : R)
    (rrt : J6 R → J6 R → Option (List (J6 R))) (collides : J6 R → Bool) (stopped : Bool)
    (from_ strategy : J6 R) (land : Iso R) (steps : List (Iso R)) (park : Iso R) (sm sr : R)
    (ofNat : Nat → R) (out : List (AJoints R))
    (fk : J6 R → Iso R) (hik : ∀ pose prev j, j ∈ ik pose prev → fk j = pose)
    (h : probeStrategy cfg ik half rrt (fun _ _ => none) collides stopped from_ strategy
          (withIntermediatePoses land steps park sm sr ofNat) = some out) :
    ∃ ws, ws.Sublist out ∧
      List.Forall₂ (fun (kp : APose R) w => w.flags = kp.flags ∧ fk w.joints = kp.pose)
        (steps.map (fun s => ⟨s, flagTrace⟩) ++ [⟨park, flagPark⟩]) ws := by
  obtain ⟨onboarding, rest, ws, _, ho, hs, hf⟩ :=
    stroke_plan_keyframes cfg ik half rrt collides stopped from_ strategy land steps park sm sr ofNat out h
  refine ⟨ws, ?_, hf.imp (fun kp w hw => ⟨hw.1, hw.2.elim fun prev hp => hik _ _ _ hp⟩)⟩
  rw [ho]
  exact hs.trans (List.sublist_append_right _ _)

end Generic

/-! ### 2. [R] Straight segments -/

/-- [R] the translation of every intermediate pose is a convex combination strictly between the
endpoints: `start.t + s·(end.t − start.t)` with `0 < s < 1` (`s = i / steps`) -/
theorem intermediate_on_segment (start end_ : Iso ℝ) (sm sr : ℝ) :
    ∀ p ∈ intermediatePoses start end_ sm sr (fun n => (n : ℝ)),
      ∃ s : ℝ, 0 < s ∧ s < 1 ∧ p.pose.t = start.t.add ((end_.t.sub start.t).scale s) :=
  Cart.intermediate_on_segment start end_ sm sr

/-- [R] `AnnotatedPose::interpolate`: the translation is `a.t·(1−p) + b.t·p` -/
theorem interpolate_translation (a b : APose ℝ) (p : ℝ) :
    (a.interpolate b p).pose.t = (a.pose.t.scale (1 - p)).add (b.pose.t.scale p) :=
  interpolate_t_real a b p

/-- [R] … which for `0 ≤ p ≤ 1` is the point `a.t + p·(b.t − a.t)` of the segment -/
theorem interpolate_on_segment (a b : APose ℝ) (p : ℝ) (h0 : 0 ≤ p) (h1 : p ≤ 1) :
    ∃ s : ℝ, 0 ≤ s ∧ s ≤ 1 ∧
      (a.interpolate b p).pose.t = a.pose.t.add ((b.pose.t.sub a.pose.t).scale s) :=
  ⟨p, h0, h1, interpolate_t_seg a b p⟩

/-- [R] every bisection pose of a segment lies on the segment (for a bisection parameter in `[0, 1]`) -/
theorem bisect_on_segment (half : ℝ) (h0 : 0 ≤ half) (h1 : half ≤ 1) (a b p : APose ℝ)
    (h : Bisect half a b p) :
    ∃ s : ℝ, 0 ≤ s ∧ s ≤ 1 ∧ p.pose.t = a.pose.t.add ((b.pose.t.sub a.pose.t).scale s) :=
  Cart.bisect_on_segment half h0 h1 a b p h

/-- [R] every Cartesian waypoint lies on the straight segment between the poses it interpolates: each
waypoint appended by the Cartesian part (no random re-planning) for the pose pair `(from_, to_)` is an
inverse-kinematics solution of a pose whose translation is `from_.t + s·(to_.t − from_.t)`, `0 ≤ s ≤ 1` -/
theorem cartesianTrace_on_segments (cfg : CartCfg ℝ) (ik : Iso ℝ → J6 ℝ → List (J6 ℝ)) (half : ℝ)
    (h0 : 0 ≤ half) (h1 : half ≤ 1)
    (poses : List (APose ℝ)) (trace0 tr : List (AJoints ℝ))
    (h : cartesianTrace cfg ik half (fun _ _ => none) poses trace0 = some tr) :
    ∃ segs : List (List (AJoints ℝ)), tr = trace0 ++ segs.flatten ∧
      List.Forall₂ (fun (ft : APose ℝ × APose ℝ) seg =>
          ∀ w ∈ seg, ∃ (p : APose ℝ) (prev : J6 ℝ) (s : ℝ), w.joints ∈ ik p.pose prev ∧ 0 ≤ s ∧ s ≤ 1 ∧
            p.pose.t = ft.1.pose.t.add ((ft.2.pose.t.sub ft.1.pose.t).scale s))
        (poses.zip poses.tail) segs := by
  obtain ⟨segs, htr, hf, _⟩ := cartesianTrace_segs cfg ik half poses trace0 tr h
  exact ⟨segs, htr, hf.imp (fun ft seg hs => segOk_on_segment ik half h0 h1 ft.1 ft.2 seg hs)⟩

/-! ### 7. Non-vacuity -/

section Examples
variable {R : Type} [OpwNum R]

/-- the first solution within the cost is taken -/
example (cfg : CartCfg R) (ik : Iso R → J6 R → List (J6 R)) (half : R) (fuel depth : Nat)
    (starting next : J6 R) (from_ to_ : APose R) (more : List (J6 R))
    (hik : ik to_.pose starting = next :: more)
    (hc : transitionCosts starting next cfg.coefficients ≤ cfg.maxTransitionCost) :
    stepAdaptive cfg ik half (fuel + 1) depth starting from_ to_ = some [next] := by
  simp [stepAdaptive, hik, hc]

/-- at the recursion limit a transition that is too expensive fails -/
example (cfg : CartCfg R) (ik : Iso R → J6 R → List (J6 R)) (half : R) (fuel : Nat)
    (starting : J6 R) (from_ to_ : APose R) (hik : ik to_.pose starting = []) :
    stepAdaptive cfg ik half (fuel + 1) cfg.recursionDepth starting from_ to_ = none := by
  simp [stepAdaptive, hik]

/-- one transition of the Cartesian part: the new waypoint carries the flags of the target -/
example (cfg : CartCfg R) (ik : Iso R → J6 R → List (J6 R)) (half : R)
    (cw : J6 R → APose R → Option (List (AJoints R)))
    (j next : J6 R) (p q : APose R) (hik : ik q.pose j = [next])
    (hc : transitionCosts j next cfg.coefficients ≤ cfg.maxTransitionCost) :
    cartesianTrace cfg ik half cw [p, q] [⟨j, flagLand⟩] = some [⟨j, flagLand⟩, ⟨next, q.flags⟩] := by
  simp [cartesianTrace, stepAdaptive, hik, hc, extensionFlags]

/-- a probe with a two-node onboarding path and nothing to trace -/
example (cfg : CartCfg R) (ik : Iso R → J6 R → List (J6 R)) (half : R)
    (cw : J6 R → APose R → Option (List (AJoints R))) (a b : J6 R) (p : APose R) :
    probeStrategy cfg ik half (fun x y => some [x, y]) cw (fun _ => false) false a b [p]
      = some [⟨a, flagOnboarding⟩, ⟨b, flagLand⟩] := by
  have h1 : hasFlag flagOnboarding flagLinInterp = false := by decide
  have h2 : hasFlag flagLand flagLinInterp = false := by decide
  cases hi : cfg.includeLinearInterpolation <;>
    simp [probeStrategy, cartesianTrace, hi, h1, h2]

/-- a collision anywhere on the trace makes the probe fail -/
example (cfg : CartCfg R) (ik : Iso R → J6 R → List (J6 R)) (half : R)
    (cw : J6 R → APose R → Option (List (AJoints R))) (a b : J6 R) (p : APose R) :
    probeStrategy cfg ik half (fun x y => some [x, y]) cw (fun _ => true) false a b [p] = none := by
  simp [probeStrategy, cartesianTrace]

/-- `plan` with one successful strategy reports its trace, for every `choice` -/
example (s : J6 R) (tr : List (AJoints R)) (c : Nat) :
    planWith false [s] (fun _ => some tr) c = some tr := by
  simp [planWith, Nat.mod_one]

/-- a colliding start makes `plan` fail -/
example (strategies : List (J6 R)) (outcome : J6 R → Option (List (AJoints R))) (c : Nat) :
    planWith true strategies outcome c = none := by
  simp [planWith]

/-- [R] a concrete instance over `ℝ`: staying put costs nothing -/
example (j : J6 ℝ) (p q : APose ℝ) :
    stepAdaptive ⟨1, ⟨1, 1, 1, 1, 1, 1⟩, 3, false⟩ (fun _ prev => [prev]) (1 / 2) 5 0 j p q = some [j] := by
  have h : transitionCosts j j (⟨1, 1, 1, 1, 1, 1⟩ : J6 ℝ) ≤ (1 : ℝ) := by
    simp only [transitionCosts, nabs_real, sub_self, abs_zero, zero_mul, add_zero]
    exact zero_le_one
  simp [stepAdaptive, h]

end Examples

end Opw.C12
