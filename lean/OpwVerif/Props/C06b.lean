/-
  C06b — the 5-DOF solvers return the originating J1..J5: asked for the pose of a joint vector `j`
  that is not at a shoulder, elbow or wrist singularity, and for ANY value of J6,
  `inverse_intern_5_dof` / `inverse_5dof` / `inverse` of a robot declared 5-DOF /
  `inverse_continuing_5dof` return an answer that agrees with `j` on joints 1..5 (modulo whole
  turns; exactly, when those joints lie in `(−π, π)`), carries the requested J6, and has exactly
  the requested POSITION.

  All theorems are [R]: the model text of `Kin.lean` evaluated with exact real arithmetic.
  Helper lemmas live in `Lemmas/Corollaries.lean` (section C) and `Lemmas/IkComplete.lean`.

  Why it works: `inverse_intern_5_dof` forms the same eight raw θ candidates as `inverse_intern`
  (`thetaCandidates` is shared by the two models); by `theta_candidate_complete` one of them equals θ
  of `j` modulo whole turns; the translation of `forwardTheta` does not mention θ6
  (`forwardTheta_tr_indep_j6`) and is 2π-periodic, so the candidate, with whatever J6 is stored into
  it, has the requested position and passes `compare_xyz_only` at distance `0 ≤ DISTANCE_TOLERANCE`.
-/
import OpwVerif.Lemmas.Corollaries
import OpwVerif.Props.C02b
import OpwVerif.Props.C06
namespace Opw.C06b
open Opw Opw.Wrist Opw.C02 Opw.IkComplete Opw.Corollaries

attribute [-simp] Opw.ofNatLit_real

/-! ### 1. The position does not depend on θ6 -/

/-- [R] the translation part of `forwardTheta p θ` is the same whatever `θ.j6` is -/
theorem forwardTheta_tr_indep_j6 (p : Params ℝ) (θ : J6 ℝ) (x : ℝ) :
    (forwardTheta p { θ with j6 := x }).2 = (forwardTheta p θ).2 :=
  Corollaries.forwardTheta_tr_indep_j6 p θ x

/-- [R] two θ vectors that agree on θ1 … θ5 have the same translation -/
theorem forwardTheta_tr_indep_j6' (p : Params ℝ) (a b : J6 ℝ) (h1 : a.j1 = b.j1) (h2 : a.j2 = b.j2)
    (h3 : a.j3 = b.j3) (h4 : a.j4 = b.j4) (h5 : a.j5 = b.j5) :
    (forwardTheta p a).2 = (forwardTheta p b).2 :=
  forwardTheta_tr_congr5 p ⟨.of_eq h1, .of_eq h2, .of_eq h3, .of_eq h4, .of_eq h5⟩

/-- [R] in joint space: the position returned by `forward` does not depend on J6 -/
theorem forward_t_indep_j6 (p : Params ℝ) (j : J6 ℝ) (x : ℝ) :
    (forward p { j with j6 := x }).t = (forward p j).t :=
  forward_t_congr5 p (J5TurnEq.refl _)

/-- [R] the position depends on the joints only through θ1 … θ5 modulo whole turns -/
theorem forward_t_congr5 (p : Params ℝ) {a b : J6 ℝ} (h : J5TurnEq (thetaOf p a) (thetaOf p b)) :
    (forward p a).t = (forward p b).t :=
  Corollaries.forward_t_congr5 p h

/-! ### 2. `inverse_intern_5_dof` -/

/-- [R] `0 ≤ DISTANCE_TOLERANCE` (the generated constant, unfolded) -/
theorem distTol_nonneg : (0 : ℝ) ≤ distTol := Nearest.distTol_nonneg

/-- [R] Completeness of `inverse_intern_5_dof`.  `J5TurnEq a b` is `aᵢ = bᵢ + 2πkᵢ` for
`i = 1 … 5`.  For every requested `j6` one answer `s` has θ1 … θ5 equal to those of `j` modulo whole
turns, `s.j6 = j6`, and exactly the position of `forward p j`. -/
theorem inverse5_origin (p : Params ℝ) (hs : SignsOk p) (j : J6 ℝ) (j6 : ℝ)
    (h : NonSingular p (thetaOf p j)) :
    ∃ s ∈ inverseIntern5 p (forward p j) j6, J5TurnEq (thetaOf p s) (thetaOf p j) ∧ s.j6 = j6 ∧
      (forward p s).t = (forward p j).t :=
  inverseIntern5_complete p hs j j6 h

/-- [R] the same in joint space: `sᵢ = jᵢ + 2πkᵢ` for `i = 1 … 5` -/
theorem inverse5_origin_joint (p : Params ℝ) (hs : SignsOk p) (j : J6 ℝ) (j6 : ℝ)
    (h : NonSingular p (thetaOf p j)) :
    ∃ s ∈ inverseIntern5 p (forward p j) j6, J5TurnEq s j ∧ s.j6 = j6 := by
  obtain ⟨s, h1, h2, h3, -⟩ := inverse5_origin p hs j j6 h
  exact ⟨s, h1, J5TurnEq_of_theta p hs h2, h3⟩

/-- [R] Exact form: if J1..J5 of `j` lie in `(−π, π)` (offsets within the fuel of the normalisation
loop), the vector `(j1, …, j5, j6)` ITSELF is among the answers. -/
theorem inverse5_roundtrip (p : Params ℝ) (hs : SignsOk p) (ho : Nearest.absLe p.offsets 100000)
    (j : J6 ℝ) (j6 : ℝ) (hj : InsidePi5 j) (h : NonSingular p (thetaOf p j)) :
    ({ j with j6 := j6 } : J6 ℝ) ∈ inverseIntern5 p (forward p j) j6 :=
  inverseIntern5_roundtrip p hs ho j j6 hj h

/-! ### 3. `inverse_5dof`, and `inverse` of a robot declared 5-DOF -/

theorem inverse5dof_eq_intern (k : Opw ℝ) (hc : k.cons = none) (pose : Iso ℝ) (j6 : ℝ) :
    k.inverse5dof pose j6 = inverseIntern5 k.p pose j6 := by
  unfold Opw.inverse5dof Opw.filterCompliant
  rw [hc]

/-- [R] `inverse_5dof` without constraints -/
theorem inverse5dof_origin (k : Opw ℝ) (hs : SignsOk k.p) (hc : k.cons = none) (j : J6 ℝ) (j6 : ℝ)
    (h : NonSingular k.p (thetaOf k.p j)) :
    ∃ s ∈ k.inverse5dof (forward k.p j) j6, J5TurnEq (thetaOf k.p s) (thetaOf k.p j) ∧ s.j6 = j6 ∧
      (forward k.p s).t = (forward k.p j).t := by
  rw [inverse5dof_eq_intern k hc]
  exact inverse5_origin k.p hs j j6 h

/-- [R] `inverse_5dof` without constraints, exact form -/
theorem inverse5dof_roundtrip (k : Opw ℝ) (hs : SignsOk k.p) (hc : k.cons = none)
    (ho : Nearest.absLe k.p.offsets 100000) (j : J6 ℝ) (j6 : ℝ) (hj : InsidePi5 j)
    (h : NonSingular k.p (thetaOf k.p j)) :
    ({ j with j6 := j6 } : J6 ℝ) ∈ k.inverse5dof (forward k.p j) j6 := by
  rw [inverse5dof_eq_intern k hc]
  exact inverse5_roundtrip k.p hs ho j j6 hj h

/-- [R] with constraints: the originating vector comes back if it satisfies them (any constraints,
any sorting weight; the limits check is applied to the vector with the requested J6) -/
theorem inverse5dof_roundtrip_constrained (k : Opw ℝ) (hs : SignsOk k.p)
    (ho : Nearest.absLe k.p.offsets 100000) (j : J6 ℝ) (j6 : ℝ) (hj : InsidePi5 j)
    (h : NonSingular k.p (thetaOf k.p j)) (hcomp : k.compliant { j with j6 := j6 } = true) :
    ({ j with j6 := j6 } : J6 ℝ) ∈ k.inverse5dof (forward k.p j) j6 := by
  unfold Opw.inverse5dof
  exact mem_filterCompliant.mpr ⟨inverse5_roundtrip k.p hs ho j j6 hj h, hcomp⟩

/-- [R] the general entry point `inverse` of a robot declared 5-DOF (it asks for J6 = 0) -/
theorem inverse_dof5_roundtrip (k : Opw ℝ) (hs : SignsOk k.p) (hd : k.p.dof = 5) (hc : k.cons = none)
    (ho : Nearest.absLe k.p.offsets 100000) (j : J6 ℝ) (hj : InsidePi5 j)
    (h : NonSingular k.p (thetaOf k.p j)) :
    ({ j with j6 := 0 } : J6 ℝ) ∈ k.inverse (forward k.p j) := by
  rw [(C06.dof5_dispatch hd (forward k.p j) j).1, Nearest.lit0]
  exact inverse5dof_roundtrip k hs hc ho j 0 hj h

/-! ### 4. `inverse_continuing_5dof` -/

/-- [R] `inverse_continuing_5dof` without constraints: one answer agrees with `j` on joints 1..5
modulo whole turns (`normalize_near` moves each joint by whole turns towards `prev`). -/
theorem inverseContinuing5dof_origin (k : Opw ℝ) (hs : SignsOk k.p) (hc : k.cons = none) (j prev : J6 ℝ)
    (h : NonSingular k.p (thetaOf k.p j)) :
    ∃ s ∈ k.inverseContinuing5dof (forward k.p j) prev, J5TurnEq s j := by
  obtain ⟨s0, h0, he, -⟩ := inverse5_origin_joint k.p hs j prev.j6 h
  refine ⟨s0.normalizeNear prev, ?_, (J5TurnEq_normalizeNear s0 prev).trans he⟩
  unfold Opw.inverseContinuing5dof
  refine mem_filterCompliant.mpr ⟨?_, Nearest.compliant_of_none _ _ hc⟩
  rw [mem_sortByCloseness, Nearest.reference_real]
  exact List.mem_map_of_mem h0

/-- [R] exact form: J1..J5 of `j` in `(−π, π)` and within `π` of the previous joints — then
`(j1, …, j5, prev6)` itself is returned (J6 is `normalize_near(prev6, prev6) = prev6`). -/
theorem inverseContinuing5dof_roundtrip (k : Opw ℝ) (hs : SignsOk k.p) (hc : k.cons = none)
    (ho : Nearest.absLe k.p.offsets 100000) (j prev : J6 ℝ) (hj : InsidePi5 j)
    (hclose : |j.j1 - prev.j1| ≤ Real.pi ∧ |j.j2 - prev.j2| ≤ Real.pi ∧ |j.j3 - prev.j3| ≤ Real.pi ∧
      |j.j4 - prev.j4| ≤ Real.pi ∧ |j.j5 - prev.j5| ≤ Real.pi)
    (h : NonSingular k.p (thetaOf k.p j)) :
    ({ j with j6 := prev.j6 } : J6 ℝ) ∈ k.inverseContinuing5dof (forward k.p j) prev := by
  have h0 := inverse5_roundtrip k.p hs ho j prev.j6 hj h
  obtain ⟨i1, i2, i3, i4, i5⟩ := hj
  obtain ⟨w1, w2, w3, w4, w5⟩ := hclose
  have e : ({ j with j6 := prev.j6 } : J6 ℝ).normalizeNear prev = { j with j6 := prev.j6 } :=
    J6.ext' (normalizeNear_of_close _ _ w1 i1.ne) (normalizeNear_of_close _ _ w2 i2.ne)
      (normalizeNear_of_close _ _ w3 i3.ne) (normalizeNear_of_close _ _ w4 i4.ne)
      (normalizeNear_of_close _ _ w5 i5.ne) (Nearest.normalizeNear_self _)
  unfold Opw.inverseContinuing5dof
  refine mem_filterCompliant.mpr ⟨?_, Nearest.compliant_of_none _ _ hc⟩
  rw [mem_sortByCloseness, Nearest.reference_real, ← e]
  exact List.mem_map_of_mem h0

/-! ### Non-vacuity: the robot `pEx` and joint vector `jEx` of C02b, declared 5-DOF -/

/-- `pEx` declared 5-DOF -/
noncomputable def pEx5 : Params ℝ := { pEx with dof := 5 }

theorem nonSingular_ex5 : NonSingular pEx5 (thetaOf pEx5 C02b.jEx) :=
  ⟨C02b.nonSingular_ex.c2_pos, C02b.nonSingular_ex.kappa_pos, C02b.nonSingular_ex.shoulder,
    C02b.nonSingular_ex.elbow, C02b.nonSingular_ex.wrist⟩

theorem insidePi5_jEx : InsidePi5 C02b.jEx := by
  obtain ⟨h1, h2, h3, h4, h5, -⟩ := C02b.insidePi_jEx
  exact ⟨h1, h2, h3, h4, h5⟩

/-- the hypotheses are jointly satisfiable; conclusion for the instance: asked for the pose of `jEx`
and J6 = 0.7, the 5-DOF solver returns `jEx` with J6 replaced by 0.7 -/
example : ({ C02b.jEx with j6 := 0.7 } : J6 ℝ) ∈
    (⟨pEx5, none⟩ : Opw ℝ).inverse5dof (forward pEx5 C02b.jEx) 0.7 :=
  inverse5dof_roundtrip ⟨pEx5, none⟩ C02b.signsOk_pEx rfl C02b.offsets_pEx C02b.jEx 0.7 insidePi5_jEx
    nonSingular_ex5

example : ({ C02b.jEx with j6 := 0 } : J6 ℝ) ∈ (⟨pEx5, none⟩ : Opw ℝ).inverse (forward pEx5 C02b.jEx) :=
  inverse_dof5_roundtrip ⟨pEx5, none⟩ C02b.signsOk_pEx rfl rfl C02b.offsets_pEx C02b.jEx insidePi5_jEx
    nonSingular_ex5

end Opw.C06b
