/-
  Source tie for the constraint object (C07, C08, C18 and every property that attaches limits to a solver):
  `Constraints::new` and `Constraints::update_range`, translated from the current text of constraints.rs at the level
  "which expression does each field of the object come from" (`Generated/SrcCons.lean`), produce the object the model
  builds with `Constraints.mk'` — in particular an object that went through `update_range` carries NO state of its
  previous limits (history independence: centres and tolerances are computed from the NEW limits).  Generic in the
  number type.
-/
import OpwVerif.Generated.SrcCons
import OpwVerif.Misc
namespace Opw.TieCons
open Opw
variable {R : Type} [OpwNum R]

/-- [G] `Constraints::new(from, to, w)` is the model's constructor -/
theorem new_is_source (f t : J6 R) (w : R) : SrcCons.newSrc f t w = Constraints.mk' f t w := rfl

/-- [G] after `update_range(from, to)` the object is the one `new(from, to, old weight)` would have built, whatever limits it
had before -/
theorem updateRange_is_fresh (c : Constraints R) (f t : J6 R) :
    SrcCons.updateRangeSrc c f t = Constraints.mk' f t c.sortingWeight := rfl

/-- [G] history independence: two objects with the same sorting weight are identical after the same `update_range` -/
theorem updateRange_history_independent (c c' : Constraints R) (f t : J6 R) (hw : c.sortingWeight = c'.sortingWeight) :
    SrcCons.updateRangeSrc c f t = SrcCons.updateRangeSrc c' f t := by
  rw [updateRange_is_fresh, updateRange_is_fresh, hw]

/-- [G] in particular a sequence of updates ends in the object of the last one -/
theorem updateRange_twice (c : Constraints R) (f1 t1 f2 t2 : J6 R) :
    SrcCons.updateRangeSrc (SrcCons.updateRangeSrc c f1 t1) f2 t2 = SrcCons.updateRangeSrc c f2 t2 := rfl

/-- [G] `Constraints::from_degrees` as the CURRENT source text has it: the twelve limits converted to radians, nothing else
converted (the sorting weight is a pure number), centres and tolerances computed from the converted limits — the object
`new` builds from the converted limits -/
theorem fromDegrees_is_source (lo hi : J6 R) (w : R) :
    SrcCons.fromDegreesSrc lo hi w = Constraints.mk' (lo.map toRadians) (hi.map toRadians) w := rfl

/-- [G] the per-joint sampler nested in `random_angles`, translated from the CURRENT source with the generator's draw as a
parameter (`gen_range(0.0..len)` ↦ `u`), is the model's `randomAngle`; the translator also checks that joint `i` is drawn from
`(from[i], to[i])` for i = 0..5.  The C18 theorems (every draw `0 ≤ u < sampleSpan` gives an accepted angle) are about it -/
theorem randomAngle_is_source (f t u : R) : SrcCons.randomAngleSrc f t u = randomAngle f t u := by
  unfold SrcCons.randomAngleSrc randomAngle sampleSpan
  by_cases h : f < t
  · simp [h]
  · simp only [h, if_false]

end Opw.TieCons
