/-
  C08b — `inverse_continuing` (6-DOF path) with joint limits: "every solution of the same query
  without limits that satisfies them is still returned".

  * `continuing_superset_partial` [R] — the compliant solutions of plain `inverse` survive.
  * `shiftLoop_superset` [G] — the `'shifts` loop with constraints collects every compliant vector
    the loop without constraints collects (including a recovered singular candidate).
  * `continuing_superset` [R] — the FULL statement: every element of the unconstrained
    `inverse_continuing` answer that satisfies the constraints is in the constrained answer.
    Any sorting weight.
  * `continuing_superset_generic` [G] — the same for any number type, under the two facts used about
    the arithmetic: `prev` is not the NaN sentinel, and the limits check is invariant under
    `normalize_near(·, prev)`.
  * `continuing_superset_filter` [R] — list form: `Constraints::filter` of the unconstrained answer
    is contained (as a set) in the constrained answer.

  The converse inclusion is FALSE in general and is not claimed: when the run without constraints
  recovers a singular candidate that violates the limits it breaks out of the `'shifts` loop, while
  the run with constraints goes on to the next shift and may recover a further (compliant)
  candidate there.  So the constrained answer can be strictly larger than the filtered unconstrained
  one; it always consists of compliant vectors only (`C08.inverseContinuing_all_compliant`).

  Kinds: [R] real arithmetic, [G] generic (any number type, no assumption on the arithmetic).
  Helper lemmas live in `Lemmas/Corollaries.lean` (section D).
-/
import OpwVerif.Lemmas.Corollaries
import OpwVerif.Props.C04
import OpwVerif.Props.C08
namespace Opw.C08b
open Opw Opw.Corollaries

attribute [-simp] Opw.ofNatLit_real

/-! ### 1. Compliant solutions of plain `inverse` survive -/

/-- [R] Not 5-DOF, constraints `c` with ANY sorting weight, any `prev` (over ℝ there is no NaN
sentinel): every solution `s` of `inverse_intern` for the pose that satisfies `c` is returned by
the constrained `inverse_continuing`, as its representative next to `prev`. -/
theorem continuing_superset_partial (p : Params ℝ) (c : Constraints ℝ) (pose : Iso ℝ) (prev : J6 ℝ)
    (hdof : p.dof ≠ 5) (s : J6 ℝ) (hs : s ∈ inverseIntern p pose) (hc : c.compliant s = true) :
    s.normalizeNear prev ∈ (⟨p, some c⟩ : Opw ℝ).inverseContinuing pose prev := by
  apply (C04.inverseContinuing_superset ⟨p, some c⟩ pose prev hdof s hs).2
  rw [C04.compliant_normalizeNear]
  exact hc

/-- [R] plain `inverse` of a robot not declared 5-DOF, without constraints, is `inverse_intern` -/
theorem inverse_none_eq_intern (p : Params ℝ) (hdof : p.dof ≠ 5) (pose : Iso ℝ) :
    (⟨p, none⟩ : Opw ℝ).inverse pose = inverseIntern p pose := by
  unfold Opw.inverse Opw.filterCompliant
  simp only [beq_iff_eq, hdof, if_false]

/-- [R] the same in the vocabulary of C08: `s` returned by `inverse` WITHOUT constraints and
compliant ⇒ returned (moved next to `prev`) by `inverse_continuing` WITH constraints -/
theorem continuing_superset_partial' (p : Params ℝ) (c : Constraints ℝ) (pose : Iso ℝ) (prev : J6 ℝ)
    (hdof : p.dof ≠ 5) (s : J6 ℝ) (hs : s ∈ (⟨p, none⟩ : Opw ℝ).inverse pose)
    (hc : c.compliant s = true) :
    s.normalizeNear prev ∈ (⟨p, some c⟩ : Opw ℝ).inverseContinuing pose prev := by
  rw [inverse_none_eq_intern p hdof] at hs
  exact continuing_superset_partial p c pose prev hdof s hs hc

/-! ### 2. The `'shifts` loop -/

/-- [G] One iteration from the same accumulator: the two runs do the same, or the run without
constraints pushes a recovered candidate that violates `c` and breaks while the other goes on. -/
theorem shiftStep_none_vs_some {R : Type} [OpwNum R] (p : Params R) (c : Constraints R) (pose : Iso R)
    (prev : J6 R) (sols : List (J6 R)) (d : V3 R) :
    shiftStep ⟨p, none⟩ pose prev sols d = shiftStep ⟨p, some c⟩ pose prev sols d ∨
    ∃ now, c.compliant now = false ∧
      shiftStep ⟨p, none⟩ pose prev sols d =
        ((shiftStep ⟨p, some c⟩ pose prev sols d).1 ++ [now], true) ∧
      (shiftStep ⟨p, some c⟩ pose prev sols d).2 = false :=
  Corollaries.shiftStep_none_vs_some p c pose prev sols d

/-- [G] Started from the same accumulator `sols` (in `inverse_continuing`: the empty list), every
vector the loop WITHOUT constraints ends with that satisfies `c` is in what the loop WITH
constraints ends with — raw solutions of the first productive shift and a recovered singular
candidate alike. -/
theorem shiftLoop_superset {R : Type} [OpwNum R] (p : Params R) (c : Constraints R) (pose : Iso R)
    (prev : J6 R) (ds : List (V3 R)) (sols : List (J6 R)) (s : J6 R)
    (h : s ∈ shiftLoop ⟨p, none⟩ pose prev ds sols) (hc : c.compliant s = true) :
    s ∈ shiftLoop ⟨p, some c⟩ pose prev ds sols :=
  Corollaries.shiftLoop_superset p c pose prev ds sols s h hc

/-! ### 3. The full statement -/

/-- [G] Any number type.  `prev` not the `CONSTRAINT_CENTERED` sentinel, `dof ≠ 5`, and the limits
check invariant under `normalize_near(·, prev)` (`hper`; over ℝ this is
`C04.compliant_normalizeNear`): every element of the answer WITHOUT constraints that satisfies `c`
is in the answer WITH constraints `c`. -/
theorem continuing_superset_generic {R : Type} [OpwNum R] (p : Params R) (c : Constraints R)
    (pose : Iso R) (prev : J6 R) (hdof : p.dof ≠ 5) (hprev : isNaN prev.j1 = false)
    (hper : ∀ a : J6 R, c.compliant (a.normalizeNear prev) = c.compliant a) (s : J6 R)
    (hs : s ∈ (⟨p, none⟩ : Opw R).inverseContinuing pose prev) (hc : c.compliant s = true) :
    s ∈ (⟨p, some c⟩ : Opw R).inverseContinuing pose prev := by
  have r1 : (⟨p, none⟩ : Opw R).reference prev = prev := by simp [Opw.reference, hprev]
  have r2 : (⟨p, some c⟩ : Opw R).reference prev = prev := by simp [Opw.reference, hprev]
  unfold Opw.inverseContinuing at hs ⊢
  rw [if_neg (by simpa using hdof)] at hs ⊢
  unfold Opw.inverseContinuing6 at hs ⊢
  rw [r1] at hs
  rw [r2]
  have h1 := mem_sortByCloseness.mp (mem_of_mem_filterCompliant hs)
  obtain ⟨s0, h0, rfl⟩ := List.mem_map.mp h1
  refine mem_filterCompliant.mpr ⟨mem_sortByCloseness.mpr (List.mem_map_of_mem ?_), hc⟩
  exact Corollaries.shiftLoop_superset p c pose prev shifts [] s0 h0 (by rw [← hper]; exact hc)

/-- [R] FULL statement over ℝ.  Not 5-DOF, constraints `c` with any sorting weight: every element of
`inverse_continuing(pose, prev)` of the solver WITHOUT constraints that satisfies `c` — a regular
solution or a recovered singular candidate — is returned by the solver WITH constraints `c`. -/
theorem continuing_superset (p : Params ℝ) (c : Constraints ℝ) (pose : Iso ℝ) (prev : J6 ℝ)
    (hdof : p.dof ≠ 5) (s : J6 ℝ) (hs : s ∈ (⟨p, none⟩ : Opw ℝ).inverseContinuing pose prev)
    (hc : c.compliant s = true) : s ∈ (⟨p, some c⟩ : Opw ℝ).inverseContinuing pose prev :=
  continuing_superset_generic p c pose prev hdof rfl
    (fun a => C04.compliant_normalizeNear ⟨p, some c⟩ a prev) s hs hc

/-- [R] list form: everything `Constraints::filter` keeps of the unconstrained answer is in the
constrained answer -/
theorem continuing_superset_filter (p : Params ℝ) (c : Constraints ℝ) (pose : Iso ℝ) (prev : J6 ℝ)
    (hdof : p.dof ≠ 5) :
    ∀ s ∈ c.filter ((⟨p, none⟩ : Opw ℝ).inverseContinuing pose prev),
      s ∈ (⟨p, some c⟩ : Opw ℝ).inverseContinuing pose prev := by
  intro s hs
  rw [Constraints.filter, List.mem_filter] at hs
  exact continuing_superset p c pose prev hdof s hs.1 hs.2

/-- [R] together with C08: the constrained answer lies between the filtered unconstrained answer and
the set of compliant vectors -/
theorem continuing_sandwich (p : Params ℝ) (c : Constraints ℝ) (pose : Iso ℝ) (prev : J6 ℝ)
    (hdof : p.dof ≠ 5) (s : J6 ℝ) :
    (s ∈ (⟨p, none⟩ : Opw ℝ).inverseContinuing pose prev ∧ c.compliant s = true →
      s ∈ (⟨p, some c⟩ : Opw ℝ).inverseContinuing pose prev) ∧
    (s ∈ (⟨p, some c⟩ : Opw ℝ).inverseContinuing pose prev → c.compliant s = true) :=
  ⟨fun h => continuing_superset p c pose prev hdof s h.1 h.2,
    fun h => C08.inverseContinuing_all_compliant (k := ⟨p, some c⟩) rfl h⟩

/-! ### Non-vacuity -/

/-- constraints that every vector satisfies: centres `0`, tolerances `4 ≥ π` -/
noncomputable def wideCons : Constraints ℝ :=
  ⟨Nearest.zero6, Nearest.zero6, Nearest.zero6, ⟨4, 4, 4, 4, 4, 4⟩, byPrev⟩

theorem wideCons_compliant (s : J6 ℝ) : wideCons.compliant s = true := by
  have h : ∀ a : ℝ, insideBounds a 0 4 = true := by
    intro a
    rw [Nearest.insideBounds_real, decide_eq_true_eq]
    exact (Nearest.foldDist_spec _).2.1.trans Real.pi_le_four
  simp only [Constraints.compliant, wideCons, Nearest.zero6, h, Bool.and_self]

/-- the example robot, pose and solution of C04 (`exOpw = ⟨exParams, none⟩`): the unconstrained
answer is non-empty … -/
theorem ex_unconstrained : Nearest.zero6.normalizeNear Nearest.zero6 ∈
    (⟨Nearest.exParams, none⟩ : Opw ℝ).inverseContinuing Nearest.exPose Nearest.zero6 :=
  C04.inverse_subset_inverseContinuing Nearest.exOpw Nearest.exPose Nearest.zero6 Nearest.ex_dof
    Nearest.zero6 Nearest.ex_mem_inverse

/-- … so the hypotheses of `continuing_superset` are jointly satisfiable; its conclusion for the
instance -/
example : Nearest.zero6.normalizeNear Nearest.zero6 ∈
    (⟨Nearest.exParams, some wideCons⟩ : Opw ℝ).inverseContinuing Nearest.exPose Nearest.zero6 :=
  continuing_superset Nearest.exParams wideCons Nearest.exPose Nearest.zero6 Nearest.ex_dof _
    ex_unconstrained (wideCons_compliant _)

/-- and of `continuing_superset_partial` -/
example : Nearest.zero6.normalizeNear Nearest.zero6 ∈
    (⟨Nearest.exParams, some wideCons⟩ : Opw ℝ).inverseContinuing Nearest.exPose Nearest.zero6 :=
  continuing_superset_partial Nearest.exParams wideCons Nearest.exPose Nearest.zero6 Nearest.ex_dof
    Nearest.zero6 Nearest.ex_mem (wideCons_compliant _)

/-- the generic theorem at `Float` (the objects of `Sound.lean`); `isNaN` on `Float` is opaque to the
kernel and the periodicity of the limits check is an arithmetic fact, so both stay hypotheses -/
example (hprev : isNaN Ex.prev.j1 = false)
    (hper : ∀ a : J6 Float, Ex.cons.compliant (a.normalizeNear Ex.prev) = Ex.cons.compliant a)
    (s : J6 Float) (hs : s ∈ Ex.k6.inverseContinuing Ex.pose Ex.prev)
    (hc : Ex.cons.compliant s = true) : s ∈ Ex.k6c.inverseContinuing Ex.pose Ex.prev :=
  continuing_superset_generic Ex.p6 Ex.cons Ex.pose Ex.prev Ex.p6_dof hprev hper s hs hc

end Opw.C08b
