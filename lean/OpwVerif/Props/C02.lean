/-
  C02 (closure part) — the answer set of `inverse` contains the wrist-flipped twin
  (J4+π, −J5, J6−π) of each answer.

  Read in θ-space (`θ = joint · sign − offset`, the space in which the code forms the twin) and
  modulo whole turns (the code normalises every joint into [−π, π] afterwards):
  * the twin has the same forward pose (`forwardTheta_flip`, `forward_flip_joint_space`);
  * the forward pose does not change under whole turns of any joint (`forwardTheta_periodic`);
  * the eight raw candidates are four solutions followed by their four twins
    (`candidates_flip_closed`);
  * the twin of a candidate that passes the run-time forward cross-check passes it too
    (`twin_passes_check`), hence `inverse_intern`'s answer set is closed under the flip
    (`inverseIntern_flip_closed`).

  Property theorems only; helper lemmas live in `Lemmas/Wrist.lean`.
  All theorems are [R]: the model text of `Kin.lean` evaluated with exact real arithmetic.
  Hypothesis `SignsOk p`: every sign correction is `1` or `−1` (what `Parameters` holds: `i8` signs
  the constructors set to ±1).
-/
import OpwVerif.Lemmas.Wrist
import OpwVerif.Lemmas.Sound
namespace Opw.C02
open Opw Opw.Wrist

attribute [-simp] Opw.ofNatLit_real

/-! ### Vocabulary -/

/-- the wrist flip in θ-space -/
noncomputable def flip (t : J6 ℝ) : J6 ℝ := ⟨t.j1, t.j2, t.j3, t.j4 + Real.pi, -t.j5, t.j6 - Real.pi⟩

/-- all six sign corrections are `±1` -/
def SignsOk (p : Params ℝ) : Prop :=
  (p.signs.j1 = 1 ∨ p.signs.j1 = -1) ∧ (p.signs.j2 = 1 ∨ p.signs.j2 = -1) ∧
  (p.signs.j3 = 1 ∨ p.signs.j3 = -1) ∧ (p.signs.j4 = 1 ∨ p.signs.j4 = -1) ∧
  (p.signs.j5 = 1 ∨ p.signs.j5 = -1) ∧ (p.signs.j6 = 1 ∨ p.signs.j6 = -1)

/-- `a ≡ b` componentwise modulo whole turns, spelled out -/
theorem J6TurnEq_iff (a b : J6 ℝ) :
    J6TurnEq a b ↔
      (∃ k : ℤ, a.j1 = b.j1 + 2 * Real.pi * k) ∧ (∃ k : ℤ, a.j2 = b.j2 + 2 * Real.pi * k) ∧
      (∃ k : ℤ, a.j3 = b.j3 + 2 * Real.pi * k) ∧ (∃ k : ℤ, a.j4 = b.j4 + 2 * Real.pi * k) ∧
      (∃ k : ℤ, a.j5 = b.j5 + 2 * Real.pi * k) ∧ (∃ k : ℤ, a.j6 = b.j6 + 2 * Real.pi * k) := Iff.rfl

theorem J6.ext' {a b : J6 ℝ} (h1 : a.j1 = b.j1) (h2 : a.j2 = b.j2) (h3 : a.j3 = b.j3)
    (h4 : a.j4 = b.j4) (h5 : a.j5 = b.j5) (h6 : a.j6 = b.j6) : a = b := by
  cases a; cases b; simp_all

/-! ### 1. The twin has the same forward pose -/

theorem rce_flip (θ4 θ5 θ6 : ℝ) :
    rce (Real.sin (θ4 + Real.pi)) (Real.cos (θ4 + Real.pi)) (Real.sin (-θ5)) (Real.cos (-θ5))
        (Real.sin (θ6 - Real.pi)) (Real.cos (θ6 - Real.pi)) =
      rce (Real.sin θ4) (Real.cos θ4) (Real.sin θ5) (Real.cos θ5) (Real.sin θ6) (Real.cos θ6) := by
  rw [Real.sin_add_pi, Real.cos_add_pi, Real.sin_neg, Real.cos_neg, Real.sin_sub_pi, Real.cos_sub_pi]
  apply M3.ext' <;> simp only [rce] <;> ring

theorem forwardTheta_flip (p : Params ℝ) (θ1 θ2 θ3 θ4 θ5 θ6 : ℝ) :
    forwardTheta p ⟨θ1, θ2, θ3, θ4 + Real.pi, -θ5, θ6 - Real.pi⟩ =
      forwardTheta p ⟨θ1, θ2, θ3, θ4, θ5, θ6⟩ := by
  simp only [forwardTheta, nsin_real, ncos_real, rce_flip]

theorem forwardTheta_flip' (p : Params ℝ) (t : J6 ℝ) : forwardTheta p (flip t) = forwardTheta p t :=
  forwardTheta_flip p t.j1 t.j2 t.j3 t.j4 t.j5 t.j6

/-! ### 2. Whole turns do not change the forward pose -/

theorem forwardTheta_congr (p : Params ℝ) {a b : J6 ℝ} (h : J6TurnEq a b) :
    forwardTheta p a = forwardTheta p b := by
  obtain ⟨h1, h2, h3, h4, h5, h6⟩ := h
  have h23 := (h2.add h3).add_const (natan2 p.a2 p.c3)
  simp only [forwardTheta, nsin_real, ncos_real, h1.sin_eq, h1.cos_eq, h2.sin_eq, h2.cos_eq,
    h3.sin_eq, h3.cos_eq, h4.sin_eq, h4.cos_eq, h5.sin_eq, h5.cos_eq, h6.sin_eq, h6.cos_eq,
    h23.sin_eq, h23.cos_eq]

theorem forwardTheta_periodic (p : Params ℝ) (θ : J6 ℝ) (k1 k2 k3 k4 k5 k6 : ℤ) :
    forwardTheta p ⟨θ.j1 + 2 * Real.pi * k1, θ.j2 + 2 * Real.pi * k2, θ.j3 + 2 * Real.pi * k3,
        θ.j4 + 2 * Real.pi * k4, θ.j5 + 2 * Real.pi * k5, θ.j6 + 2 * Real.pi * k6⟩ =
      forwardTheta p θ :=
  forwardTheta_congr p ⟨.add_turn _ _, .add_turn _ _, .add_turn _ _, .add_turn _ _, .add_turn _ _,
    .add_turn _ _⟩

/-! ### 3. Joint space ↔ θ-space -/

theorem thetaOf_jointsOf (p : Params ℝ) (hs : SignsOk p) (t : J6 ℝ) : thetaOf p (jointsOf p t) = t := by
  obtain ⟨s1, s2, s3, s4, s5, s6⟩ := hs
  apply J6.ext' <;> simp only [thetaOf, jointsOf]
  · linear_combination (t.j1 + p.offsets.j1) * IsSign.mul_self s1
  · linear_combination (t.j2 + p.offsets.j2) * IsSign.mul_self s2
  · linear_combination (t.j3 + p.offsets.j3) * IsSign.mul_self s3
  · linear_combination (t.j4 + p.offsets.j4) * IsSign.mul_self s4
  · linear_combination (t.j5 + p.offsets.j5) * IsSign.mul_self s5
  · linear_combination (t.j6 + p.offsets.j6) * IsSign.mul_self s6

theorem jointsOf_thetaOf (p : Params ℝ) (hs : SignsOk p) (j : J6 ℝ) : jointsOf p (thetaOf p j) = j := by
  obtain ⟨s1, s2, s3, s4, s5, s6⟩ := hs
  apply J6.ext' <;> simp only [thetaOf, jointsOf]
  · linear_combination j.j1 * IsSign.mul_self s1
  · linear_combination j.j2 * IsSign.mul_self s2
  · linear_combination j.j3 * IsSign.mul_self s3
  · linear_combination j.j4 * IsSign.mul_self s4
  · linear_combination j.j5 * IsSign.mul_self s5
  · linear_combination j.j6 * IsSign.mul_self s6

theorem forward_eq (p : Params ℝ) (j : J6 ℝ) :
    forward p j = ⟨(forwardTheta p (thetaOf p j)).2, Quat.ofMat (forwardTheta p (thetaOf p j)).1⟩ := rfl

/-- the forward pose depends on the joints only through θ modulo whole turns -/
theorem forward_congr (p : Params ℝ) {a b : J6 ℝ} (h : J6TurnEq (thetaOf p a) (thetaOf p b)) :
    forward p a = forward p b := by
  rw [forward_eq, forward_eq, forwardTheta_congr p h]

/-- the twin, taken back to joint space, has the same forward pose -/
theorem forward_flip_joint_space (p : Params ℝ) (hs : SignsOk p) (j : J6 ℝ) :
    forward p (jointsOf p (flip (thetaOf p j))) = forward p j := by
  rw [forward_eq, forward_eq, thetaOf_jointsOf p hs, forwardTheta_flip']

/-! ### 4. The raw candidates: four solutions and their four twins -/

theorem candidates_flip_closed (p : Params ℝ) (pose : Iso ℝ) :
    ∃ c1 c2 c3 c4, thetaCandidates p pose =
      [c1, c2, c3, c4, flip c1, flip c2, flip c3, flip c4] :=
  ⟨_, _, _, _, rfl⟩

theorem flip_turnEq {a b : J6 ℝ} (h : J6TurnEq a b) : J6TurnEq (flip a) (flip b) :=
  ⟨h.1, h.2.1, h.2.2.1, h.2.2.2.1.add_const _, h.2.2.2.2.1.neg, h.2.2.2.2.2.sub_const _⟩

/-- flipping twice is a whole turn of J4 and of J6 -/
theorem flip_flip_turnEq (a : J6 ℝ) : J6TurnEq (flip (flip a)) a :=
  ⟨.refl _, .refl _, .refl _, ⟨1, by simp only [flip]; push_cast; ring⟩,
   ⟨0, by simp only [flip]; push_cast; ring⟩, ⟨-1, by simp only [flip]; push_cast; ring⟩⟩

/-- every raw candidate has its twin (modulo whole turns) among the raw candidates -/
theorem candidates_twin (p : Params ℝ) (pose : Iso ℝ) (t : J6 ℝ) (ht : t ∈ thetaCandidates p pose) :
    ∃ t' ∈ thetaCandidates p pose, J6TurnEq t' (flip t) := by
  obtain ⟨c1, c2, c3, c4, hc⟩ := candidates_flip_closed p pose
  rw [hc] at ht ⊢
  simp only [List.mem_cons, List.not_mem_nil, or_false] at ht
  rcases ht with rfl | rfl | rfl | rfl | rfl | rfl | rfl | rfl
  · exact ⟨flip t, by simp, .refl _⟩
  · exact ⟨flip t, by simp, .refl _⟩
  · exact ⟨flip t, by simp, .refl _⟩
  · exact ⟨flip t, by simp, .refl _⟩
  · exact ⟨c1, by simp, (flip_flip_turnEq c1).symm⟩
  · exact ⟨c2, by simp, (flip_flip_turnEq c2).symm⟩
  · exact ⟨c3, by simp, (flip_flip_turnEq c3).symm⟩
  · exact ⟨c4, by simp, (flip_flip_turnEq c4).symm⟩

/-! ### 5. The twin passes the run-time cross-check -/

theorem thetaOf_turnEq (p : Params ℝ) (hs : SignsOk p) {a b : J6 ℝ} (h : J6TurnEq a b) :
    J6TurnEq (thetaOf p a) (thetaOf p b) := by
  obtain ⟨s1, s2, s3, s4, s5, s6⟩ := hs
  obtain ⟨h1, h2, h3, h4, h5, h6⟩ := h
  exact ⟨(h1.mul_sign s1).sub_const _, (h2.mul_sign s2).sub_const _, (h3.mul_sign s3).sub_const _,
    (h4.mul_sign s4).sub_const _, (h5.mul_sign s5).sub_const _, (h6.mul_sign s6).sub_const _⟩

/-- the `[−π, π]` normalisation of `inverse_intern` moves every joint by whole turns -/
theorem map_normPi_turnEq (j : J6 ℝ) : J6TurnEq (j.map normPi) j :=
  ⟨normPi_turnEq _, normPi_turnEq _, normPi_turnEq _, normPi_turnEq _, normPi_turnEq _, normPi_turnEq _⟩

/-- θ of the normalised joint vector built from the raw candidate `t` is `t` modulo whole turns -/
theorem thetaOf_finish_turnEq (p : Params ℝ) (hs : SignsOk p) (t : J6 ℝ) :
    J6TurnEq (thetaOf p ((jointsOf p t).map normPi)) t := by
  have h := thetaOf_turnEq p hs (map_normPi_turnEq (jointsOf p t))
  rw [thetaOf_jointsOf p hs] at h
  exact h

/-- … so the normalisation does not change the forward pose -/
theorem forward_map_normPi (p : Params ℝ) (hs : SignsOk p) (j : J6 ℝ) :
    forward p (j.map normPi) = forward p j :=
  forward_congr p (thetaOf_turnEq p hs (map_normPi_turnEq j))

theorem allFinite_real (j : J6 ℝ) : j.allFinite = true := by
  simp only [J6.allFinite, fin_real, Bool.and_self]

/-- the joint vectors built from a raw candidate and from (anything congruent to) its twin have
the same forward pose -/
theorem forward_finish_twin (p : Params ℝ) (hs : SignsOk p) {c c' : J6 ℝ}
    (hc : J6TurnEq c' (flip c)) :
    forward p ((jointsOf p c').map normPi) = forward p ((jointsOf p c).map normPi) := by
  have e : forwardTheta p (thetaOf p ((jointsOf p c').map normPi)) =
      forwardTheta p (thetaOf p ((jointsOf p c).map normPi)) := by
    rw [forwardTheta_congr p (thetaOf_finish_turnEq p hs c'), forwardTheta_congr p hc,
      forwardTheta_flip', forwardTheta_congr p (thetaOf_finish_turnEq p hs c)]
  rw [forward_eq, forward_eq, e]

/-- If the raw candidate `c` yields a joint vector that passes the forward cross-check of
`inverse_intern`, then so does every raw candidate congruent to its twin `flip c`; the two answers
have the same forward pose and the second is the wrist flip of the first in θ-space, modulo whole
turns.  (Finiteness of the candidate is automatic over ℝ.) -/
theorem twin_passes_check (p : Params ℝ) (hs : SignsOk p) (pose : Iso ℝ) {c c' s : J6 ℝ}
    (hc : J6TurnEq c' (flip c)) (h : finishCandidate p pose (jointsOf p c) = some s) :
    ∃ s', finishCandidate p pose (jointsOf p c') = some s' ∧ forward p s' = forward p s ∧
      J6TurnEq (thetaOf p s') (flip (thetaOf p s)) := by
  obtain ⟨-, rfl, hsound⟩ := finishCandidate_eq_some.mp h
  refine ⟨(jointsOf p c').map normPi, ?_, forward_finish_twin p hs hc, ?_⟩
  · refine finishCandidate_eq_some.mpr ⟨allFinite_real _, rfl, ?_⟩
    unfold Sound at hsound ⊢
    rw [forward_finish_twin p hs hc]; exact hsound
  · exact ((thetaOf_finish_turnEq p hs c').trans hc).trans
      (flip_turnEq (thetaOf_finish_turnEq p hs c)).symm

/-- the special case named in the task: the twin `flip c` itself -/
theorem twin_passes_check' (p : Params ℝ) (hs : SignsOk p) (pose : Iso ℝ) {c s : J6 ℝ}
    (h : finishCandidate p pose (jointsOf p c) = some s) :
    ∃ s', finishCandidate p pose (jointsOf p (flip c)) = some s' ∧ forward p s' = forward p s :=
  let ⟨s', h1, h2, _⟩ := twin_passes_check p hs pose (.refl _) h
  ⟨s', h1, h2⟩

/-- C02, closure: the answer set of `inverse_intern` contains, for each answer `s`, an answer `s'`
that is the wrist-flipped twin of `s` in θ-space, componentwise modulo whole turns; both have the
same forward pose. -/
theorem inverseIntern_flip_closed (p : Params ℝ) (hs : SignsOk p) (pose : Iso ℝ) (s : J6 ℝ)
    (h : s ∈ inverseIntern p pose) :
    ∃ s' ∈ inverseIntern p pose, J6TurnEq (thetaOf p s') (flip (thetaOf p s)) ∧
      forward p s' = forward p s := by
  obtain ⟨t, ht, hfin, hst, hsound⟩ := mem_inverseIntern.mp h
  obtain ⟨t', ht', hc⟩ := candidates_twin p pose t ht
  have hfc : finishCandidate p pose (jointsOf p t) = some s :=
    finishCandidate_eq_some.mpr ⟨hfin, hst, hsound⟩
  obtain ⟨s', h1, h2, h3⟩ := twin_passes_check p hs pose hc hfc
  refine ⟨s', ?_, h3, h2⟩
  obtain ⟨hf', hs', hsound'⟩ := finishCandidate_eq_some.mp h1
  exact mem_inverseIntern.mpr ⟨t', ht', hf', hs', hsound'⟩

/-- the same for the public `inverse` of a 6-DOF robot without constraints -/
theorem inverse_flip_closed (k : Opw ℝ) (hs : SignsOk k.p) (hdof : k.p.dof ≠ 5) (hc : k.cons = none)
    (pose : Iso ℝ) (s : J6 ℝ) (h : s ∈ k.inverse pose) :
    ∃ s' ∈ k.inverse pose, J6TurnEq (thetaOf k.p s') (flip (thetaOf k.p s)) ∧
      forward k.p s' = forward k.p s := by
  have e : k.inverse pose = inverseIntern k.p pose := by
    unfold Opw.inverse Opw.filterCompliant
    simp only [beq_iff_eq, hdof, if_false, hc]
  rw [e] at h ⊢
  exact inverseIntern_flip_closed k.p hs pose s h

/-! ### Non-vacuity -/

/-- a robot with mixed sign conventions and offsets -/
noncomputable def pEx : Params ℝ :=
  { a1 := 0.025, a2 := -0.035, b := 0, c1 := 0.4, c2 := 0.315, c3 := 0.365, c4 := 0.08,
    offsets := ⟨0, 0, -Real.pi / 2, 0, 0.3, Real.pi⟩, signs := ⟨1, 1, -1, -1, -1, -1⟩, dof := 6 }

example : SignsOk pEx :=
  ⟨Or.inl rfl, Or.inl rfl, Or.inr rfl, Or.inr rfl, Or.inr rfl, Or.inr rfl⟩

example : pEx.dof ≠ 5 := by decide

/-- the twin is a different joint vector (J5 changes sign in θ-space) -/
example : flip ⟨0, 0, 0, 0, 1, 0⟩ ≠ (⟨0, 0, 0, 0, 1, 0⟩ : J6 ℝ) := by
  intro h
  have := congrArg J6.j5 h
  simp only [flip] at this
  norm_num at this

end Opw.C02
