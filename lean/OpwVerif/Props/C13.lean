/-
  C13 — Joint-space planning (`path_plan/rrt_to.rs`, `dual_rrt_connect`; model `Rrt.lean`):
  whenever planning succeeds, the path begins with the start vector and ends with the goal vector
  exactly, every node is reported collision-free by the same predicate, consecutive nodes are at
  most three planner steps apart, and with non-wrapping limits (a box) every node is within limits.
  A raised cancellation flag makes the planner return `cancelled` instead of a path.

  Everything is proved for ALL collision predicates `isFree`, ALL sample streams, ALL cancellation
  histories `stop` and ALL nearest-neighbour functions that return an index of the tree
  (`ValidNearest`; `nearestIdx`, the one `dualRrtConnect` uses, is one).
  Kinds: [G] generic (any number type `R`, holds of the Float reading itself),
         [R] real arithmetic (the model text evaluated at `ℝ`).
  Property theorems only; vocabulary (`TreeInv`, `parentOf`, `push`, `extNew`, `ValidNearest`,
  `rootOf`, `AllV`, `DimInv`, `EdgeInv`, `InBox`) and helper lemmas live in `Lemmas/RrtInv.lean`.
-/
import OpwVerif.Lemmas.RrtInv
namespace Opw.C13
open Opw Opw.RrtInv

attribute [-simp] Opw.ofNatLit_real

section Generic
variable {R : Type} [OpwNum R]

/-! ### 1. Tree invariant -/

/-- [G] the linear-scan nearest-neighbour search returns an index of the tree -/
theorem nearestIdx_valid : ValidNearest (nearestIdx (R := R)) := RrtInv.nearestIdx_valid

/-- [G] the initial one-vertex trees satisfy the invariant -/
theorem treeInv_init (isFree : Cfg R → Bool) (root : Cfg R) (b : Bool) :
    TreeInv isFree root ⟨[⟨none, root⟩], b⟩ := TreeInv.init isFree root b

/-- [G] `Tree::extend` keeps the invariant -/
theorem extendWith_treeInv {nearest : RTree R → Cfg R → Nat} (hn : ValidNearest nearest)
    {isFree : Cfg R → Bool} {root : Cfg R} {t : RTree R} (h : TreeInv isFree root t)
    (target : Cfg R) (ext : R) :
    TreeInv isFree root (extendWith nearest t target ext isFree).1 :=
  extendWith_inv (stepHyp_tree hn isFree ext (fun _ => root) (fun _ _ _ => rfl)) h trivial

/-- [G] `Tree::connect` keeps the invariant (and the tag) -/
theorem connectWith_treeInv {nearest : RTree R → Cfg R → Nat} (hn : ValidNearest nearest)
    {isFree : Cfg R → Bool} {root : Cfg R} {t : RTree R} (h : TreeInv isFree root t)
    (fuel : Nat) (target : Cfg R) (ext : R) :
    TreeInv isFree root (connectWith nearest fuel t target ext isFree).1 ∧
      (connectWith nearest fuel t target ext isFree).1.isStart = t.isStart := by
  have H := stepHyp_tree hn isFree ext (fun _ => root) (fun _ _ _ => rfl)
  have := connectWith_spec H (target := target) trivial fuel t h _ _ rfl
  exact ⟨this.1, this.2.1⟩

/-- [G] the index reported by `extend` in `reached i` / `advanced i` is the last vertex: it is the
old length (≥ 1), its parent is the nearest vertex, and its data was accepted by `isFree` -/
theorem extendWith_index {nearest : RTree R → Cfg R → Nat}
    {isFree : Cfg R → Bool} {root : Cfg R} {t : RTree R} (h : TreeInv isFree root t)
    (target : Cfg R) (ext : R) {i : Nat}
    (hs : (extendWith nearest t target ext isFree).2 = .reached i ∨
      (extendWith nearest t target ext isFree).2 = .advanced i) :
    i = t.vertices.length ∧ 1 ≤ i ∧
      (extendWith nearest t target ext isFree).1.vertices.length = i + 1 ∧
      parentOf (extendWith nearest t target ext isFree).1 i = some (nearest t target) ∧
      isFree ((extendWith nearest t target ext isFree).1.get i) = true := by
  rw [extendWith_eq] at hs ⊢
  by_cases hf : isFree (extNew nearest t target ext) = true
  · simp only [if_pos hf] at hs ⊢
    have hi : i = t.vertices.length := by
      by_cases h2 : cfgDist (extNew nearest t target ext) target < ext
      · simp only [if_pos h2] at hs
        rcases hs with hs | hs
        · injection hs with hs; exact hs.symm
        · cases hs
      · simp only [if_neg h2] at hs
        rcases hs with hs | hs
        · cases hs
        · injection hs with hs; exact hs.symm
    subst hi
    exact ⟨rfl, h.length_pos, push_length _ _ _, parentOf_push_last _ _ _, by
      rw [get_push_last]; exact hf⟩
  · simp only [if_neg hf] at hs
    rcases hs with hs | hs <;> cases hs

/-- [G] the index reported by `connect` in `reached i` is the last vertex (≥ 1) -/
theorem connectWith_index {nearest : RTree R → Cfg R → Nat} (hn : ValidNearest nearest)
    {isFree : Cfg R → Bool} {root : Cfg R} {t : RTree R} (h : TreeInv isFree root t)
    (fuel : Nat) (target : Cfg R) (ext : R) {i : Nat}
    (hs : (connectWith nearest fuel t target ext isFree).2 = .reached i) :
    1 ≤ i ∧ i + 1 = (connectWith nearest fuel t target ext isFree).1.vertices.length := by
  have H := stepHyp_tree hn isFree ext (fun _ => root) (fun _ _ _ => rfl)
  have := (connectWith_spec H (target := target) trivial fuel t h _ _ rfl).2.2 i hs
  exact ⟨this.1, this.2.1⟩

/-! ### 2. `get_until_root` -/

/-- [G] ancestors of a non-root vertex (fuel ≥ index suffices): a non-empty list whose last
element is the root; every other element is the data of a vertex with index ≥ 1, hence accepted by
`isFree`. -/
theorem untilRoot_spec {isFree : Cfg R → Bool} {root : Cfg R} {t : RTree R}
    (h : TreeInv isFree root t) {fuel i : Nat} (h1 : 1 ≤ i) (h2 : i < t.vertices.length)
    (h3 : i ≤ fuel) :
    untilRoot t fuel i ≠ [] ∧ (untilRoot t fuel i).getLast? = some root ∧
      ∀ q ∈ (untilRoot t fuel i).dropLast,
        (∃ j, 1 ≤ j ∧ j < t.vertices.length ∧ q = t.get j) ∧ isFree q = true := by
  obtain ⟨l, hl, hmem⟩ := untilRoot_decomp h fuel i h1 h2 h3
  rw [hl]
  refine ⟨by simp, by simp, ?_⟩
  intro q hq
  rw [List.dropLast_concat] at hq
  obtain ⟨j, j1, j2, rfl⟩ := hmem q hq
  exact ⟨⟨j, j1, j2, rfl⟩, h.free j j1 j2⟩

/-! ### 3–4. Shape of a returned path -/

/-- [G] main-loop level, any valid `nearest`, any two trees that satisfy the invariant with the
roots their tags demand (`start` for the `isStart` tree, `goal` for the other) and carry opposite
tags — in either order: a returned path is `start :: mid ++ [goal]` with every element of `mid`
accepted by `isFree`. -/
theorem path_shape_with {nearest : RTree R → Cfg R → Nat} (hn : ValidNearest nearest)
    {isFree : Cfg R → Bool} {ext : R} {stop : Nat → Bool} {start goal : Cfg R}
    {n i : Nat} {samples : List (Cfg R)} {ta tb : RTree R} {p : List (Cfg R)}
    (ha : TreeInv isFree (rootOf start goal ta) ta) (hb : TreeInv isFree (rootOf start goal tb) tb)
    (htag : ta.isStart = !tb.isStart)
    (h : dualRrtWith nearest isFree ext stop n i samples ta tb = .path p) :
    ∃ mid, p = start :: mid ++ [goal] ∧ ∀ q ∈ mid, isFree q = true := by
  have H := stepHyp_tree hn isFree ext (rootOf start goal) (fun _ _ _ => rfl)
  obtain ⟨ta', tb', ni, ri, ia, ib, tags, n1, n2, r1, r2, -, rfl⟩ :=
    dualRrtWith_path (stop := stop) H n i samples ta tb p (fun _ _ => trivial) ha hb h
  obtain ⟨mid, hmid, hmem⟩ := joinPath_decomp ia ib n1 n2 r1 r2
  have htag' : ta'.isStart = !tb'.isStart := by
    rcases tags with ⟨e1, e2⟩ | ⟨e1, e2⟩
    · rw [e1, e2]; exact htag
    · rw [e1, e2, htag]; simp
  refine ⟨mid, ?_, ?_⟩
  · rw [hmid]
    by_cases hs : tb'.isStart = true
    · have hs2 : ta'.isStart = false := by rw [htag', hs]; rfl
      simp [rootOf, hs, hs2]
    · have hs' : tb'.isStart = false := by simpa using hs
      have hs2 : ta'.isStart = true := by rw [htag', hs']; rfl
      simp [rootOf, hs', hs2]
  · intro q hq
    rcases hmem q hq with ⟨j, j1, j2, rfl⟩ | ⟨j, j1, j2, rfl⟩
    · exact ia.free j j1 j2
    · exact ib.free j j1 j2

/-- [G] `dual_rrt_connect`: a returned path is `start :: mid ++ [goal]`, every element of `mid`
accepted by `isFree`. -/
theorem path_shape {start goal : Cfg R} {isFree : Cfg R → Bool} {samples : List (Cfg R)} {ext : R}
    {maxTry : Nat} {stop : Nat → Bool} {p : List (Cfg R)}
    (h : dualRrtConnect start goal isFree samples ext maxTry stop = .path p) :
    ∃ mid, p = start :: mid ++ [goal] ∧ ∀ q ∈ mid, isFree q = true :=
  path_shape_with nearestIdx_valid (start := start) (goal := goal)
    (ta := ⟨[⟨none, start⟩], true⟩) (tb := ⟨[⟨none, goal⟩], false⟩)
    (show TreeInv isFree (rootOf start goal ⟨[⟨none, start⟩], true⟩) _ from
      TreeInv.init isFree start true)
    (show TreeInv isFree (rootOf start goal ⟨[⟨none, goal⟩], false⟩) _ from
      TreeInv.init isFree goal false)
    rfl h

/-- [G] the path begins with the start vector and ends with the goal vector exactly -/
theorem path_endpoints {start goal : Cfg R} {isFree : Cfg R → Bool} {samples : List (Cfg R)}
    {ext : R} {maxTry : Nat} {stop : Nat → Bool} {p : List (Cfg R)}
    (h : dualRrtConnect start goal isFree samples ext maxTry stop = .path p) :
    p.head? = some start ∧ p.getLast? = some goal := by
  obtain ⟨mid, rfl, -⟩ := path_shape h
  exact ⟨rfl, List.getLast?_concat⟩

/-- [G] the same in the other parity of the tree swap (the trees handed over in the order
goal-tree, start-tree): the `isStart` tag, not the argument position, decides the orientation -/
theorem path_endpoints_swapped {nearest : RTree R → Cfg R → Nat} (hn : ValidNearest nearest)
    {start goal : Cfg R} {isFree : Cfg R → Bool} {samples : List (Cfg R)} {ext : R}
    {n i : Nat} {stop : Nat → Bool} {p : List (Cfg R)}
    (h : dualRrtWith nearest isFree ext stop n i samples ⟨[⟨none, goal⟩], false⟩
      ⟨[⟨none, start⟩], true⟩ = .path p) :
    p.head? = some start ∧ p.getLast? = some goal := by
  obtain ⟨mid, rfl, -⟩ := path_shape_with hn (start := start) (goal := goal)
    (ta := ⟨[⟨none, goal⟩], false⟩) (tb := ⟨[⟨none, start⟩], true⟩)
    (show TreeInv isFree (rootOf start goal ⟨[⟨none, goal⟩], false⟩) _ from
      TreeInv.init isFree goal false)
    (show TreeInv isFree (rootOf start goal ⟨[⟨none, start⟩], true⟩) _ from
      TreeInv.init isFree start true) rfl h
  exact ⟨rfl, List.getLast?_concat⟩

/-- [G] every node of the path other than the first and the last is reported collision-free -/
theorem path_free {start goal : Cfg R} {isFree : Cfg R → Bool} {samples : List (Cfg R)} {ext : R}
    {maxTry : Nat} {stop : Nat → Bool} {p : List (Cfg R)}
    (h : dualRrtConnect start goal isFree samples ext maxTry stop = .path p)
    (k : Nat) (h1 : 0 < k) (h2 : k + 1 < p.length) : isFree (p[k]'(by omega)) = true := by
  obtain ⟨mid, rfl, hfree⟩ := path_shape h
  have hlen : k - 1 < mid.length := by simp at h2; omega
  have : (start :: mid ++ [goal])[k]'(by omega) = mid[k - 1] := by
    obtain ⟨m, rfl⟩ : ∃ m, k = m + 1 := ⟨k - 1, by omega⟩
    simp only [List.cons_append, List.getElem_cons_succ, Nat.add_sub_cancel]
    exact List.getElem_append_left hlen
  rw [this]
  exact hfree _ (List.getElem_mem hlen)

/-- [G] a returned path has at least two nodes -/
theorem path_length {start goal : Cfg R} {isFree : Cfg R → Bool} {samples : List (Cfg R)} {ext : R}
    {maxTry : Nat} {stop : Nat → Bool} {p : List (Cfg R)}
    (h : dualRrtConnect start goal isFree samples ext maxTry stop = .path p) : 2 ≤ p.length := by
  obtain ⟨mid, rfl, -⟩ := path_shape h
  simp

/-! ### 5. Cancellation -/

/-- [G] main-loop level: the flag raised at the current iteration (and a try left) gives
`cancelled` -/
theorem cancel_now (nearest : RTree R → Cfg R → Nat) (isFree : Cfg R → Bool) (ext : R)
    (stop : Nat → Bool) (n i : Nat) (samples : List (Cfg R)) (ta tb : RTree R) (hn : 0 < n)
    (h : stop i = true) :
    dualRrtWith nearest isFree ext stop n i samples ta tb = .cancelled := by
  obtain ⟨m, rfl⟩ : ∃ m, n = m + 1 := ⟨n - 1, by omega⟩
  exact dualRrtWith_stop nearest isFree ext stop m i samples ta tb h

/-- [G] the flag raised before the first iteration: `cancelled` -/
theorem cancel (start goal : Cfg R) (isFree : Cfg R → Bool) (samples : List (Cfg R)) (ext : R)
    (maxTry : Nat) (stop : Nat → Bool) (h0 : stop 0 = true) (hm : 0 < maxTry) :
    dualRrtConnect start goal isFree samples ext maxTry stop = .cancelled :=
  cancel_now _ _ _ _ _ _ _ _ _ hm h0

/-- [G] the flag always raised: `cancelled`, unless no try was allowed at all -/
theorem cancel_always (start goal : Cfg R) (isFree : Cfg R → Bool) (samples : List (Cfg R)) (ext : R)
    (maxTry : Nat) (stop : Nat → Bool) (h : ∀ i, stop i = true) :
    dualRrtConnect start goal isFree samples ext maxTry stop = .cancelled ∨
      (maxTry = 0 ∧ dualRrtConnect start goal isFree samples ext maxTry stop = .failed) := by
  by_cases hm : maxTry = 0
  · right; subst hm; exact ⟨rfl, dualRrtWith_zero _ _ _ _ _ _ _ _⟩
  · left; exact cancel _ _ _ _ _ _ _ (h 0) (by omega)

/-- [G] main-loop level: if a path is returned although the flag is up at iteration `j ≥ i`, the
path was found in the iterations `i, …, j - 1` (the run limited to `j - i` tries returns it); in
particular no iteration at which the flag was up has been started. -/
theorem path_before_stop_with (nearest : RTree R → Cfg R → Nat) (isFree : Cfg R → Bool) (ext : R)
    (stop : Nat → Bool) (n i : Nat) (samples : List (Cfg R)) (ta tb : RTree R) (p : List (Cfg R))
    (j : Nat) (hij : i ≤ j) (hj : stop j = true)
    (h : dualRrtWith nearest isFree ext stop n i samples ta tb = .path p) :
    dualRrtWith nearest isFree ext stop (j - i) i samples ta tb = .path p :=
  dualRrtWith_path_before_stop nearest isFree ext stop n i samples ta tb p j hij hj h

/-- [G] `dual_rrt_connect`: a path returned although the flag is up at iteration `j` was found
within the first `j` tries. -/
theorem path_before_stop (start goal : Cfg R) (isFree : Cfg R → Bool) (samples : List (Cfg R))
    (ext : R) (maxTry : Nat) (stop : Nat → Bool) (p : List (Cfg R)) (j : Nat) (hj : stop j = true)
    (h : dualRrtConnect start goal isFree samples ext maxTry stop = .path p) :
    dualRrtConnect start goal isFree samples ext j stop = .path p :=
  dualRrtWith_path_before_stop _ _ _ _ _ _ _ _ _ p j (Nat.zero_le j) hj h

/-- [G] a path is only returned if the flag was down at the first iteration -/
theorem path_stop_false (start goal : Cfg R) (isFree : Cfg R → Bool) (samples : List (Cfg R))
    (ext : R) (maxTry : Nat) (stop : Nat → Bool) (p : List (Cfg R))
    (h : dualRrtConnect start goal isFree samples ext maxTry stop = .path p) : stop 0 = false := by
  by_cases h0 : stop 0 = true
  · have := path_before_stop start goal isFree samples ext maxTry stop p 0 h0 h
    unfold dualRrtConnect at this
    rw [dualRrtWith_zero] at this
    cases this
  · simpa using h0

end Generic

section RealPart

/-! ### 6. Step length -/

/-- [R] at `ℝ` the model's `cfgDist` is the Euclidean distance (over the common prefix of the two
lists; `sumSq (x :: a) (y :: b) = (x - y) ^ 2 + sumSq a b`) -/
theorem cfgDist_euclid (a b : List ℝ) : cfgDist a b = Real.sqrt (sumSq a b) := cfgDist_eq a b

/-- [R] six joints, written out -/
theorem cfgDist_six (a1 a2 a3 a4 a5 a6 b1 b2 b3 b4 b5 b6 : ℝ) :
    cfgDist [a1, a2, a3, a4, a5, a6] [b1, b2, b3, b4, b5, b6] =
      Real.sqrt ((a1 - b1) ^ 2 + (a2 - b2) ^ 2 + (a3 - b3) ^ 2 + (a4 - b4) ^ 2 + (a5 - b5) ^ 2 +
        (a6 - b6) ^ 2) := by
  rw [cfgDist_eq]; simp only [sumSq]; congr 1; ring

/-- [R] triangle inequality for configurations with the same number of joints -/
theorem cfgDist_triangle (a b c : List ℝ) (hab : a.length = b.length) (hbc : b.length = c.length) :
    cfgDist a c ≤ cfgDist a b + cfgDist b c := RrtInv.cfgDist_triangle a b c hab hbc

/-- [R] the configuration `extend` tries to add (`extNew`: the target itself if it is closer than
`ext` to the nearest vertex, else the point on the segment) is at most `ext` away from the nearest
vertex, which becomes its parent -/
theorem extend_edge_le (nearest : RTree ℝ → Cfg ℝ → Nat) (t : RTree ℝ) (target : Cfg ℝ) {ext : ℝ}
    (hext : 0 < ext) : cfgDist (t.get (nearest t target)) (extNew nearest t target ext) ≤ ext :=
  extNew_edge nearest t target ext hext

/-- [R] the same, read off the result of `extend`: the new vertex `i` has a parent `pi` in the new
tree and the edge is at most `ext` long -/
theorem extendWith_edge_le {nearest : RTree ℝ → Cfg ℝ → Nat} (hn : ValidNearest nearest)
    {isFree : Cfg ℝ → Bool} {root : Cfg ℝ} {t : RTree ℝ} (h : TreeInv isFree root t)
    (target : Cfg ℝ) {ext : ℝ} (hext : 0 < ext) {i : Nat}
    (hs : (extendWith nearest t target ext isFree).2 = .reached i ∨
      (extendWith nearest t target ext isFree).2 = .advanced i) :
    ∃ pi, parentOf (extendWith nearest t target ext isFree).1 i = some pi ∧ pi < i ∧
      cfgDist ((extendWith nearest t target ext isFree).1.get pi)
        ((extendWith nearest t target ext isFree).1.get i) ≤ ext := by
  obtain ⟨hi, -, -, hp, -⟩ := extendWith_index h target ext hs
  have hv := hn t target h.nonempty
  refine ⟨nearest t target, hp, by omega, ?_⟩
  subst hi
  rw [extendWith_eq] at hs ⊢
  by_cases hf : isFree (extNew nearest t target ext) = true
  · simp only [if_pos hf]
    rw [get_push_last, get_push_lt _ _ _ hv]
    exact extNew_edge nearest t target ext hext
  · simp only [if_neg hf] at hs
    rcases hs with hs | hs <;> cases hs

/-- [R] `extend` keeps "every edge is at most `ext` long" -/
theorem extendWith_edgeInv {nearest : RTree ℝ → Cfg ℝ → Nat} (hn : ValidNearest nearest)
    {isFree : Cfg ℝ → Bool} {root : Cfg ℝ} {t : RTree ℝ} (h : TreeInv isFree root t)
    {ext : ℝ} (hext : 0 < ext) (he : EdgeInv ext t) (target : Cfg ℝ) :
    EdgeInv ext (extendWith nearest t target ext isFree).1 := by
  rw [extendWith_eq]
  split
  · exact EdgeInv.push h he (hn t target h.nonempty) (extNew_edge nearest t target ext hext)
  · exact he

/-- [R] `connect` keeps tree invariant, joint count and edge bound -/
theorem connectWith_gapInv {nearest : RTree ℝ → Cfg ℝ → Nat} (hn : ValidNearest nearest)
    {isFree : Cfg ℝ → Bool} {root : Cfg ℝ} {t : RTree ℝ} {ext : ℝ} (hext : 0 < ext) {n : Nat}
    (h : TreeInv isFree root t ∧ DimInv n t ∧ EdgeInv ext t) (fuel : Nat) {target : Cfg ℝ}
    (ht : target.length = n) :
    TreeInv isFree root (connectWith nearest fuel t target ext isFree).1 ∧
      DimInv n (connectWith nearest fuel t target ext isFree).1 ∧
      EdgeInv ext (connectWith nearest fuel t target ext isFree).1 :=
  (connectWith_spec (stepHyp_gap hn isFree hext n (fun _ => root) (fun _ _ _ => rfl))
    (target := target) ht fuel t h _ _ rfl).1

/-- [R] main-loop level: consecutive nodes of a returned path are at most `3 * ext` apart
(parent of the new vertex → new vertex → reaching vertex → its parent at the junction, one edge
elsewhere), provided all configurations have the same number `n` of joints. -/
theorem path_gap_with {nearest : RTree ℝ → Cfg ℝ → Nat} (hn : ValidNearest nearest)
    {isFree : Cfg ℝ → Bool} {ext : ℝ} (hext : 0 < ext) {stop : Nat → Bool} {start goal : Cfg ℝ}
    {dim n i : Nat} {samples : List (Cfg ℝ)} {ta tb : RTree ℝ} {p : List (Cfg ℝ)}
    (ha : TreeInv isFree (rootOf start goal ta) ta ∧ DimInv dim ta ∧ EdgeInv ext ta)
    (hb : TreeInv isFree (rootOf start goal tb) tb ∧ DimInv dim tb ∧ EdgeInv ext tb)
    (hs : ∀ q ∈ samples, q.length = dim)
    (h : dualRrtWith nearest isFree ext stop n i samples ta tb = .path p) :
    List.IsChain (fun a b => cfgDist a b ≤ 3 * ext) p := by
  have H := stepHyp_gap hn isFree hext dim (rootOf start goal) (fun _ _ _ => rfl)
  obtain ⟨ta', tb', ni, ri, ia, ib, -, n1, n2, r1, r2, hj, rfl⟩ :=
    dualRrtWith_path (stop := stop) H n i samples ta tb p hs ha hb h
  exact join_chain hext ia.1 ib.1 ia.2.2 ib.2.2 ia.2.1 ib.2.1 (by omega) (by omega) hj

/-- [R] `dual_rrt_connect`: consecutive nodes of a returned path are at most three planner steps
apart -/
theorem path_gap {start goal : Cfg ℝ} {isFree : Cfg ℝ → Bool} {samples : List (Cfg ℝ)} {ext : ℝ}
    {maxTry : Nat} {stop : Nat → Bool} {p : List (Cfg ℝ)} {dim : Nat} (hext : 0 < ext)
    (hstart : start.length = dim) (hgoal : goal.length = dim)
    (hs : ∀ q ∈ samples, q.length = dim)
    (h : dualRrtConnect start goal isFree samples ext maxTry stop = .path p)
    (k : Nat) (hk : k + 1 < p.length) : cfgDist (p[k]'(by omega)) p[k + 1] ≤ 3 * ext := by
  have hc : List.IsChain (fun a b => cfgDist a b ≤ 3 * ext) p :=
    path_gap_with RrtInv.nearestIdx_valid hext (start := start) (goal := goal)
      (ta := ⟨[⟨none, start⟩], true⟩) (tb := ⟨[⟨none, goal⟩], false⟩)
      ⟨show TreeInv isFree (rootOf start goal ⟨[⟨none, start⟩], true⟩) _ from
        TreeInv.init isFree start true, AllV.init _ start true hstart, EdgeInv.init ext start true⟩
      ⟨show TreeInv isFree (rootOf start goal ⟨[⟨none, goal⟩], false⟩) _ from
        TreeInv.init isFree goal false, AllV.init _ goal false hgoal, EdgeInv.init ext goal false⟩
      hs h
  exact List.isChain_iff_getElem.mp hc k hk

/-! ### 7. Limits -/

/-- [R] `InBox lo hi q` is componentwise `lo ≤ q ≤ hi` -/
theorem inBox_getElem {lo hi q : List ℝ} (h : InBox lo hi q) :
    lo.length = q.length ∧ hi.length = q.length ∧
      ∀ (k : Nat) (hk : k < q.length), lo[k]'(by rw [h.1.length_eq]; exact hk) ≤ q[k] ∧
        q[k] ≤ hi[k]'(by rw [← h.2.length_eq]; exact hk) := by
  refine ⟨h.1.length_eq, h.2.length_eq.symm, fun k hk => ⟨?_, ?_⟩⟩
  · exact (List.forall₂_iff_get.mp h.1).2 k (by rw [h.1.length_eq]; exact hk) hk
  · exact (List.forall₂_iff_get.mp h.2).2 k hk (by rw [← h.2.length_eq]; exact hk)

/-- [R] `extend` keeps "every vertex lies in the box" when the target lies in the box -/
theorem extendWith_box {nearest : RTree ℝ → Cfg ℝ → Nat} (hn : ValidNearest nearest)
    {isFree : Cfg ℝ → Bool} {root : Cfg ℝ} {t : RTree ℝ} (h : TreeInv isFree root t)
    {ext : ℝ} (hext : 0 < ext) {lo hi : List ℝ} (hb : AllV (InBox lo hi) t) {target : Cfg ℝ}
    (ht : InBox lo hi target) : AllV (InBox lo hi) (extendWith nearest t target ext isFree).1 :=
  (extendWith_inv (stepHyp_box hn isFree hext lo hi (fun _ => root) (fun _ _ _ => rfl))
    (t := t) ⟨h, hb⟩ ht).2

/-- [R] `connect` keeps "every vertex lies in the box" when the target lies in the box -/
theorem connectWith_box {nearest : RTree ℝ → Cfg ℝ → Nat} (hn : ValidNearest nearest)
    {isFree : Cfg ℝ → Bool} {root : Cfg ℝ} {t : RTree ℝ} (h : TreeInv isFree root t)
    {ext : ℝ} (hext : 0 < ext) {lo hi : List ℝ} (hb : AllV (InBox lo hi) t) (fuel : Nat)
    {target : Cfg ℝ} (ht : InBox lo hi target) :
    AllV (InBox lo hi) (connectWith nearest fuel t target ext isFree).1 :=
  (connectWith_spec (stepHyp_box hn isFree hext lo hi (fun _ => root) (fun _ _ _ => rfl))
    (target := target) ht fuel t ⟨h, hb⟩ _ _ rfl).1.2

/-- [R] main-loop level: if all vertices of both trees and all samples lie in the box, every node
of a returned path lies in the box -/
theorem path_in_box_with {nearest : RTree ℝ → Cfg ℝ → Nat} (hn : ValidNearest nearest)
    {isFree : Cfg ℝ → Bool} {ext : ℝ} (hext : 0 < ext) {stop : Nat → Bool} {start goal : Cfg ℝ}
    {lo hi : List ℝ} {n i : Nat} {samples : List (Cfg ℝ)} {ta tb : RTree ℝ} {p : List (Cfg ℝ)}
    (ha : TreeInv isFree (rootOf start goal ta) ta ∧ AllV (InBox lo hi) ta)
    (hb : TreeInv isFree (rootOf start goal tb) tb ∧ AllV (InBox lo hi) tb)
    (hs : ∀ q ∈ samples, InBox lo hi q)
    (h : dualRrtWith nearest isFree ext stop n i samples ta tb = .path p) :
    ∀ q ∈ p, InBox lo hi q := by
  have H := stepHyp_box hn isFree hext lo hi (rootOf start goal) (fun _ _ _ => rfl)
  obtain ⟨ta', tb', ni, ri, ia, ib, -, n1, n2, r1, r2, -, rfl⟩ :=
    dualRrtWith_path (stop := stop) H n i samples ta tb p hs ha hb h
  obtain ⟨mid, hmid, hmem⟩ := joinPath_decomp ia.1 ib.1 n1 n2 r1 r2
  have hra : InBox lo hi (rootOf start goal ta') := by
    rw [← ia.1.root_data]; exact ia.2 0 ia.1.length_pos
  have hrb : InBox lo hi (rootOf start goal tb') := by
    rw [← ib.1.root_data]; exact ib.2 0 ib.1.length_pos
  have hm : ∀ q ∈ mid, InBox lo hi q := by
    intro q hq
    rcases hmem q hq with ⟨j, -, j2, rfl⟩ | ⟨j, -, j2, rfl⟩
    · exact ia.2 j j2
    · exact ib.2 j j2
  intro q hq
  rw [hmid] at hq
  split at hq
  · simp only [List.cons_append, List.mem_cons, List.mem_append, List.not_mem_nil, or_false] at hq
    rcases hq with rfl | hq | rfl
    · exact hrb
    · exact hm q hq
    · exact hra
  · simp only [List.cons_append, List.mem_cons, List.mem_append, List.not_mem_nil, or_false] at hq
    rcases hq with rfl | hq | rfl
    · exact hra
    · exact hm q hq
    · exact hrb

/-- [R] `dual_rrt_connect`: with start, goal and all samples within the (non-wrapping) limits,
every node of a returned path is within the limits -/
theorem path_in_box {start goal : Cfg ℝ} {isFree : Cfg ℝ → Bool} {samples : List (Cfg ℝ)} {ext : ℝ}
    {maxTry : Nat} {stop : Nat → Bool} {p : List (Cfg ℝ)} {lo hi : List ℝ} (hext : 0 < ext)
    (hstart : InBox lo hi start) (hgoal : InBox lo hi goal) (hs : ∀ q ∈ samples, InBox lo hi q)
    (h : dualRrtConnect start goal isFree samples ext maxTry stop = .path p) :
    ∀ q ∈ p, InBox lo hi q :=
  path_in_box_with RrtInv.nearestIdx_valid hext (start := start) (goal := goal)
    (ta := ⟨[⟨none, start⟩], true⟩) (tb := ⟨[⟨none, goal⟩], false⟩)
    ⟨show TreeInv isFree (rootOf start goal ⟨[⟨none, start⟩], true⟩) _ from
      TreeInv.init isFree start true, AllV.init _ start true hstart⟩
    ⟨show TreeInv isFree (rootOf start goal ⟨[⟨none, goal⟩], false⟩) _ from
      TreeInv.init isFree goal false, AllV.init _ goal false hgoal⟩
    hs h

/-! ### 8. Non-vacuity -/

/-- the hypotheses of the invariant lemmas are satisfiable: the initial trees -/
example (isFree : Cfg ℝ → Bool) (start goal : Cfg ℝ) :
    TreeInv isFree start ⟨[⟨none, start⟩], true⟩ ∧ TreeInv isFree goal ⟨[⟨none, goal⟩], false⟩ :=
  ⟨TreeInv.init _ _ _, TreeInv.init _ _ _⟩

private theorem nearest_single (r : Cfg ℝ) (b : Bool) (q : Cfg ℝ) :
    nearestIdx (R := ℝ) ⟨[⟨none, r⟩], b⟩ q = 0 := rfl

private theorem extNew_close (r q : Cfg ℝ) (b : Bool) (ext : ℝ) (h : cfgDist q r < ext) :
    extNew nearestIdx (⟨[⟨none, r⟩], b⟩ : RTree ℝ) q ext = q := by
  rw [extNew_real, nearest_single]
  exact if_pos h

/-- [R] a concrete successful run (one joint, nothing collides, start `[0]`, goal `[1]`, step 2,
one sample `[1]`): the planner does return a path, and it is `[start, goal]`. -/
example : dualRrtConnect (R := ℝ) [0] [1] (fun _ => true) [[1]] 2 1 (fun _ => false) =
    .path [[0], [1]] := by
  have d1 : cfgDist ([1] : Cfg ℝ) [0] < 2 := by
    rw [cfgDist_eq]; simp [sumSq]
  have d2 : cfgDist ([1] : Cfg ℝ) [1] < 2 := by
    rw [cfgDist_self]; norm_num
  have e1 := extNew_close [0] [1] true 2 d1
  have e2 := extNew_close [1] [1] false 2 d2
  have hc : connectWith nearestIdx connectFuel (⟨[⟨none, [1]⟩], false⟩ : RTree ℝ)
      (extNew nearestIdx (⟨[⟨none, [0]⟩], true⟩ : RTree ℝ) [1] 2) 2 (fun _ => true) =
      (push ⟨[⟨none, [1]⟩], false⟩ 0 [1], .reached 1) := by
    rw [e1]
    show connectWith nearestIdx (999999 + 1) _ _ _ _ = _
    rw [connectWith_succ, e2, nearest_single, if_pos rfl, if_pos d2]
    rfl
  unfold dualRrtConnect
  rw [dualRrtWith_reached nearestIdx _ _ _ 0 0 [1] [] _ _ _ 1 rfl rfl hc, e1, nearest_single]
  rfl

/-- [R] the same input with the flag raised: `cancelled` -/
example : dualRrtConnect (R := ℝ) [0] [1] (fun _ => true) [[1]] 2 1 (fun _ => true) = .cancelled :=
  cancel _ _ _ _ _ _ _ rfl (by norm_num)

end RealPart

end Opw.C13
