/-
  C10 — Collision verdicts (`collisions.rs`): the pairs the code tests are exactly the pairs of the
  property statement that pass the never-collides gate, each pair is judged like a brute-force check
  at the safety distance of that pair, and the three check modes report all hits / one of the hits /
  nothing.
  All theorems are of kind [A]: they hold for EVERY scene (any environment length, any answers of
  the geometry oracles `intersects`, `distance`, `aabbNear`), every safety table and every `choice`
  function (the nondeterminism of the parallel `find_map_any`); generic number type `R`, so they hold
  of the `Float` reading itself.  Order facts about numbers are explicit hypotheses where needed.
  Property theorems only; helper lemmas live in `Lemmas/Coll.lean`.
-/
import OpwVerif.Lemmas.Coll
namespace Opw.C10
open Opw Opw.Coll

variable {R : Type} [OpwNum R]

/-! ### Vocabulary -/

/-- the AABB pre-filter never discards a pair whose shapes are within the safety distance of that
pair (what a correct bounding-volume test guarantees) -/
def PrefilterSound (sc : Scene R) (safety : Safety R) : Prop :=
  ∀ i j, sc.distance i j ≤ safety.minDistance i j → sc.aabbNear i j (safety.minDistance i j) = true

/-- the two comparisons the code makes with `NEVER_COLLIDES` (`r > n` in `check_required`,
`r <= n` in `CollisionTask::collides`) are complementary for the safety distances of the table.
True over the reals and for `f64` whenever the distance is not NaN. -/
def GateOk (own : Safety R) : Prop :=
  ∀ a b, ¬ (own.minDistance a b > neverCollides) → own.minDistance a b ≤ neverCollides

/-- the table does not hold both orientations of a pair with different values -/
def SpecialConsistent (s : Safety R) : Prop :=
  ∀ a b r, lookupPair s.special a b = some r →
    lookupPair s.special b a = none ∨ lookupPair s.special b a = some r

/-! ### 1. Which pairs are enumerated -/

/-- [A] full check (`skip = []`): the code enumerates exactly the pairs of the property statement
that pass `check_required`, plus the tool–base pair, which it pushes whenever both exist (regardless
of the never-collides gate; its verdict is still gated, see `hits_iff`). -/
theorem mem_tasks_iff (sc : Scene R) (own : Safety R) (p : Nat × Nat) :
    p ∈ tasks sc own [] ↔
      p ∈ relevantPairs sc ∧ (checkRequired own [] p.1 p.2 = true ∨ p = (jTool, jBase)) := by
  rw [mem_relevantPairs]; exact mem_tasks_of_tool_moved sc own (by simp) p

/-- [A] for a pair of the property statement, `check_required` with no skips is just the comparison
of its safety distance with `NEVER_COLLIDES` -/
theorem checkRequired_iff_gate (sc : Scene R) (own : Safety R) (p : Nat × Nat) (hp : p ∈ relevantPairs sc) :
    checkRequired own [] p.1 p.2 = true ↔ own.minDistance p.1 p.2 > neverCollides :=
  checkRequired_nil_relevant ((mem_relevantPairs sc p).1 hp)

/-- [A] no pair is enumerated twice (any skip list) -/
theorem tasks_nodup (sc : Scene R) (own : Safety R) (skip : List Nat) : (tasks sc own skip).Nodup :=
  Coll.tasks_nodup sc own skip

omit [OpwNum R] in
/-- [A] the pairs of the property statement, written out -/
theorem relevantPairs_complete (sc : Scene R) (i j : Nat) :
    (i, j) ∈ relevantPairs sc ↔
      (i < 6 ∧ j < 6 ∧ i + 1 < j) ∨
      (i < 6 ∧ envStart ≤ j ∧ j < envStart + sc.envLen) ∨
      (sc.hasTool = true ∧ i = jTool ∧ envStart ≤ j ∧ j < envStart + sc.envLen) ∨
      (sc.hasTool = true ∧ i < 4 ∧ j = jTool) ∨
      (sc.hasBase = true ∧ 1 ≤ i ∧ i < 6 ∧ j = jBase) ∨
      (sc.hasTool = true ∧ sc.hasBase = true ∧ i = jTool ∧ j = jBase) := by
  rw [mem_relevantPairs]; simp only [Relevant, mem_envIds, Prod.mk.injEq]

/-! ### 2. One pair -/

/-- [A] with a sound pre-filter the verdict of one task is the brute-force verdict: never collides
at or below `NEVER_COLLIDES`, the intersection test at `TOUCH_ONLY`, else `distance ≤ r` -/
theorem taskCollides_eq_pairVerdict {sc : Scene R} {safety : Safety R} (h : PrefilterSound sc safety)
    (i j : Nat) : taskCollides sc safety i j = pairVerdict sc safety i j :=
  Coll.taskCollides_eq_pairVerdict h i j

/-- [A] without any assumption the pre-filter can only remove hits -/
theorem taskCollides_imp_pairVerdict (sc : Scene R) (safety : Safety R) (i j : Nat)
    (h : taskCollides sc safety i j = true) : pairVerdict sc safety i j = true := by
  unfold taskCollides at h
  unfold pairVerdict
  simp only at h ⊢
  split
  · rename_i h1; simp [h1] at h
  · rename_i h1
    rw [if_neg h1] at h
    split
    · rename_i h2; rw [if_pos h2] at h; exact h
    · rename_i h2
      rw [if_neg h2] at h
      split at h
      · exact absurd h (by simp)
      · exact h

/-! ### 3. The hits of the full check -/

/-- [A] `collision_details` / `collides` (gate and verdict from the same table): the colliding tasks
are exactly the colliding pairs of the property statement.  A pair gated out by `check_required`
has verdict `false` anyway, given `GateOk`. -/
theorem hits_iff (sc : Scene R) (own : Safety R) (hle : GateOk own) (p : Nat × Nat) :
    p ∈ (tasks sc own []).filter (fun p => taskCollides sc own p.1 p.2) ↔
      p ∈ relevantPairs sc ∧ taskCollides sc own p.1 p.2 = true := by
  rw [List.mem_filter, mem_tasks_iff]
  constructor
  · rintro ⟨⟨h1, -⟩, h2⟩; exact ⟨h1, h2⟩
  · rintro ⟨h1, h2⟩
    refine ⟨⟨h1, .inl ?_⟩, h2⟩
    rw [checkRequired_iff_gate sc own p h1]
    by_contra hn
    exact taskCollides_true_not_le h2 (hle _ _ hn)

/-! ### 4. All-collisions mode -/

/-- [A] all-collisions mode reports exactly the pairs of the property statement whose brute-force
verdict at their safety distance is "collides", each normalised to (smaller index, larger index) -/
theorem all_mode_exact (sc : Scene R) (own : Safety R) (choice : List (Nat × Nat) → Option (Nat × Nat))
    (hmode : own.mode = .allCollisions) (hpre : PrefilterSound sc own) (hle : GateOk own)
    (q : Nat × Nat) :
    q ∈ collisionDetails sc own choice ↔
      ∃ p ∈ relevantPairs sc, pairVerdict sc own p.1 p.2 = true ∧ q = normPair p := by
  simp only [collisionDetails, detect, Option.getD_none, hmode, processTasks_all, hitsOf, List.mem_map]
  constructor
  · rintro ⟨p, hp, rfl⟩
    rw [hits_iff sc own hle] at hp
    exact ⟨p, hp.1, by rw [← Coll.taskCollides_eq_pairVerdict hpre]; exact hp.2, rfl⟩
  · rintro ⟨p, hp, hv, rfl⟩
    exact ⟨p, (hits_iff sc own hle p).2 ⟨hp, by rw [Coll.taskCollides_eq_pairVerdict hpre]; exact hv⟩, rfl⟩

/-- [A] the report in all-collisions mode, as a list: the colliding relevant tasks in enumeration
order (no assumption) -/
theorem all_mode_list (sc : Scene R) (own : Safety R) (choice : List (Nat × Nat) → Option (Nat × Nat))
    (hmode : own.mode = .allCollisions) :
    collisionDetails sc own choice =
      ((tasks sc own []).filter (fun p => taskCollides sc own p.1 p.2)).map normPair := by
  simp only [collisionDetails, detect, Option.getD_none, hmode, processTasks_all, hitsOf]

/-- [A] `near` in all-collisions mode of the other table: pairs gated by the body's own table,
judged at the distances of the other table -/
theorem near_all_mode (sc : Scene R) (own other : Safety R)
    (choice : List (Nat × Nat) → Option (Nat × Nat)) (hmode : other.mode = .allCollisions)
    (q : Nat × Nat) :
    q ∈ near sc own other choice ↔
      ∃ p ∈ relevantPairs sc, (checkRequired own [] p.1 p.2 = true ∨ p = (jTool, jBase)) ∧
        taskCollides sc other p.1 p.2 = true ∧ q = normPair p := by
  simp only [near, detect, Option.getD_none, hmode, processTasks_all, mem_hitsOf, mem_tasks_iff]
  constructor
  · rintro ⟨p, ⟨h1, h2⟩, h3, rfl⟩; exact ⟨p, h1, h2, h3, rfl⟩
  · rintro ⟨p, h1, h2, h3, rfl⟩; exact ⟨p, ⟨h1, h2⟩, h3, rfl⟩

/-! ### 5. First-collision mode, no-check mode, `collides` -/

/-- [A] first-collision mode, for EVERY `choice`: at most one pair is reported, it is one of the
pairs all-collisions mode would report, and nothing is reported only if there is no hit at all -/
theorem first_mode (sc : Scene R) (own : Safety R) (choice : List (Nat × Nat) → Option (Nat × Nat))
    (hmode : own.mode = .firstCollisionOnly) :
    let hits := ((tasks sc own []).filter (fun p => taskCollides sc own p.1 p.2)).map normPair
    (collisionDetails sc own choice).length ≤ 1 ∧
    (∀ q ∈ collisionDetails sc own choice, q ∈ hits) ∧
    (collisionDetails sc own choice = [] ↔ hits = []) := by
  intro hits
  have hcd : collisionDetails sc own choice =
      processTasks sc own .firstCollisionOnly (tasks sc own []) choice := by
    simp only [collisionDetails, detect, Option.getD_none, hmode]
  rw [hcd]
  rcases processTasks_first sc own (tasks sc own []) choice with ⟨h1, h2⟩ | ⟨c, hc, h2⟩
  · rw [h2]; exact ⟨by simp, by simp, ⟨fun _ => h1, fun _ => rfl⟩⟩
  · rw [h2]
    refine ⟨by simp, ?_, ?_⟩
    · intro q hq; rw [List.mem_singleton] at hq; rw [hq]; exact hc
    · constructor
      · intro h; exact absurd h (by simp)
      · intro h; change hitsOf sc own (tasks sc own []) = [] at h; rw [h] at hc
        exact absurd hc List.not_mem_nil

/-- [A] first-collision mode in the vocabulary of the property statement (with `GateOk`): the
reported pair is a normalised colliding relevant pair, and the report is empty iff no relevant pair
collides -/
theorem first_mode_relevant (sc : Scene R) (own : Safety R)
    (choice : List (Nat × Nat) → Option (Nat × Nat))
    (hmode : own.mode = .firstCollisionOnly) (hle : GateOk own) :
    (∀ q ∈ collisionDetails sc own choice,
        ∃ p ∈ relevantPairs sc, taskCollides sc own p.1 p.2 = true ∧ q = normPair p) ∧
    (collisionDetails sc own choice = [] ↔
        ∀ p ∈ relevantPairs sc, taskCollides sc own p.1 p.2 = false) := by
  obtain ⟨-, h2, h3⟩ := first_mode sc own choice hmode
  constructor
  · intro q hq
    have := h2 q hq
    rw [List.mem_map] at this
    obtain ⟨p, hp, rfl⟩ := this
    rw [hits_iff sc own hle] at hp
    exact ⟨p, hp.1, hp.2, rfl⟩
  · rw [h3, List.map_eq_nil_iff, List.filter_eq_nil_iff]
    constructor
    · intro h p hp
      cases hv : taskCollides sc own p.1 p.2
      · rfl
      · have := (hits_iff sc own hle p).2 ⟨hp, hv⟩
        rw [List.mem_filter] at this
        exact absurd this.2 (h p this.1)
    · intro h p hp
      have hr := ((mem_tasks_iff sc own p).1 hp).1
      simp [h p hr]

/-- [A] no-check mode reports nothing -/
theorem nocheck_empty (sc : Scene R) (own : Safety R) (choice : List (Nat × Nat) → Option (Nat × Nat))
    (hmode : own.mode = .noCheck) :
    collisionDetails sc own choice = [] ∧ collides sc own choice = false := by
  constructor
  · simp only [collisionDetails, detect, Option.getD_none, hmode, processTasks_noCheck]
  · simp [collides, hmode, beq_noCheck]

/-- [A] `collides` (no assumption): true iff checking is on and some enumerated task collides -/
theorem collides_iff_tasks (sc : Scene R) (own : Safety R) (choice : List (Nat × Nat) → Option (Nat × Nat)) :
    collides sc own choice = true ↔
      own.mode ≠ .noCheck ∧ ∃ p ∈ tasks sc own [], taskCollides sc own p.1 p.2 = true := by
  unfold collides
  cases hm : own.mode
  all_goals simp only [detect, Option.getD_some, processTasks_first_isEmpty]
  all_goals simp [hitsOf, beq_noCheck]

/-- [A] `collides` is true iff checking is on and some pair of the property statement collides -/
theorem collides_iff (sc : Scene R) (own : Safety R) (choice : List (Nat × Nat) → Option (Nat × Nat))
    (hle : GateOk own) :
    collides sc own choice = true ↔
      own.mode ≠ .noCheck ∧ ∃ p ∈ relevantPairs sc, taskCollides sc own p.1 p.2 = true := by
  rw [collides_iff_tasks]
  refine and_congr_right fun _ => ?_
  constructor
  · rintro ⟨p, hp, hv⟩; exact ⟨p, ((mem_tasks_iff sc own p).1 hp).1, hv⟩
  · rintro ⟨p, hp, hv⟩
    have := (hits_iff sc own hle p).2 ⟨hp, hv⟩
    rw [List.mem_filter] at this
    exact ⟨p, this.1, hv⟩

/-- [A] the same with the brute-force verdict -/
theorem collides_iff_pairVerdict (sc : Scene R) (own : Safety R)
    (choice : List (Nat × Nat) → Option (Nat × Nat)) (hpre : PrefilterSound sc own) (hle : GateOk own) :
    collides sc own choice = true ↔
      own.mode ≠ .noCheck ∧ ∃ p ∈ relevantPairs sc, pairVerdict sc own p.1 p.2 = true := by
  rw [collides_iff sc own choice hle]
  simp only [Coll.taskCollides_eq_pairVerdict hpre]

/-! ### 6. The nondeterministic choice does not matter -/

/-- [A] in all-collisions and in no-check mode the report does not depend on `choice` -/
theorem report_choice_independent (sc : Scene R) (own : Safety R)
    (c1 c2 : List (Nat × Nat) → Option (Nat × Nat)) (hmode : own.mode ≠ .firstCollisionOnly) :
    collisionDetails sc own c1 = collisionDetails sc own c2 := by
  cases hm : own.mode
  · exact absurd hm hmode
  · simp only [collisionDetails, detect, Option.getD_none, hm, processTasks_all]
  · simp only [collisionDetails, detect, Option.getD_none, hm, processTasks_noCheck]

/-- [A] in first-collision mode only WHICH hit is reported depends on `choice`, not whether one is -/
theorem report_isEmpty_choice_independent (sc : Scene R) (own : Safety R)
    (c1 c2 : List (Nat × Nat) → Option (Nat × Nat)) :
    (collisionDetails sc own c1).isEmpty = (collisionDetails sc own c2).isEmpty := by
  cases hm : own.mode
  · simp only [collisionDetails, detect, Option.getD_none, hm, processTasks_first_isEmpty]
  · simp only [collisionDetails, detect, Option.getD_none, hm, processTasks_all]
  · simp only [collisionDetails, detect, Option.getD_none, hm, processTasks_noCheck]

/-- [A] `collides` does not depend on `choice` at all -/
theorem collides_choice_independent (sc : Scene R) (own : Safety R)
    (c1 c2 : List (Nat × Nat) → Option (Nat × Nat)) :
    collides sc own c1 = collides sc own c2 := by
  simp only [collides, detect, Option.getD_some, processTasks_first_isEmpty]

/-! ### 7. The safety distance of a pair does not depend on its orientation -/

omit [OpwNum R] in
/-- [A] `min_distance(a, b) = min_distance(b, a)` when the table is consistent -/
theorem minDistance_symm (s : Safety R) (h : SpecialConsistent s) (a b : Nat) :
    s.minDistance a b = s.minDistance b a := by
  unfold Safety.minDistance
  cases hab : lookupPair s.special a b with
  | some r =>
    cases hba : lookupPair s.special b a with
    | some r' =>
      rcases h a b r hab with h' | h'
      · rw [hba] at h'; cases h'
      · rw [hba] at h'; simp only [Option.some.injEq] at h'; simp only [h']
    | none => rfl
  | none =>
    cases hba : lookupPair s.special b a with
    | some r' => rfl
    | none => simp only [Bool.or_comm]

/-- [A] hence the verdict of a pair does not depend on its orientation when the oracles do not -/
theorem pairVerdict_symm (sc : Scene R) (s : Safety R) (h : SpecialConsistent s) (a b : Nat)
    (hi : sc.intersects a b = sc.intersects b a) (hd : sc.distance a b = sc.distance b a) :
    pairVerdict sc s a b = pairVerdict sc s b a := by
  unfold pairVerdict
  simp only [minDistance_symm s h a b, hi, hd]

/-! ### 8. Examples -/

/-- a scene with two environment objects, a tool and a base: 10 non-adjacent joint pairs, 6·2
joint–environment, 2 tool–environment, 4 joint–tool, 5 joint–base, 1 tool–base -/
example (ints : Nat → Nat → Bool) (dist : Nat → Nat → R) (near : Nat → Nat → R → Bool) :
    (relevantPairs (⟨2, true, true, ints, dist, near⟩ : Scene R)).length = 34 := rfl

example (ints : Nat → Nat → Bool) (dist : Nat → Nat → R) (near : Nat → Nat → R → Bool) :
    relevantPairs (⟨1, true, false, ints, dist, near⟩ : Scene R) =
      [(0, 2), (0, 3), (0, 4), (0, 5), (1, 3), (1, 4), (1, 5), (2, 4), (2, 5), (3, 5),
       (0, envStart), (1, envStart), (2, envStart), (3, envStart), (4, envStart), (5, envStart),
       (jTool, envStart), (0, jTool), (1, jTool), (2, jTool), (3, jTool)] := rfl

/-- a bare robot (no tool, no base, empty environment): the 10 non-adjacent joint pairs -/
example (ints : Nat → Nat → Bool) (dist : Nat → Nat → R) (near : Nat → Nat → R → Bool) :
    relevantPairs (⟨0, false, false, ints, dist, near⟩ : Scene R) =
      [(0, 2), (0, 3), (0, 4), (0, 5), (1, 3), (1, 4), (1, 5), (2, 4), (2, 5), (3, 5)] := rfl

/-- if every safety distance is above `NEVER_COLLIDES` the code enumerates all 34 pairs of that
scene, each exactly once -/
example (ints : Nat → Nat → Bool) (dist : Nat → Nat → R) (near : Nat → Nat → R → Bool) (own : Safety R)
    (hall : ∀ a b, own.minDistance a b > neverCollides) (p : Nat × Nat) :
    p ∈ tasks (⟨2, true, true, ints, dist, near⟩ : Scene R) own [] ↔
      p ∈ relevantPairs (⟨2, true, true, ints, dist, near⟩ : Scene R) := by
  rw [mem_tasks_iff]
  constructor
  · exact fun h => h.1
  · intro h; exact ⟨h, .inl ((checkRequired_iff_gate _ own p h).2 (hall _ _))⟩

end Opw.C10
