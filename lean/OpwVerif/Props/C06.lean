/-
  C06 — 5-DOF inverse kinematics keeps J6 as requested and reproduces the requested POSITION;
  robots declared 5-DOF answer all entry points through the 5-DOF solvers.

  All theorems are of kind [G]: generic in the number type `{R : Type} [OpwNum R]` with NO
  assumption on the arithmetic, so they hold of the IEEE `Float` reading of the model itself.
-/
import OpwVerif.Lemmas.Sound
import OpwVerif.Real
namespace Opw.C06
open Opw
variable {R : Type} [OpwNum R]

/-! ### 1 — J6 is passed through -/

/-- [G] `inverse_5dof`: J6 of every answer is the requested value (bit for bit in the `Float`
reading: it is stored, never computed). -/
theorem inverse5_j6 {k : Opw R} {pose : Iso R} {j6 : R} {s : J6 R}
    (h : s ∈ k.inverse5dof pose j6) : s.j6 = j6 := by
  unfold Opw.inverse5dof at h
  exact (sound5_of_mem_inverseIntern5 (mem_of_mem_filterCompliant h)).2

example {s : J6 Float} (h : s ∈ Ex.k5c.inverse5dof Ex.pose 0.25) : s.j6 = 0.25 := inverse5_j6 h

/-- [G] the same through any stack of Tool / Base / Frame wrappers and collision filtering -/
theorem stack_inverse5_j6 {k : Kin R} (hk : k.noPara) {pose : Iso R} {j6 : R} {s : J6 R}
    (h : s ∈ k.inverse5dof pose j6) : s.j6 = j6 :=
  inverse5_j6 (Kin.noPara_inverse5dof_mem k hk pose j6 s h)

/-- [G] … in particular for plain stacks (Tool / Base / Frame only) -/
theorem plain_stack_inverse5_j6 {k : Kin R} (hk : k.plain) {pose : Iso R} {j6 : R} {s : J6 R}
    (h : s ∈ k.inverse5dof pose j6) : s.j6 = j6 :=
  stack_inverse5_j6 hk.noPara h

example {s : J6 Float} (h : s ∈ Ex.stack5.inverse5dof Ex.pose 0.25) : s.j6 = 0.25 :=
  plain_stack_inverse5_j6 Ex.stack5_plain h

/-! ### 2 — the position is reproduced -/

/-- [G] `inverse_5dof`: every answer passed `compare_xyz_only` against the requested translation. -/
theorem inverse5_point {k : Opw R} {pose : Iso R} {j6 : R} {s : J6 R}
    (h : s ∈ k.inverse5dof pose j6) : Sound5 k.p pose s := by
  unfold Opw.inverse5dof at h
  exact (sound5_of_mem_inverseIntern5 (mem_of_mem_filterCompliant h)).1

example {s : J6 Float} (h : s ∈ Ex.k5c.inverse5dof Ex.pose 0.25) : Sound5 Ex.k5c.p Ex.pose s :=
  inverse5_point h

/-- [G] through wrappers: the innermost position check, at the local pose -/
theorem stack_inverse5_point {k : Kin R} (hk : k.noPara) {pose : Iso R} {j6 : R} {s : J6 R}
    (h : s ∈ k.inverse5dof pose j6) : Sound5 k.core.p (k.localPose pose) s :=
  inverse5_point (Kin.noPara_inverse5dof_mem k hk pose j6 s h)

/-! ### 3 — dispatch of the general entry points for a robot declared 5-DOF -/

/-- [G] `inverse` = `inverse_5dof(.., 0.0)` and `inverse_continuing` = `inverse_continuing_5dof`. -/
theorem dof5_dispatch {k : Opw R} (hd : k.p.dof = 5) (pose : Iso R) (prev : J6 R) :
    k.inverse pose = k.inverse5dof pose 0 ∧
      k.inverseContinuing pose prev = k.inverseContinuing5dof pose prev := by
  simp [Opw.inverse, Opw.inverseContinuing, hd]

example : Ex.k5c.inverse Ex.pose = Ex.k5c.inverse5dof Ex.pose 0 ∧
    Ex.k5c.inverseContinuing Ex.pose Ex.prev = Ex.k5c.inverseContinuing5dof Ex.pose Ex.prev :=
  dof5_dispatch Ex.p5_dof Ex.pose Ex.prev

/-- [G] and the converse: a robot not declared 5-DOF never uses the 5-DOF solvers in `inverse` /
`inverse_continuing`. -/
theorem dof6_dispatch {k : Opw R} (hd : k.p.dof ≠ 5) (pose : Iso R) (prev : J6 R) :
    k.inverse pose = k.filterCompliant (inverseIntern k.p pose) ∧
      k.inverseContinuing pose prev = k.inverseContinuing6 pose prev := by
  simp [Opw.inverse, Opw.inverseContinuing, hd]

/-- [G] The dispatch holds through EVERY wrapper stack (Tool, Base, Frame, Parallelogram, collision
filtering): the wrappers forward each entry point to the same entry point of the inner solver and
post-process the answers identically. -/
theorem stack_dof5_dispatch : ∀ (k : Kin R), k.core.p.dof = 5 → ∀ (pose : Iso R) (prev : J6 R),
    k.inverse pose = k.inverse5dof pose 0 ∧
      k.inverseContinuing pose prev = k.inverseContinuing5dof pose prev
  | .opw k, hd, pose, prev => dof5_dispatch (k := k) hd pose prev
  | .tool i _, hd, pose, prev => stack_dof5_dispatch i hd _ prev
  | .base i _, hd, pose, prev => stack_dof5_dispatch i hd _ prev
  | .frame i _, hd, pose, prev => stack_dof5_dispatch i hd _ prev
  | .para i s d c, hd, pose, prev => by
    obtain ⟨h1, h2⟩ := stack_dof5_dispatch i hd pose prev
    exact ⟨by simp only [Kin.inverse, Kin.inverse5dof, h1],
      by simp only [Kin.inverseContinuing, Kin.inverseContinuing5dof, h2]⟩
  | .shape i col, hd, pose, prev => by
    obtain ⟨h1, h2⟩ := stack_dof5_dispatch i hd pose prev
    exact ⟨by simp only [Kin.inverse, Kin.inverse5dof, h1],
      by simp only [Kin.inverseContinuing, Kin.inverseContinuing5dof, h2]⟩

example : Ex.stack5.inverse Ex.pose = Ex.stack5.inverse5dof Ex.pose 0 :=
  (stack_dof5_dispatch Ex.stack5 Ex.p5_dof Ex.pose Ex.prev).1

/-- [G] consequence: `inverse` of a robot declared 5-DOF returns J6 = 0 -/
theorem inverse_dof5_j6 {k : Opw R} (hd : k.p.dof = 5) {pose : Iso R} {s : J6 R}
    (h : s ∈ k.inverse pose) : s.j6 = 0 := by
  rw [(dof5_dispatch hd pose s).1] at h
  exact inverse5_j6 h

/-! ### 4 — `inverse_continuing_5dof` -/

/-- [G] `inverse_continuing_5dof`: J6 of every answer is `normalize_near(prev[5], reference[5])`,
where `reference` is `prev` itself, or the constraint centres for the `CONSTRAINT_CENTERED`
sentinel (`prev[0]` NaN).

FULL: `s ∈ k.inverseContinuing5dof pose prev → s.j6 = prev.j6` for non-sentinel `prev`.
Gap: `inverse_intern_5_dof` stores `prev[5]` unchanged, but the result is then passed through
`normalize_near(·, reference)` component-wise, J6 included.  That `normalize_near(x, x) = x`
is an ARITHMETIC fact, not a control-structure one; it is proved over ℝ elsewhere.  Generically only the form below holds. -/
theorem inverseContinuing5_j6_partial {k : Opw R} {pose : Iso R} {prev s : J6 R}
    (h : s ∈ k.inverseContinuing5dof pose prev) :
    s.j6 = normalizeNear prev.j6 (k.reference prev).j6 := by
  unfold Opw.inverseContinuing5dof at h
  have h1 := mem_sortByCloseness.mp (mem_of_mem_filterCompliant h)
  obtain ⟨s0, hs0, rfl⟩ := List.mem_map.mp h1
  have hj := (sound5_of_mem_inverseIntern5 hs0).2
  show normalizeNear s0.j6 (k.reference prev).j6 = _
  rw [hj]

/-- [G] for a genuine previous position (not the sentinel): `normalize_near(prev[5], prev[5])`.
That this equals `prev[5]` is the arithmetic fact mentioned above. -/
theorem inverseContinuing5_j6_partial' {k : Opw R} {pose : Iso R} {prev s : J6 R}
    (hprev : isNaN prev.j1 = false) (h : s ∈ k.inverseContinuing5dof pose prev) :
    s.j6 = normalizeNear prev.j6 prev.j6 := by
  have := inverseContinuing5_j6_partial h
  simpa [Opw.reference, hprev] using this

/-- [G] all answers of one call share the same J6 -/
theorem inverseContinuing5_j6_const {k : Opw R} {pose : Iso R} {prev s s' : J6 R}
    (h : s ∈ k.inverseContinuing5dof pose prev) (h' : s' ∈ k.inverseContinuing5dof pose prev) :
    s.j6 = s'.j6 := by
  rw [inverseContinuing5_j6_partial h, inverseContinuing5_j6_partial h']

/-- [G] the same through stacks of Tool / Base / Frame wrappers and collision filtering -/
theorem stack_inverseContinuing5_j6_partial {k : Kin R} (hk : k.noPara) {pose : Iso R}
    {prev s : J6 R} (h : s ∈ k.inverseContinuing5dof pose prev) :
    s.j6 = normalizeNear prev.j6 (k.core.reference prev).j6 :=
  inverseContinuing5_j6_partial (Kin.noPara_inverseContinuing5dof_mem k hk pose prev s h)

example {s : J6 Float} (h : s ∈ Ex.k5c.inverseContinuing5dof Ex.pose Ex.prev) :
    s.j6 = normalizeNear Ex.prev.j6 (Ex.k5c.reference Ex.prev).j6 :=
  inverseContinuing5_j6_partial h

/-- the non-sentinel hypothesis is satisfiable (real reading: no NaN); `Float.isNaN` is opaque to
the kernel, so at `Float` it stays a hypothesis -/
example (k : Opw ℝ) (pose : Iso ℝ) (prev s : J6 ℝ) (h : s ∈ k.inverseContinuing5dof pose prev) :
    s.j6 = normalizeNear prev.j6 prev.j6 :=
  inverseContinuing5_j6_partial' rfl h

example {s : J6 Float} (hprev : isNaN Ex.prev.j1 = false)
    (h : s ∈ Ex.k5c.inverseContinuing5dof Ex.pose Ex.prev) :
    s.j6 = normalizeNear Ex.prev.j6 Ex.prev.j6 :=
  inverseContinuing5_j6_partial' hprev h

end Opw.C06
