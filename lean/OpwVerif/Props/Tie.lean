/-
  Source tie (all properties resting on the closed-form formulas of `kinematics_impl.rs`):
  the model's `thetaOf`, `forwardTheta` and `thetaCandidates` are the formulas that
  `tools/rs2lean.py` translated from the source text of `forward` and `inverse_intern` on THIS run
  (`Generated/Src.lean`).  Stated over ℝ and proved up to ring normalisation, so that a harmless
  algebraic rewrite of the source (re-association, commuted factors) does not break them, while a
  changed formula does.
-/
import OpwVerif.Lemmas.SrcTieReal
namespace Opw.Tie
open Opw

theorem thetaOf_is_source (p : Params ℝ) (j : J6 ℝ) : Src.thetaOfSrc p j = thetaOf p j :=
  SrcTieReal.thetaOf_tie p j

theorem forwardTheta_is_source (p : Params ℝ) (q : J6 ℝ) : Src.forwardThetaSrc p q = forwardTheta p q :=
  SrcTieReal.forwardTheta_tie p q

theorem thetaCandidates_is_source (p : Params ℝ) (pose : Iso ℝ) :
    Src.thetaCandidatesSrc p pose = thetaCandidates p pose :=
  SrcTieReal.thetaCandidates_tie p pose

/-- consequence used by C03: the source's closed form is the reference chain -/
theorem source_closed_form_eq_reference_chain (p : Params ℝ) (q : J6 ℝ) :
    Src.forwardThetaSrc p q = (rot6 q, org6 p q) := by
  rw [forwardTheta_is_source]
  ext
  · exact forwardTheta_rot p q
  · exact forwardTheta_tr p q

end Opw.Tie
