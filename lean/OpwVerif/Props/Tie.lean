/-
  Source tie (all properties resting on the closed-form formulas of `kinematics_impl.rs`):
  the model's `thetaOf`, `forwardTheta` and `thetaCandidates` are the formulas that
  `tools/rs2lean.py` translated from the source text of `forward` and `inverse_intern` on THIS run
  (`Generated/Src.lean`).  Stated over ℝ and proved up to ring normalisation, so that a harmless
  algebraic rewrite of the source (re-association, commuted factors) does not break them, while a
  changed formula does.
-/
import OpwVerif.Lemmas.SrcTieReal
import OpwVerif.Lemmas.SrcTie
import OpwVerif.Lemmas.SrcCtlTie
import OpwVerif.Lemmas.SrcWrapTie
import OpwVerif.Lemmas.SrcOpwTie
import OpwVerif.Lemmas.SrcFrameTie
import OpwVerif.Lemmas.SrcJacTie
namespace Opw.Tie
open Opw

theorem thetaOf_is_source (p : Params ℝ) (j : J6 ℝ) : Src.thetaOfSrc p j = thetaOf p j :=
  SrcTieReal.thetaOf_tie p j

theorem forwardTheta_is_source (p : Params ℝ) (q : J6 ℝ) : Src.forwardThetaSrc p q = forwardTheta p q :=
  SrcTieReal.forwardTheta_tie p q

theorem thetaCandidates_is_source (p : Params ℝ) (pose : Iso ℝ) :
    Src.thetaCandidatesSrc p pose = thetaCandidates p pose :=
  SrcTieReal.thetaCandidates_tie p pose

/-- `inverse_intern_5_dof` is a hand-duplicated copy of the position part of `inverse_intern`: its 8 × 5 table,
translated from the source, is the first five columns of the 8 × 6 table (generic in the number type) -/
theorem thetaCandidates5_is_source {R : Type} [OpwNum R] (p : Params R) (pose : Iso R) :
    Src.thetaCandidates5Src p pose = (thetaCandidates p pose).map (fun t => { t with j6 := 0 }) :=
  thetaCandidates5Src_eq p pose

/-- … and the model's `inverse_intern_5_dof` is the source's table put through the model's post-processing -/
theorem inverseIntern5_is_source {R : Type} [OpwNum R] (p : Params R) (pose : Iso R) (j6 : R) :
    inverseIntern5 p pose j6 =
      (Src.thetaCandidates5Src p pose).filterMap (fun t => finishCandidate5 p pose j6 (jointsOf p t)) :=
  inverseIntern5_eq_src p pose j6

/-- `forward_with_joint_poses`: its own copy of the sign/offset map and its chain of six link transforms, translated
from the source, are the model's `chain` (generic in the number type) -/
theorem chain_is_source {R : Type} [OpwNum R] (p : Params R) (j : J6 R) :
    Src.chainThetaSrc p (Src.thetaOfChainSrc p j) = chain p j := chainSrc_eq p j

/-- consequence used by C03: the source's closed form is the reference chain -/
theorem source_closed_form_eq_reference_chain (p : Params ℝ) (q : J6 ℝ) :
    Src.forwardThetaSrc p q = (rot6 q, org6 p q) := by
  rw [forwardTheta_is_source]
  ext
  · exact forwardTheta_rot p q
  · exact forwardTheta_tr p q

/-! ### Branching helpers (`Generated/SrcCtl.lean`, translated statement by statement by `tools/rs2lean_ctl.py`).
Generic in the number type: they hold of the `Float` reading as well as of ℝ.  `while` loops are compared
with the model's fuel-bounded loops for EVERY fuel. -/
section
variable {R : Type} [OpwNum R]

theorem isCloseToMultipleOfPi_is_source (v thr : R) :
    SrcCtl.isCloseToMultipleOfPiSrc v thr = isCloseToMultipleOfPi v thr := isCloseToMultipleOfPiSrc_eq v thr

theorem areAnglesClose_loop_is_source (n : Nat) (d : R) : SrcCtl.areAnglesCloseSrcLoop n d = foldDiff n d :=
  areAnglesCloseSrcLoop_eq n d

theorem areAnglesClose_is_source (a b : R) : SrcCtl.areAnglesCloseSrc a b = areAnglesClose a b :=
  areAnglesCloseSrc_eq a b

theorem normalizeNear_is_source (now prev : R) : SrcCtl.normalizeNearSrc now prev = normalizeNear now prev :=
  normalizeNearSrc_eq now prev

theorem comparePoses_is_source (ta tb : Iso R) (dT aT : R) :
    SrcCtl.comparePosesSrc (ta.t.sub tb.t).norm (Quat.angleTo ta.q tb.q) dT aT = comparePoses ta tb dT aT :=
  comparePosesSrc_eq ta tb dT aT

theorem kinematicSingularity_is_source (p : Params R) (j : J6 R) :
    SrcCtl.kinematicSingularitySrc p j = kinematicSingularity p j := kinematicSingularitySrc_eq p j

/-- [G] the wrist-singular recovery of `inverse_continuing` as the CURRENT source text computes it (which of the two
J4/J6 combinations, the two `while` wraps of their difference into [-pi, pi], half of it added to the previous J4 and J6 with
their signs, J5 brought next to the previous J5 in the 180-degree case) is the model's `singularCandidate`, on which the C05
theorems (`equal_shift`, first answer = previous) are stated -/
theorem singularCandidate_is_source (p : Params R) (previous now : J6 R) :
    SrcCtl.singularCandidateSrc p previous now =
      ((singularCandidate p previous now).j4, (singularCandidate p previous now).j5, (singularCandidate p previous now).j6) ∧
    (singularCandidate p previous now).j1 = now.j1 ∧ (singularCandidate p previous now).j2 = now.j2 ∧
    (singularCandidate p previous now).j3 = now.j3 :=
  ⟨singularCandidateSrc_eq p previous now, rfl, rfl, rfl⟩

/-- [G] the cost the CURRENT source sorts continuation answers by is the model's `sortCost`: the weighted comparator (robots
with limits and a sorting weight other than BY_PREV) computes `(sortCost a, sortCost b)` from the four distances, and in the
other case the source's plain comparator is distance-to-previous (translator check), which is `sortCost` too -/
theorem sortCost_is_source (k : Opw R) (previous a b : J6 R) :
    (∀ c, k.cons = some c → feq c.sortingWeight byPrev = false →
      SrcCtl.sortCostPairSrc c.sortingWeight (calculateDistance a previous) (calculateDistance b previous)
        (calculateDistance a c.centers) (calculateDistance b c.centers) = (k.sortCost previous a, k.sortCost previous b)) ∧
    ((k.cons = none ∨ ∃ c, k.cons = some c ∧ feq c.sortingWeight byPrev = true) →
      k.sortCost previous a = calculateDistance a previous) :=
  ⟨fun c hc hw => sortCostPairSrc_eq k c hc hw previous a b, sortCost_plain k previous a⟩

theorem insideBounds_is_source (angle centre tol : R) :
    SrcCtl.insideBoundsSrc angle centre tol = insideBounds angle centre tol := insideBoundsSrc_eq angle centre tol

theorem computeCenters_loop_is_source (n : Nat) (a b : R) : SrcCtl.centerTolSrcLoop a n b = unwrapTo n a b :=
  centerTolSrcLoop_eq n a b

theorem computeCenters_is_source (a b : R) : SrcCtl.centerTolSrc a b = centerTol a b := centerTolSrc_eq a b

end

/-! ### The wrappers (`Generated/SrcWrap.lean`, translated by `tools/rs2lean_wrap.py` from tool.rs, frame.rs,
parallelogram.rs): every `Kinematics` method of Tool, Base, Frame and Parallelogram that transforms a pose, a joint
vector or an answer list, and `Frame::forward_transformed`, is the corresponding clause of the model's `Kin`. -/
section
variable {R : Type} [OpwNum R]

theorem tool_is_source (i : Kin R) (t pose : Iso R) (prev q : J6 R) (j6 : R) :
    SrcWrap.toolInverse i t pose = (Kin.tool i t).inverse pose ∧
    SrcWrap.toolInverseContinuing i t pose prev = (Kin.tool i t).inverseContinuing pose prev ∧
    SrcWrap.toolInverse5dof i t pose j6 = (Kin.tool i t).inverse5dof pose j6 ∧
    SrcWrap.toolInverseContinuing5dof i t pose prev = (Kin.tool i t).inverseContinuing5dof pose prev ∧
    SrcWrap.toolForward i t q = (Kin.tool i t).forward q ∧ SrcWrap.toolLinks i t q = (Kin.tool i t).links q :=
  ⟨toolInverse_eq .., toolInverseContinuing_eq .., toolInverse5dof_eq .., toolInverseContinuing5dof_eq .., toolForward_eq .., toolLinks_eq ..⟩

theorem base_is_source (i : Kin R) (b pose : Iso R) (prev q : J6 R) (j6 : R) :
    SrcWrap.baseInverse i b pose = (Kin.base i b).inverse pose ∧
    SrcWrap.baseInverseContinuing i b pose prev = (Kin.base i b).inverseContinuing pose prev ∧
    SrcWrap.baseInverse5dof i b pose j6 = (Kin.base i b).inverse5dof pose j6 ∧
    SrcWrap.baseInverseContinuing5dof i b pose prev = (Kin.base i b).inverseContinuing5dof pose prev ∧
    SrcWrap.baseForward i b q = (Kin.base i b).forward q ∧ SrcWrap.baseLinks i b q = (Kin.base i b).links q :=
  ⟨baseInverse_eq .., baseInverseContinuing_eq .., baseInverse5dof_eq .., baseInverseContinuing5dof_eq .., baseForward_eq .., baseLinks_eq ..⟩

theorem frame_is_source (i : Kin R) (f pose : Iso R) (prev q : J6 R) (j6 : R) :
    SrcWrap.frameInverse i f pose = (Kin.frame i f).inverse pose ∧
    SrcWrap.frameInverseContinuing i f pose prev = (Kin.frame i f).inverseContinuing pose prev ∧
    SrcWrap.frameInverse5dof i f pose j6 = (Kin.frame i f).inverse5dof pose j6 ∧
    SrcWrap.frameInverseContinuing5dof i f pose prev = (Kin.frame i f).inverseContinuing5dof pose prev ∧
    SrcWrap.frameForward i f q = (Kin.frame i f).forward q ∧ SrcWrap.frameLinks i f q = (Kin.frame i f).links q ∧
    SrcWrap.frameForwardTransformed i f q prev = forwardTransformed i f q prev :=
  ⟨frameInverse_eq .., frameInverseContinuing_eq .., frameInverse5dof_eq .., frameInverseContinuing5dof_eq .., frameForward_eq ..,
   frameLinks_eq .., frameForwardTransformed_eq ..⟩

theorem parallelogram_is_source (i : Kin R) (s : R) (d c : Nat) (pose : Iso R) (prev q : J6 R) (j6 : R) :
    SrcWrap.paraInverse i s d c pose = (Kin.para i s d c).inverse pose ∧
    SrcWrap.paraInverseContinuing i s d c pose prev = (Kin.para i s d c).inverseContinuing pose prev ∧
    SrcWrap.paraInverse5dof i s d c pose j6 = (Kin.para i s d c).inverse5dof pose j6 ∧
    SrcWrap.paraInverseContinuing5dof i s d c pose prev = (Kin.para i s d c).inverseContinuing5dof pose prev ∧
    SrcWrap.paraForward i s d c q = (Kin.para i s d c).forward q ∧ SrcWrap.paraLinks i s d c q = (Kin.para i s d c).links q :=
  ⟨paraInverse_eq .., paraInverseContinuing_eq .., paraInverse5dof_eq .., paraInverseContinuing5dof_eq .., paraForward_eq .., paraLinks_eq ..⟩

/-- [G] the entry points of the bare solver as the CURRENT source text composes them are the model's: `inverse` (5-DOF
robots go to `inverse_5dof` with J6 = 0, the others filter `inverse_intern`), `inverse_5dof`, `inverse_continuing_5dof` (J6 is
`prev[5]` as given; the CONSTRAINT_CENTERED sentinel only resolves the reference vector; normalise next to the reference, then
sort, then filter) and `inverse_continuing` around its shift loop (5-DOF dispatch, sentinel, normalise, sort, filter); the limit
filter keeps, in order, the vectors whose six joints are all inside their arcs -/
theorem opw_entry_points_are_source (k : Opw R) (pose : Iso R) (prev s : J6 R) (j6 : R) (l : List (J6 R)) :
    SrcOpw.inverseSrc k pose = k.inverse pose ∧ SrcOpw.inverse5dofSrc k pose j6 = k.inverse5dof pose j6 ∧
    SrcOpw.inverseContinuing5dofSrc k pose prev = k.inverseContinuing5dof pose prev ∧
    SrcOpw.inverseContinuingSrc k pose prev = k.inverseContinuing pose prev ∧
    SrcOpw.filterCompliantSrc k l = k.filterCompliant l ∧ SrcOpw.compliantOptSrc k s = k.compliant s ∧
    SrcOpw.constraintCentersSrc k = k.constraintCenters :=
  ⟨inverseSrc_eq k pose, inverse5dofSrc_eq k pose j6, inverseContinuing5dofSrc_eq k pose prev, inverseContinuingSrc_eq k pose prev,
   filterCompliantSrc_eq k l, compliantOptSrc_eq k s, constraintCentersSrc_eq k⟩

/-- [G] one iteration of the shift loop of `inverse_continuing` as the CURRENT source text has it — the shift table, the
unshifted answers taken first, the first singular and finite raw answer only, the recovery block (translated statement by
statement, `singularCandidateSrc`) plugged in, pose check and limit check before the push, `break 'shifts` after it — is the
model's `shiftStep`, and the table is the model's `shifts`; with `opw_entry_points_are_source` the whole of
`inverse_continuing` is tied to the source (the loop over the table itself, `shiftLoop`, is the `for` of the source by
construction of the translator's idiom) -/
theorem shiftStep_is_source (k : Opw R) (pose : Iso R) (previous : J6 R) (sols : List (J6 R)) (d : V3 R) :
    SrcOpw.shiftStepSrc (fun prev raw => SrcCtl.singularCandidateSrc k.p prev raw) k pose previous sols d =
      shiftStep k pose previous sols d ∧ (SrcOpw.shiftsSrc : List (V3 R)) = shifts :=
  ⟨shiftStepSrc_eq k pose previous sols d, shiftsSrc_eq⟩

/-- [G] `Frame::frame` and `distances_match`, translated expression by expression from the CURRENT source text (rejections in
order with their own errors — `ColinearPoints::new(.., true)` must carry the source triple, `false` the target triple —,
the two orthonormal bases, their product, the quaternion, the translation from the first pair of points), are the model's
`frameOf` / `distancesMatch` about which the C17 theorems are proved -/
theorem frame_is_source' (p1 p2 p3 q1 q2 q3 : V3 R) (tol : R) :
    SrcFrame.frameSrc p1 p2 p3 q1 q2 q3 = frameOf p1 p2 p3 q1 q2 q3 ∧
    SrcFrame.distancesMatchSrc p1 p2 p3 q1 q2 q3 tol = distancesMatch p1 p2 p3 q1 q2 q3 tol :=
  ⟨frameSrc_eq p1 p2 p3 q1 q2 q3, distancesMatchSrc_eq p1 p2 p3 q1 q2 q3 tol⟩

/-- [G] one column of `compute_jacobian` as the CURRENT source text computes it (perturb joint `i` by epsilon, forward
kinematics of the robot handed in, position difference over epsilon, scaled axis of `perturbed * current⁻¹` over epsilon) and
the wrench `Jacobian::torques` reads from an isometry are the model's `jacobianColumn` / `wrenchOfIso`, about which the C15
theorems (geometric Jacobian, error bound, transpose law) are proved -/
theorem jacobian_is_source (fwd : J6 R → Iso R) (q : J6 R) (eps : R) (i : Nat) (w : Iso R) :
    SrcJac.jacobianColumnSrc fwd q eps i = ((jacobianColumn fwd q eps i).lin, (jacobianColumn fwd q eps i).ang) ∧
    SrcJac.wrenchOfIsoSrc w = ((wrenchOfIso w).lin, (wrenchOfIso w).ang) :=
  ⟨jacobianColumnSrc_eq fwd q eps i, wrenchOfIsoSrc_eq w⟩

/-- [G] `LinearAxis::forward` and `Gantry::forward` as the CURRENT source text has them: base * cart translation * robot pose,
the translation along the axis named by the index (any other index panics: `none`) -/
theorem linearAxis_gantry_are_source (i : Kin R) (axis : Nat) (base : Iso R) (d : R) (tr : V3 R) (q : J6 R) :
    SrcWrap.linearAxisForwardSrc i axis base d q = linearAxisForward i axis base d q ∧
    SrcWrap.gantryForwardSrc i base tr q = gantryForward i base tr q :=
  ⟨linearAxisForwardSrc_eq i axis base d q, gantryForwardSrc_eq i base tr q⟩

/-- [G] `Constraints::compliant` / `Constraints::filter` as the CURRENT source text defines them -/
theorem constraints_compliant_is_source (c : Constraints R) (a : J6 R) (l : List (J6 R)) :
    SrcOpw.compliantSrc c a = c.compliant a ∧ SrcOpw.filterSrc c l = c.filter l :=
  ⟨compliantSrc_eq c a, filterSrc_eq c l⟩

/-- [G] the joint limits and the singularity report of a tool / base / frame / parallelogram wrapper, as the CURRENT source
text defines them, are those of the robot it wraps (the model's `Kin.constraints`, `Kin.singularity`) -/
theorem wrapper_reports_are_source (i : Kin R) (w : Iso R) (s : R) (d c : Nat) (q : J6 R) :
    SrcWrap.toolConstraints i w = (Kin.tool i w).constraints ∧ SrcWrap.toolSingularity i w q = (Kin.tool i w).singularity q ∧
    SrcWrap.baseConstraints i w = (Kin.base i w).constraints ∧ SrcWrap.baseSingularity i w q = (Kin.base i w).singularity q ∧
    SrcWrap.frameConstraints i w = (Kin.frame i w).constraints ∧ SrcWrap.frameSingularity i w q = (Kin.frame i w).singularity q ∧
    SrcWrap.paraConstraints i s d c = (Kin.para i s d c).constraints ∧
    SrcWrap.paraSingularity i s d c q = (Kin.para i s d c).singularity q :=
  ⟨toolConstraints_eq .., toolSingularity_eq .., baseConstraints_eq .., baseSingularity_eq .., frameConstraints_eq ..,
   frameSingularity_eq .., paraConstraints_eq .., paraSingularity_eq ..⟩

/-- [G] `KinematicsWithShape` as the CURRENT source text defines it is the model's `shape` node: each inverse entry point is
the same entry point of the wrapped stack followed by the order-preserving collision filter; forward, link poses, limits and
singularity are those of the wrapped stack -/
theorem shape_is_source (i : Kin R) (col : J6 R → Bool) (pose : Iso R) (prev q : J6 R) (j6 : R) (l : List (J6 R)) :
    SrcWrap.kwsRemoveCollisions col l = removeCollisions col l ∧
    SrcWrap.kwsInverse i col pose = (Kin.shape i col).inverse pose ∧
    SrcWrap.kwsInverseContinuing i col pose prev = (Kin.shape i col).inverseContinuing pose prev ∧
    SrcWrap.kwsInverse5dof i col pose j6 = (Kin.shape i col).inverse5dof pose j6 ∧
    SrcWrap.kwsInverseContinuing5dof i col pose prev = (Kin.shape i col).inverseContinuing5dof pose prev ∧
    SrcWrap.kwsForward i col q = (Kin.shape i col).forward q ∧ SrcWrap.kwsLinks i col q = (Kin.shape i col).links q ∧
    SrcWrap.kwsSingularity i col q = (Kin.shape i col).singularity q ∧
    SrcWrap.kwsConstraints i col = (Kin.shape i col).constraints :=
  ⟨kwsRemoveCollisions_eq .., kwsInverse_eq .., kwsInverseContinuing_eq .., kwsInverse5dof_eq .., kwsInverseContinuing5dof_eq ..,
   kwsForward_eq .., kwsLinks_eq .., kwsSingularity_eq .., kwsConstraints_eq ..⟩

/-- [G] the facade methods `collides`, `collision_details`, `near`, `non_colliding_offsets` of `KinematicsWithShape`, as the
CURRENT source text defines them, are the body's methods on the same arguments: no gating by the robot's own mode, no
re-ordering -/
theorem shape_facade_is_source {α α1 α2 β : Type} (f1 : α → β) (f2 : α → α1 → β) (f3 : α → α1 → α2 → β) (a : α) (b : α1) (c : α2) :
    SrcWrap.kwsCollides f1 a = f1 a ∧ SrcWrap.kwsCollisionDetails f1 a = f1 a ∧ SrcWrap.kwsNear f2 a b = f2 a b ∧
    SrcWrap.kwsNonCollidingOffsets f3 a b c = f3 a b c := kwsFacade_eq f1 f2 f3 a b c

end

end Opw.Tie
