/-
  C09 — Tool / Base / Frame wrapper stacks.

  "For a robot wrapped in any stack of tool, base and frame transforms, the forward pose is
  base * robot * tool (frame acts like a tool), every answer of every inverse entry point maps back
  through the same stack's forward onto the requested pose, and each entry point keeps its own
  contract through the stack.  Per-link poses are left unchanged by a tool, pre-multiplied by a
  base, and the last one equals forward for base and frame."

  Property theorems only; helper lemmas and the definitions `Iso.Same`, `Kin.baseOf`, `Kin.toolOf`,
  `Kin.WF`, `Kin.baseFrameOnly` live in `Lemmas/Stack.lean` (their defining equations are restated
  here as `rfl` theorems so that this file can be read on its own).
  Kinds: [R] real arithmetic, [G] generic (any number type, holds of the Float reading itself).
-/
import OpwVerif.Lemmas.Stack
namespace Opw.C09
open Opw

/-! ### 0 — the definitions (restated) -/

section Defs
variable {R : Type} [OpwNum R]

/-- [G] accumulated base transforms, outermost first -/
theorem baseOf_eqns (k : Opw R) (i : Kin R) (x : Iso R) :
    (Kin.opw k).baseOf = Iso.one ∧ (Kin.tool i x).baseOf = i.baseOf ∧
    (Kin.base i x).baseOf = x.mul i.baseOf ∧ (Kin.frame i x).baseOf = i.baseOf :=
  ⟨rfl, rfl, rfl, rfl⟩

/-- [G] accumulated tool and frame transforms, in order (innermost first) -/
theorem toolOf_eqns (k : Opw R) (i : Kin R) (x : Iso R) :
    (Kin.opw k).toolOf = Iso.one ∧ (Kin.tool i x).toolOf = i.toolOf.mul x ∧
    (Kin.base i x).toolOf = i.toolOf ∧ (Kin.frame i x).toolOf = i.toolOf.mul x :=
  ⟨rfl, rfl, rfl, rfl⟩

/-- [R] well-formed: every wrapper isometry has a unit quaternion -/
theorem WF_eqns (k : Opw ℝ) (i : Kin ℝ) (x : Iso ℝ) :
    ((Kin.opw k).WF ↔ True) ∧ ((Kin.tool i x).WF ↔ i.WF ∧ x.q.normSq = 1) ∧
    ((Kin.base i x).WF ↔ i.WF ∧ x.q.normSq = 1) ∧ ((Kin.frame i x).WF ↔ i.WF ∧ x.q.normSq = 1) :=
  ⟨Iff.rfl, Iff.rfl, Iff.rfl, Iff.rfl⟩

/-- [G] "same rigid motion": same translation, same rotation matrix -/
theorem same_iff (a b : Iso R) : Iso.Same a b ↔ a.t = b.t ∧ a.q.toMat = b.q.toMat := Iff.rfl

end Defs

/-! ### 1 — forward = base * robot * tool -/

/-- [R] For every stack of Tool / Base / Frame wrappers with unit-quaternion transforms, every
parameter set and every joint vector: `forward = (b_outer * … * b_inner) * robot.forward *
(t_inner * … * t_outer)`, where a Frame counts as a Tool. -/
theorem stack_forward (k : Kin ℝ) (hp : k.plain) (hw : k.WF) (q : J6 ℝ) :
    k.forward q = k.baseOf.mul ((Opw.forward k.core.p q).mul k.toolOf) :=
  Kin.stack_forward k hp hw q

/-- [R] the result is a proper rigid motion (unit quaternion); holds for any wrappers -/
theorem stack_forward_unit (k : Kin ℝ) (hw : k.WF) (q : J6 ℝ) : (k.forward q).q.normSq = 1 :=
  Kin.forward_unit k hw q

/-- [R] single wrappers, spelled out -/
theorem tool_forward_real (k : Opw ℝ) (t : Iso ℝ) (q : J6 ℝ) :
    (Kin.tool (.opw k) t).forward q = (Opw.forward k.p q).mul t := rfl
theorem base_forward_real (k : Opw ℝ) (b : Iso ℝ) (q : J6 ℝ) :
    (Kin.base (.opw k) b).forward q = b.mul (Opw.forward k.p q) := rfl
theorem frame_forward_real (k : Opw ℝ) (f : Iso ℝ) (q : J6 ℝ) :
    (Kin.frame (.opw k) f).forward q = (Opw.forward k.p q).mul f := rfl

/-! ### 2 — the pose round trips of one wrapper -/

/-- [R] Tool / Frame: `(pose * t⁻¹) * t = pose` -/
theorem pose_roundtrip_tool {t pose : Iso ℝ} (ht : t.q.normSq = 1) (hp : pose.q.normSq = 1) :
    (pose.mul t.inv).mul t = pose := Opw.pose_roundtrip_tool ht hp

/-- [R] Base: `b * (b⁻¹ * pose) = pose` (the hypothesis on `pose` is not used) -/
theorem pose_roundtrip_base {b pose : Iso ℝ} (hb : b.q.normSq = 1) (hp : pose.q.normSq = 1) :
    b.mul (b.inv.mul pose) = pose := Opw.pose_roundtrip_base hb hp

/-! ### 3 — every answer maps back through the same stack's forward -/

/-- [R] Exact algebraic form: whenever the core's forward at `s` is the pose the core was asked for
(`k.localPose pose`: the wrappers stripped from outside in), the stack's forward at `s` is the
requested pose. -/
theorem stack_maps_back (k : Kin ℝ) (hp : k.plain) (hw : k.WF) (pose : Iso ℝ)
    (hu : pose.q.normSq = 1) (s : J6 ℝ) (h : Opw.forward k.core.p s = k.localPose pose) :
    k.forward s = pose :=
  Kin.stack_maps_back k hp hw pose hu s h

/-- [R] … and conversely, so for a unit pose the two statements are equivalent. -/
theorem stack_maps_back_iff (k : Kin ℝ) (hp : k.plain) (hw : k.WF) (pose : Iso ℝ)
    (hu : pose.q.normSq = 1) (s : J6 ℝ) :
    k.forward s = pose ↔ Opw.forward k.core.p s = k.localPose pose :=
  ⟨Kin.stack_maps_back_conv k hp hw pose s, Kin.stack_maps_back k hp hw pose hu s⟩

/-- [R] `Same` is a congruence for `Iso.mul` on the left (no side condition) … -/
theorem same_mul_left {a b : Iso ℝ} (c : Iso ℝ) (h : Iso.Same a b) :
    Iso.Same (c.mul a) (c.mul b) := h.mul_left c

/-- [R] … and on the right (unit quaternions). -/
theorem same_mul_right {a b : Iso ℝ} (c : Iso ℝ) (ha : a.q.normSq = 1) (hb : b.q.normSq = 1)
    (h : Iso.Same a b) : Iso.Same (a.mul c) (b.mul c) := h.mul_right c ha hb

/-- [R] both sides at once -/
theorem same_mul {a b c d : Iso ℝ} (ha : a.q.normSq = 1) (hb : b.q.normSq = 1)
    (h1 : Iso.Same a b) (h2 : Iso.Same c d) : Iso.Same (a.mul c) (b.mul d) := h1.mul ha hb h2

/-- [R] why `Same` and not `=`: a quaternion and its negative are the same rigid motion, and two
isometries that are the `Same` move every point to the same place. -/
theorem same_neg (a : Iso ℝ) : Iso.Same a ⟨a.t, a.q.neg⟩ := Iso.same_neg a
theorem same_transformPoint {a b : Iso ℝ} (ha : a.q.normSq = 1) (hb : b.q.normSq = 1)
    (h : Iso.Same a b) (p : V3 ℝ) : a.transformPoint p = b.transformPoint p :=
  h.transformPoint ha hb p

/-- [R] "same rigid motion" form: whenever the core's forward at `s` is the same rigid motion as the
local pose, the stack's forward at `s` is the same rigid motion as the requested pose. -/
theorem stack_maps_back_same (k : Kin ℝ) (hp : k.plain) (hw : k.WF) (pose : Iso ℝ)
    (hu : pose.q.normSq = 1) (s : J6 ℝ)
    (h : Iso.Same (Opw.forward k.core.p s) (k.localPose pose)) : Iso.Same (k.forward s) pose :=
  Kin.stack_maps_back_same k hp hw pose hu s h

/-- [R] Headline for `inverse` (the other three entry points: `stack_answers_map_back'`): every
answer `s` of the stack is an answer of the core for the local pose, and if the core's forward maps
`s` onto the local pose (exactly / as a rigid motion) then the SAME stack's forward maps `s` onto the
requested pose (exactly / as a rigid motion). -/
theorem stack_answers_map_back (k : Kin ℝ) (hp : k.plain) (hw : k.WF) (pose : Iso ℝ)
    (hu : pose.q.normSq = 1) (s : J6 ℝ) (hs : s ∈ k.inverse pose) :
    s ∈ k.core.inverse (k.localPose pose) ∧
    (Opw.forward k.core.p s = k.localPose pose → k.forward s = pose) ∧
    (Iso.Same (Opw.forward k.core.p s) (k.localPose pose) → Iso.Same (k.forward s) pose) :=
  ⟨Kin.plain_inverse_eq k hp pose ▸ hs, Kin.stack_maps_back k hp hw pose hu s,
    Kin.stack_maps_back_same k hp hw pose hu s⟩

/-- [R] the same for `inverse_continuing`, `inverse_5dof`, `inverse_continuing_5dof` -/
theorem stack_answers_map_back' (k : Kin ℝ) (hp : k.plain) (hw : k.WF) (pose : Iso ℝ)
    (hu : pose.q.normSq = 1) (prev : J6 ℝ) (j6 : ℝ) (s : J6 ℝ)
    (hs : s ∈ k.inverseContinuing pose prev ∨ s ∈ k.inverse5dof pose j6 ∨
      s ∈ k.inverseContinuing5dof pose prev) :
    (s ∈ k.core.inverseContinuing (k.localPose pose) prev ∨
      s ∈ k.core.inverse5dof (k.localPose pose) j6 ∨
      s ∈ k.core.inverseContinuing5dof (k.localPose pose) prev) ∧
    (Opw.forward k.core.p s = k.localPose pose → k.forward s = pose) ∧
    (Iso.Same (Opw.forward k.core.p s) (k.localPose pose) → Iso.Same (k.forward s) pose) := by
  refine ⟨?_, Kin.stack_maps_back k hp hw pose hu s, Kin.stack_maps_back_same k hp hw pose hu s⟩
  rw [← Kin.plain_inverseContinuing_eq k hp, ← Kin.plain_inverse5dof_eq k hp,
    ← Kin.plain_inverseContinuing5dof_eq k hp]
  exact hs

/-! ### 4 — delegation matrix: each entry point keeps its own contract -/

section Delegation
variable {R : Type} [OpwNum R] (i : Kin R) (t b f pose : Iso R) (prev q : J6 R) (j6 : R)

/-! Tool -/
/-- [G] -/
theorem tool_inverse : (Kin.tool i t).inverse pose = i.inverse (pose.mul t.inv) := rfl
/-- [G] -/
theorem tool_inverseContinuing :
    (Kin.tool i t).inverseContinuing pose prev = i.inverseContinuing (pose.mul t.inv) prev := rfl
/-- [G] -/
theorem tool_inverse5dof :
    (Kin.tool i t).inverse5dof pose j6 = i.inverse5dof (pose.mul t.inv) j6 := rfl
/-- [G] -/
theorem tool_inverseContinuing5dof :
    (Kin.tool i t).inverseContinuing5dof pose prev =
      i.inverseContinuing5dof (pose.mul t.inv) prev := rfl
/-- [G] -/
theorem tool_forward : (Kin.tool i t).forward q = (i.forward q).mul t := rfl
/-- [G] per-link poses are left unchanged by a tool -/
theorem tool_links : (Kin.tool i t).links q = i.links q := rfl
/-- [G] -/
theorem tool_singularity : (Kin.tool i t).singularity q = i.singularity q := rfl
omit [OpwNum R] in
/-- [G] -/
theorem tool_constraints : (Kin.tool i t).constraints = i.constraints := rfl

/-! Base -/
/-- [G] -/
theorem base_inverse : (Kin.base i b).inverse pose = i.inverse (b.inv.mul pose) := rfl
/-- [G] -/
theorem base_inverseContinuing :
    (Kin.base i b).inverseContinuing pose prev = i.inverseContinuing (b.inv.mul pose) prev := rfl
/-- [G] -/
theorem base_inverse5dof :
    (Kin.base i b).inverse5dof pose j6 = i.inverse5dof (b.inv.mul pose) j6 := rfl
/-- [G] -/
theorem base_inverseContinuing5dof :
    (Kin.base i b).inverseContinuing5dof pose prev =
      i.inverseContinuing5dof (b.inv.mul pose) prev := rfl
/-- [G] -/
theorem base_forward : (Kin.base i b).forward q = b.mul (i.forward q) := rfl
/-- [G] per-link poses are pre-multiplied by a base -/
theorem base_links : (Kin.base i b).links q = (i.links q).map (b.mul ·) := rfl
/-- [G] -/
theorem base_singularity : (Kin.base i b).singularity q = i.singularity q := rfl
omit [OpwNum R] in
/-- [G] -/
theorem base_constraints : (Kin.base i b).constraints = i.constraints := rfl

/-! Frame -/
/-- [G] -/
theorem frame_inverse : (Kin.frame i f).inverse pose = i.inverse (pose.mul f.inv) := rfl
/-- [G] -/
theorem frame_inverseContinuing :
    (Kin.frame i f).inverseContinuing pose prev = i.inverseContinuing (pose.mul f.inv) prev := rfl
/-- [G] -/
theorem frame_inverse5dof :
    (Kin.frame i f).inverse5dof pose j6 = i.inverse5dof (pose.mul f.inv) j6 := rfl
/-- [G] -/
theorem frame_inverseContinuing5dof :
    (Kin.frame i f).inverseContinuing5dof pose prev =
      i.inverseContinuing5dof (pose.mul f.inv) prev := rfl
/-- [G] -/
theorem frame_forward : (Kin.frame i f).forward q = (i.forward q).mul f := rfl
/-- [G] a frame post-multiplies the sixth link pose and keeps the first five -/
theorem frame_links {l1 l2 l3 l4 l5 l6 : Iso R} (h : i.links q = [l1, l2, l3, l4, l5, l6]) :
    (Kin.frame i f).links q = [l1, l2, l3, l4, l5, l6.mul f] := by
  simp only [Kin.links, h]
/-- [G] -/
theorem frame_singularity : (Kin.frame i f).singularity q = i.singularity q := rfl
omit [OpwNum R] in
/-- [G] -/
theorem frame_constraints : (Kin.frame i f).constraints = i.constraints := rfl

end Delegation

section Keeps
variable {R : Type} [OpwNum R]

/-- [G] For plain stacks the answer lists of all four inverse entry points are EXACTLY (same
elements, same order, same multiplicity) the core's answer lists for the local pose. -/
theorem stack_keeps_answers {k : Kin R} (hk : k.plain) (pose : Iso R) (prev : J6 R) (j6 : R) :
    k.inverse pose = k.core.inverse (k.localPose pose) ∧
    k.inverseContinuing pose prev = k.core.inverseContinuing (k.localPose pose) prev ∧
    k.inverse5dof pose j6 = k.core.inverse5dof (k.localPose pose) j6 ∧
    k.inverseContinuing5dof pose prev = k.core.inverseContinuing5dof (k.localPose pose) prev :=
  ⟨Kin.plain_inverse_eq k hk pose, Kin.plain_inverseContinuing_eq k hk pose prev,
    Kin.plain_inverse5dof_eq k hk pose j6, Kin.plain_inverseContinuing5dof_eq k hk pose prev⟩

/-- [G] hence ANY property of the core's answer list (soundness C01, ordering C04, constraint
compliance C08, …) is a property of the stack's answer list. -/
theorem stack_keeps_contract {k : Kin R} (hk : k.plain) (pose : Iso R) (prev : J6 R) (j6 : R)
    (P : List (J6 R) → Prop) :
    (P (k.core.inverse (k.localPose pose)) → P (k.inverse pose)) ∧
    (P (k.core.inverseContinuing (k.localPose pose) prev) → P (k.inverseContinuing pose prev)) ∧
    (P (k.core.inverse5dof (k.localPose pose) j6) → P (k.inverse5dof pose j6)) ∧
    (P (k.core.inverseContinuing5dof (k.localPose pose) prev) →
      P (k.inverseContinuing5dof pose prev)) := by
  obtain ⟨h1, h2, h3, h4⟩ := stack_keeps_answers hk pose prev j6
  rw [h1, h2, h3, h4]
  exact ⟨id, id, id, id⟩

/-- [G] ordering (C04) survives: whatever order relation the core's `inverse_continuing` answers
satisfy pairwise, the stack's answers satisfy. -/
theorem stack_keeps_order {k : Kin R} (hk : k.plain) (pose : Iso R) (prev : J6 R)
    (r : J6 R → J6 R → Prop)
    (h : (k.core.inverseContinuing (k.localPose pose) prev).Pairwise r) :
    (k.inverseContinuing pose prev).Pairwise r := by
  rw [Kin.plain_inverseContinuing_eq k hk]; exact h

/-- [G] J6 pass-through (C06) survives: every answer of `inverse_5dof` through the stack carries the
requested J6. -/
theorem stack_keeps_j6 {k : Kin R} (hk : k.plain) {pose : Iso R} {j6 : R} {s : J6 R}
    (h : s ∈ k.inverse5dof pose j6) : s.j6 = j6 := by
  rw [Kin.plain_inverse5dof_eq k hk] at h
  unfold Opw.inverse5dof at h
  exact (sound5_of_mem_inverseIntern5 (mem_of_mem_filterCompliant h)).2

/-- [G] singularity verdict and constraints are those of the core, for EVERY wrapper stack -/
theorem stack_singularity : ∀ (k : Kin R) (q : J6 R),
    k.singularity q = kinematicSingularity k.core.p q
  | .opw _, _ => rfl
  | .tool i _, q => stack_singularity i q
  | .base i _, q => stack_singularity i q
  | .frame i _, q => stack_singularity i q
  | .para i _ _ _, q => stack_singularity i q
  | .shape i _, q => stack_singularity i q

omit [OpwNum R] in
/-- [G] -/
theorem stack_constraints : ∀ (k : Kin R), k.constraints = k.core.cons
  | .opw _ => rfl
  | .tool i _ => stack_constraints i
  | .base i _ => stack_constraints i
  | .frame i _ => stack_constraints i
  | .para i _ _ _ => stack_constraints i
  | .shape i _ => stack_constraints i

end Keeps

/-! ### 5 — per-link poses -/

/-- [R] For stacks built from Base and Frame over the core (unit quaternions): there are six link
poses and the last one is the same rigid motion as `forward` (same translation, same rotation
matrix; the quaternions may differ by sign because `forward` goes through
`from_rotation_matrix`). -/
theorem last_link_same_forward (k : Kin ℝ) (hb : k.baseFrameOnly) (hw : k.WF) (q : J6 ℝ) :
    ∃ l, (k.links q).length = 6 ∧ (k.links q)[5]? = some l ∧ (k.links q).getLast? = some l ∧
      Iso.Same (k.forward q) l ∧ l.q.normSq = 1 := by
  obtain ⟨l1, l2, l3, l4, l5, l6, hl, hs, hu⟩ := Kin.links_last k hb hw q
  exact ⟨l6, by rw [hl]; rfl, by rw [hl]; rfl, by rw [hl]; rfl, hs, hu⟩

/-- [R] a Tool on top does NOT move the last link (it is left unchanged), so there the last link is
`forward` without the tool: `forward = last_link * tool` as rigid motions. -/
theorem last_link_tool (k : Kin ℝ) (hb : k.baseFrameOnly) (hw : k.WF) (t : Iso ℝ) (q : J6 ℝ) :
    ∃ l, ((Kin.tool k t).links q)[5]? = some l ∧ Iso.Same ((Kin.tool k t).forward q) (l.mul t) := by
  obtain ⟨l1, l2, l3, l4, l5, l6, hl, hs, hu⟩ := Kin.links_last k hb hw q
  refine ⟨l6, ?_, hs.mul_right t (Kin.forward_unit k hw q) hu⟩
  show (k.links q)[5]? = some l6
  rw [hl]; rfl

/-! ### 6 — linear axis and gantry -/

section Axis
variable {R : Type} [OpwNum R] (robot : Kin R) (base : Iso R) (d : R) (tr : V3 R) (q : J6 R)

/-- [G] `LinearAxis::forward` = `base * translate(axis, distance) * robot.forward` -/
theorem linearAxis_x : linearAxisForward robot 0 base d q =
    some ((base.mul (Iso.ofTranslation ⟨d, 0, 0⟩)).mul (robot.forward q)) := rfl
theorem linearAxis_y : linearAxisForward robot 1 base d q =
    some ((base.mul (Iso.ofTranslation ⟨0, d, 0⟩)).mul (robot.forward q)) := rfl
theorem linearAxis_z : linearAxisForward robot 2 base d q =
    some ((base.mul (Iso.ofTranslation ⟨0, 0, d⟩)).mul (robot.forward q)) := rfl

/-- [G] an axis index above 2 has no result (`none` models the `panic!`) -/
theorem linearAxis_invalid : ∀ (axis : Nat), 2 < axis → linearAxisForward robot axis base d q = none
  | 0, h => absurd h (by decide)
  | 1, h => absurd h (by decide)
  | 2, h => absurd h (by decide)
  | _ + 3, _ => rfl

/-- [G] and only then -/
theorem linearAxis_isSome (axis : Nat) :
    (linearAxisForward robot axis base d q).isSome = true ↔ axis ≤ 2 := by
  match axis with
  | 0 => exact ⟨fun _ => by decide, fun _ => rfl⟩
  | 1 => exact ⟨fun _ => by decide, fun _ => rfl⟩
  | 2 => exact ⟨fun _ => by decide, fun _ => rfl⟩
  | n + 3 =>
    constructor
    · intro h; rw [linearAxis_invalid robot base d q (n + 3) (by omega)] at h; cases h
    · intro h; omega

/-- [G] `Gantry::forward` = `base * translate * robot.forward`; it is a Base wrapper with the
combined transform -/
theorem gantry_forward :
    gantryForward robot base tr q = (base.mul (Iso.ofTranslation tr)).mul (robot.forward q) := rfl
theorem gantry_is_base :
    gantryForward robot base tr q = (Kin.base robot (base.mul (Iso.ofTranslation tr))).forward q :=
  rfl

end Axis

/-- [R] over the reals the product can be bracketed either way (unit base quaternion) -/
theorem gantry_forward_assoc (robot : Kin ℝ) (base : Iso ℝ) (hb : base.q.normSq = 1) (tr : V3 ℝ)
    (q : J6 ℝ) :
    gantryForward robot base tr q = base.mul ((Iso.ofTranslation tr).mul (robot.forward q)) :=
  Iso.mul_assoc base (Iso.ofTranslation tr) _ hb Quat.normSq_one

theorem linearAxis_forward_assoc (robot : Kin ℝ) (base : Iso ℝ) (hb : base.q.normSq = 1) (d : ℝ)
    (q : J6 ℝ) (axis : Nat) (r : Iso ℝ) (h : linearAxisForward robot axis base d q = some r) :
    ∃ v : V3 ℝ, r = base.mul ((Iso.ofTranslation v).mul (robot.forward q)) ∧
      v.normSq = d * d := by
  match axis, h with
  | 0, h =>
    rw [linearAxis_x] at h
    exact ⟨_, by rw [← Option.some.inj h]; exact Iso.mul_assoc _ _ _ hb Quat.normSq_one,
      by simp only [V3.normSq_eq, lit0]; ring⟩
  | 1, h =>
    rw [linearAxis_y] at h
    exact ⟨_, by rw [← Option.some.inj h]; exact Iso.mul_assoc _ _ _ hb Quat.normSq_one,
      by simp only [V3.normSq_eq, lit0]; ring⟩
  | 2, h =>
    rw [linearAxis_z] at h
    exact ⟨_, by rw [← Option.some.inj h]; exact Iso.mul_assoc _ _ _ hb Quat.normSq_one,
      by simp only [V3.normSq_eq, lit0]; ring⟩
  | n + 3, h =>
    rw [linearAxis_invalid robot base d q (n + 3) (by omega)] at h; cases h

/-! ### 7 — concrete instances -/

/-- a tool 1 unit along z, no rotation -/
noncomputable def exTool : Iso ℝ := ⟨⟨0, 0, 1⟩, ⟨1, 0, 0, 0⟩⟩
/-- a base at (1, 2, 3), turned half a turn about z -/
noncomputable def exBase : Iso ℝ := ⟨⟨1, 2, 3⟩, ⟨0, 0, 0, 1⟩⟩

theorem exTool_unit : exTool.q.normSq = 1 := by
  show (1 : ℝ) * 1 + 0 * 0 + 0 * 0 + 0 * 0 = 1; norm_num
theorem exBase_unit : exBase.q.normSq = 1 := by
  show (0 : ℝ) * 0 + 0 * 0 + 0 * 0 + 1 * 1 = 1; norm_num

/-- tool on a robot on a base: any solver, any parameters -/
noncomputable def exStack (k : Opw ℝ) : Kin ℝ := .base (.tool (.opw k) exTool) exBase
/-- robot on a base in a frame -/
noncomputable def exStackBF (k : Opw ℝ) : Kin ℝ := .frame (.base (.opw k) exBase) exTool

theorem exStack_plain (k : Opw ℝ) : (exStack k).plain := trivial
theorem exStack_WF (k : Opw ℝ) : (exStack k).WF := ⟨⟨trivial, exTool_unit⟩, exBase_unit⟩
theorem exStackBF_bf (k : Opw ℝ) : (exStackBF k).baseFrameOnly := trivial
theorem exStackBF_WF (k : Opw ℝ) : (exStackBF k).WF := ⟨⟨trivial, exBase_unit⟩, exTool_unit⟩

/-- forward = base * robot * tool -/
example (k : Opw ℝ) (q : J6 ℝ) :
    (exStack k).forward q = exBase.mul ((Opw.forward k.p q).mul exTool) := by
  have h := stack_forward (exStack k) (exStack_plain k) (exStack_WF k) q
  have hb : (exStack k).baseOf = exBase := Iso.mul_one exBase
  have ht : (exStack k).toolOf = exTool := Iso.one_mul exTool
  rw [hb, ht] at h
  exact h

/-- an answer for which the core reproduces the local pose reproduces the requested pose -/
example (k : Opw ℝ) (pose : Iso ℝ) (hu : pose.q.normSq = 1) (s : J6 ℝ)
    (h : Opw.forward k.p s = (exBase.inv.mul pose).mul exTool.inv) : (exStack k).forward s = pose :=
  stack_maps_back (exStack k) (exStack_plain k) (exStack_WF k) pose hu s h

example (k : Opw ℝ) (pose : Iso ℝ) (hu : pose.q.normSq = 1) (s : J6 ℝ)
    (h : Iso.Same (Opw.forward k.p s) ((exBase.inv.mul pose).mul exTool.inv)) :
    Iso.Same ((exStack k).forward s) pose :=
  stack_maps_back_same (exStack k) (exStack_plain k) (exStack_WF k) pose hu s h

/-- the answers are the core's answers for the local pose -/
example (k : Opw ℝ) (pose : Iso ℝ) :
    (exStack k).inverse pose = k.inverse ((exBase.inv.mul pose).mul exTool.inv) :=
  (stack_keeps_answers (exStack_plain k) pose default 0).1

/-- the last link of a base + frame stack is the forward pose -/
example (k : Opw ℝ) (q : J6 ℝ) :
    ∃ l, ((exStackBF k).links q)[5]? = some l ∧ Iso.Same ((exStackBF k).forward q) l := by
  obtain ⟨l, _, h5, _, hs, _⟩ := last_link_same_forward (exStackBF k) (exStackBF_bf k) (exStackBF_WF k) q
  exact ⟨l, h5, hs⟩

/-- the `Float` stack of `Sound.lean`: J6 pass-through and the delegation chain -/
example {s : J6 Float} (h : s ∈ Ex.stack5.inverse5dof Ex.pose 0.25) : s.j6 = 0.25 :=
  stack_keeps_j6 Ex.stack5_plain h

example : Ex.stack6.inverse Ex.pose =
    Ex.k6c.inverse ((Ex.tcp.inv.mul (Ex.pose.mul Ex.tcp.inv)).mul Ex.tcp.inv) :=
  (stack_keeps_answers Ex.stack6_plain Ex.pose Ex.prev 0).1

example (q : J6 Float) : linearAxisForward Ex.stack6 3 Ex.tcp 0.5 q = none :=
  linearAxis_invalid _ _ _ _ 3 (by decide)

end Opw.C09
