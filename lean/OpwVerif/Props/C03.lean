/-
  C03 — Forward kinematics equals the OPW link chain, for the tool point and every link.
  Property theorems only; helper lemmas live in `Lemmas/`.
  Kinds: [R] real arithmetic, [G] generic (any number type, holds of the Float reading itself).
-/
import OpwVerif.Lemmas.Chain
namespace Opw.C03
open Opw

/-- [R] The closed form used by `forward` (rotation matrix `r_0c * r_ce` and translation) equals the
product of the six elementary joint rotations Rz·Ry·Ry·Rz·Ry·Rz and the accumulated OPW link
offsets `(0,0,c1), (a1,b,0), (0,0,c2), (a2,0,0), (0,0,c3), (0,0,c4)`, for every parameter set and
every joint vector (no range restriction). -/
theorem closed_form_eq_reference_chain (p : Params ℝ) (q : J6 ℝ) :
    forwardTheta p q = (rot6 q, org6 p q) := by
  ext
  · exact forwardTheta_rot p q
  · exact forwardTheta_tr p q

/-- [G] Link pose `i` depends only on joints `1..i` (any number type; structural). -/
theorem chain_prefix {R : Type} [OpwNum R] (p : Params R) (q q' : J6 R) :
    (q.j1 = q'.j1 → (chainTheta p q)[0]? = (chainTheta p q')[0]?) ∧
    (q.j1 = q'.j1 → q.j2 = q'.j2 → (chainTheta p q)[1]? = (chainTheta p q')[1]?) ∧
    (q.j1 = q'.j1 → q.j2 = q'.j2 → q.j3 = q'.j3 → (chainTheta p q)[2]? = (chainTheta p q')[2]?) ∧
    (q.j1 = q'.j1 → q.j2 = q'.j2 → q.j3 = q'.j3 → q.j4 = q'.j4 → (chainTheta p q)[3]? = (chainTheta p q')[3]?) ∧
    (q.j1 = q'.j1 → q.j2 = q'.j2 → q.j3 = q'.j3 → q.j4 = q'.j4 → q.j5 = q'.j5 →
      (chainTheta p q)[4]? = (chainTheta p q')[4]?) := by
  refine ⟨?_, ?_, ?_, ?_, ?_⟩ <;> intros <;> simp_all [chainTheta]

/-- [G] the chain always has exactly six links -/
theorem chain_length {R : Type} [OpwNum R] (p : Params R) (j : J6 R) : (chain p j).length = 6 := by
  simp [chain, chainTheta]

/-- non-vacuity: a concrete robot with `b ≠ 0`, `a2 ≠ 0` and a joint vector far outside `[-π, π]` -/
example : ∃ (p : Params ℝ) (q : J6 ℝ), p.b ≠ 0 ∧ p.a2 ≠ 0 ∧ q.j1 = 100 ∧ forwardTheta p q = (rot6 q, org6 p q) :=
  ⟨⟨1, 2, 3, 4, 5, 6, 7, ⟨0, 0, 0, 0, 0, 0⟩, ⟨1, 1, 1, 1, 1, 1⟩, 6⟩, ⟨100, 1, 2, 3, 4, 5⟩,
    by norm_num, by norm_num, rfl, closed_form_eq_reference_chain _ _⟩

/-- [R] `forward` equals the last of the six link poses of `forward_with_joint_poses`: same
translation, same rotation (as rotation matrices; quaternions are determined up to sign), and both
are unit quaternions. Holds for every parameter set, sign/offset convention and joint vector. -/
theorem forward_eq_last_link (p : Params ℝ) (j : J6 ℝ) :
    ∃ l6, (chain p j)[5]? = some l6 ∧ (forward p j).t = l6.t ∧ (forward p j).q.toMat = l6.q.toMat ∧
      (forward p j).q.normSq = 1 ∧ l6.q.normSq = 1 := by
  obtain ⟨l6, h, ht, hr, hu, hl⟩ := forwardTheta_last_link p (thetaOf p j)
  exact ⟨l6, h, ht, hr, hu, hl⟩

/-- [R] every link pose is the product of the elementary joint transforms up to that link: its rotation
matrix is `Rz(θ1)·Ry(θ2)·…` and its origin the accumulated offsets; all link rotations are unit
quaternions, i.e. proper rotations (`IsRot`: orthogonal with determinant one). -/
theorem links_are_reference_chain (p : Params ℝ) (j : J6 ℝ) :
    ∃ l1 l2 l3 l4 l5 l6, chain p j = [l1, l2, l3, l4, l5, l6] ∧
      LinkIs l1 (rot1 (thetaOf p j)) (org1 p (thetaOf p j)) ∧ LinkIs l2 (rot2 (thetaOf p j)) (org2 p (thetaOf p j)) ∧
      LinkIs l3 (rot3 (thetaOf p j)) (org3 p (thetaOf p j)) ∧ LinkIs l4 (rot4 (thetaOf p j)) (org4 p (thetaOf p j)) ∧
      LinkIs l5 (rot5 (thetaOf p j)) (org5 p (thetaOf p j)) ∧ LinkIs l6 (rot6 (thetaOf p j)) (org6 p (thetaOf p j)) :=
  chainTheta_links p (thetaOf p j)

theorem link_rotation_proper {l : Iso ℝ} {r : M3 ℝ} {o : V3 ℝ} (h : LinkIs l r o) : IsRot l.q.toMat :=
  IsRot_toMat l.q h.unit

/-- [R] consecutive link origins are separated by exactly the parameter-defined offsets:
`‖o2−o1‖² = a1²+b²`, `‖o3−o2‖² = c2²`, `‖o4−o3‖² = a2²`, `‖o5−o4‖² = c3²`, `‖o6−o5‖² = c4²`, `o1 = (0,0,c1)`. -/
theorem link_offsets (p : Params ℝ) (q : J6 ℝ) :
    org1 p q = ⟨0, 0, p.c1⟩ ∧
    ((org2 p q).sub (org1 p q)).normSq = p.a1 * p.a1 + p.b * p.b ∧
    ((org3 p q).sub (org2 p q)).normSq = p.c2 * p.c2 ∧
    ((org4 p q).sub (org3 p q)).normSq = p.a2 * p.a2 ∧
    ((org5 p q).sub (org4 p q)).normSq = p.c3 * p.c3 ∧
    ((org6 p q).sub (org5 p q)).normSq = p.c4 * p.c4 := by
  have sub_add : ∀ (a b : V3 ℝ), (a.add b).sub a = b := by
    intro a b; apply V3.ext' <;> simp [V3.add, V3.sub]
  have r1 : IsRot (rot1 q) := IsRot_rz _
  have r2 : IsRot (rot2 q) := r1.mul (IsRot_ry _)
  have r3 : IsRot (rot3 q) := r2.mul (IsRot_ry _)
  have r4 : IsRot (rot4 q) := r3.mul (IsRot_rz _)
  have r5 : IsRot (rot5 q) := r4.mul (IsRot_ry _)
  refine ⟨rfl, ?_, ?_, ?_, ?_, ?_⟩
  · rw [org2, sub_add, r1.normSq_mulVec]; simp [V3.normSq_eq]
  · rw [org3, sub_add, r2.normSq_mulVec]; simp [V3.normSq_eq]
  · rw [org4, sub_add, r3.normSq_mulVec]; simp [V3.normSq_eq]
  · rw [org5, sub_add, r4.normSq_mulVec]; simp [V3.normSq_eq]
  · rw [org6, sub_add, r5.normSq_mulVec]; simp [V3.normSq_eq]

end Opw.C03
