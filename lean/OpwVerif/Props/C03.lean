/-
  C03 — Forward kinematics equals the OPW link chain, for the tool point and every link.
  Property theorems only; helper lemmas live in `Lemmas/`.
  Kinds: [R] real arithmetic, [G] generic (any number type, holds of the Float reading itself).
-/
import OpwVerif.Lemmas.Fk
namespace Opw.C03
open Opw

/-- [R] The closed form used by `forward` (rotation matrix `r_0c * r_ce` and translation) equals the
product of the six elementary joint rotations Rz·Ry·Ry·Rz·Ry·Rz and the accumulated OPW link
offsets `(0,0,c1), (a1,b,0), (0,0,c2), (a2,0,0), (0,0,c3), (0,0,c4)`, for every parameter set and
every joint vector (no range restriction). -/
theorem closed_form_eq_reference_chain (p : Params ℝ) (q : J6 ℝ) :
    forwardTheta p q = (rot6 q, org6 p q) := by
  ext
  · exact forwardTheta_rot p q
  · exact forwardTheta_tr p q

/-- [G] Link pose `i` depends only on joints `1..i` (any number type; structural). -/
theorem chain_prefix {R : Type} [OpwNum R] (p : Params R) (q q' : J6 R) :
    (q.j1 = q'.j1 → (chainTheta p q)[0]? = (chainTheta p q')[0]?) ∧
    (q.j1 = q'.j1 → q.j2 = q'.j2 → (chainTheta p q)[1]? = (chainTheta p q')[1]?) ∧
    (q.j1 = q'.j1 → q.j2 = q'.j2 → q.j3 = q'.j3 → (chainTheta p q)[2]? = (chainTheta p q')[2]?) ∧
    (q.j1 = q'.j1 → q.j2 = q'.j2 → q.j3 = q'.j3 → q.j4 = q'.j4 → (chainTheta p q)[3]? = (chainTheta p q')[3]?) ∧
    (q.j1 = q'.j1 → q.j2 = q'.j2 → q.j3 = q'.j3 → q.j4 = q'.j4 → q.j5 = q'.j5 →
      (chainTheta p q)[4]? = (chainTheta p q')[4]?) := by
  refine ⟨?_, ?_, ?_, ?_, ?_⟩ <;> intros <;> simp_all [chainTheta]

/-- [G] the chain always has exactly six links -/
theorem chain_length {R : Type} [OpwNum R] (p : Params R) (j : J6 R) : (chain p j).length = 6 := by
  simp [chain, chainTheta]

/-- non-vacuity: a concrete robot with `b ≠ 0`, `a2 ≠ 0` and a joint vector far outside `[-π, π]` -/
example : ∃ (p : Params ℝ) (q : J6 ℝ), p.b ≠ 0 ∧ p.a2 ≠ 0 ∧ q.j1 = 100 ∧ forwardTheta p q = (rot6 q, org6 p q) :=
  ⟨⟨1, 2, 3, 4, 5, 6, 7, ⟨0, 0, 0, 0, 0, 0⟩, ⟨1, 1, 1, 1, 1, 1⟩, 6⟩, ⟨100, 1, 2, 3, 4, 5⟩,
    by norm_num, by norm_num, rfl, closed_form_eq_reference_chain _ _⟩

end Opw.C03
