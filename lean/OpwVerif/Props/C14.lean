/-
  C14 — Neighbour generation for graph search (`non_colliding_offsets` in `collisions.rs`): the
  configurations offered are exactly the up-to-twelve single-joint replacements (joint k set to
  `from[k]`, then to `to[k]`, k = 0..5) that are within limits and that the FULL collision check
  reports free — although the code runs a cheaper check that skips the joints before the replaced one.
  All theorems are of kind [A]: every scene function `sceneAt` (any environment, any oracles), every
  safety table, every `choice`; generic number type.
  Property theorems only; helper lemmas live in `Lemmas/Coll.lean`.
-/
import OpwVerif.Lemmas.Coll
namespace Opw.C14
open Opw Opw.Coll

variable {R : Type} [OpwNum R]

/-! ### Vocabulary -/

/-- "within limits": `constraints.compliant` when limits are present, else always -/
def compliantOpt (cons : Option (Constraints R)) (c : J6 R) : Bool :=
  match cons with
  | some cc => cc.compliant c
  | none => true

/-- the test the code applies to candidate `(k, c)`: within limits and -- unless collision checking is switched off
(`CheckMode::NoCheck`, D21) -- the first-collision check that skips joints `0..k-1` finds nothing -/
def accepted (sceneAt : J6 R → Scene R) (unchanged : J6 R → Nat → Bool) (own : Safety R) (cons : Option (Constraints R))
    (choice : List (Nat × Nat) → Option (Nat × Nat)) (kc : Nat × J6 R) : Bool :=
  compliantOpt cons kc.2 &&
    (own.mode == .noCheck ||
      (detect (sceneAt kc.2) own own (some .firstCollisionOnly) (skipOf unchanged kc.1 kc.2) choice).isEmpty)

/-- the full check of one configuration (no skips), with the mode forced to first-collision -/
def fullCheckFree (sc : Scene R) (own : Safety R) (choice : List (Nat × Nat) → Option (Nat × Nat)) : Bool :=
  (detect sc own own (some .firstCollisionOnly) [] choice).isEmpty

/-- The precondition of the skip optimisation, for candidate `(k, c)`: in the candidate scene no
relevant pair of bodies that both did not move (joints `0..k-1`, the base, environment objects)
collides.  This is what "the initial vector is collision-free and replacing joint k does not move
the bodies before it" gives.  Only required of the candidates that are within limits. -/
def UnmovedFree (sceneAt : J6 R → Scene R) (unchanged : J6 R → Nat → Bool) (own : Safety R) (cons : Option (Constraints R))
    (initial f t : J6 R) : Prop :=
  ∀ kc ∈ offsetCandidates initial f t, compliantOpt cons kc.2 = true →
    ∀ p ∈ relevantPairs (sceneAt kc.2),
      unmoved (skipOf unchanged kc.1 kc.2) p.1 = true → unmoved (skipOf unchanged kc.1 kc.2) p.2 = true →
      taskCollides (sceneAt kc.2) own p.1 p.2 = false

/-! ### 1. The twelve candidates -/

omit [OpwNum R] in
/-- [A] the candidate list: twelve entries, in order joint k replaced by `from[k]` then by `to[k]` -/
theorem offsetCandidates_spec (initial f t : J6 R) :
    offsetCandidates initial f t =
      [(0, initial.set 0 (f.get 0)), (0, initial.set 0 (t.get 0)),
       (1, initial.set 1 (f.get 1)), (1, initial.set 1 (t.get 1)),
       (2, initial.set 2 (f.get 2)), (2, initial.set 2 (t.get 2)),
       (3, initial.set 3 (f.get 3)), (3, initial.set 3 (t.get 3)),
       (4, initial.set 4 (f.get 4)), (4, initial.set 4 (t.get 4)),
       (5, initial.set 5 (f.get 5)), (5, initial.set 5 (t.get 5))] ∧
    (offsetCandidates initial f t).length = 12 := ⟨rfl, rfl⟩

omit [OpwNum R] in
/-- [A] the same with the joint vectors written out: exactly one coordinate differs from `initial` -/
theorem offsetCandidates_explicit (i f t : J6 R) :
    (offsetCandidates i f t).map (·.2) =
      [⟨f.j1, i.j2, i.j3, i.j4, i.j5, i.j6⟩, ⟨t.j1, i.j2, i.j3, i.j4, i.j5, i.j6⟩,
       ⟨i.j1, f.j2, i.j3, i.j4, i.j5, i.j6⟩, ⟨i.j1, t.j2, i.j3, i.j4, i.j5, i.j6⟩,
       ⟨i.j1, i.j2, f.j3, i.j4, i.j5, i.j6⟩, ⟨i.j1, i.j2, t.j3, i.j4, i.j5, i.j6⟩,
       ⟨i.j1, i.j2, i.j3, f.j4, i.j5, i.j6⟩, ⟨i.j1, i.j2, i.j3, t.j4, i.j5, i.j6⟩,
       ⟨i.j1, i.j2, i.j3, i.j4, f.j5, i.j6⟩, ⟨i.j1, i.j2, i.j3, i.j4, t.j5, i.j6⟩,
       ⟨i.j1, i.j2, i.j3, i.j4, i.j5, f.j6⟩, ⟨i.j1, i.j2, i.j3, i.j4, i.j5, t.j6⟩] := rfl

omit [OpwNum R] in
/-- [A] the replaced joint index of a candidate is below 6 -/
theorem candidate_index_lt (initial f t : J6 R) (kc : Nat × J6 R) (h : kc ∈ offsetCandidates initial f t) :
    kc.1 < 6 ∧ (kc.2 = initial.set kc.1 (f.get kc.1) ∨ kc.2 = initial.set kc.1 (t.get kc.1)) := by
  simp only [offsetCandidates, List.mem_flatMap, List.mem_range, List.mem_cons, List.not_mem_nil,
    or_false] at h
  obtain ⟨k, hk, rfl | rfl⟩ := h
  · exact ⟨hk, .inl rfl⟩
  · exact ⟨hk, .inr rfl⟩

/-! ### 2. The result is the candidate list, filtered -/

/-- [A] `non_colliding_offsets` = candidates, filtered by the acceptance test, order kept -/
theorem offsets_eq_filter (sceneAt : J6 R → Scene R) (unchanged : J6 R → Nat → Bool) (own : Safety R) (cons : Option (Constraints R))
    (initial f t : J6 R) (choice : List (Nat × Nat) → Option (Nat × Nat)) :
    nonCollidingOffsets sceneAt unchanged own cons initial f t choice =
      ((offsetCandidates initial f t).filter (accepted sceneAt unchanged own cons choice)).map (·.2) := by
  rw [← filterMap_ite]
  unfold nonCollidingOffsets
  apply List.filterMap_congr
  rintro ⟨k, c⟩ -
  simp only [accepted, compliantOpt, beq_noCheck]
  cases cons with
  | none => by_cases hm : own.mode = CheckMode.noCheck <;> simp [hm]
  | some cc => cases h : cc.compliant c <;> by_cases hm : own.mode = CheckMode.noCheck <;> simp [h, hm]

/-- [A] the result is a sublist of the candidates (same order, at most twelve), and every element
offered is within limits and passed the (skip-based) collision check -/
theorem offsets_sublist (sceneAt : J6 R → Scene R) (unchanged : J6 R → Nat → Bool) (own : Safety R) (cons : Option (Constraints R))
    (initial f t : J6 R) (choice : List (Nat × Nat) → Option (Nat × Nat)) :
    (nonCollidingOffsets sceneAt unchanged own cons initial f t choice).Sublist
        ((offsetCandidates initial f t).map (·.2)) ∧
    (nonCollidingOffsets sceneAt unchanged own cons initial f t choice).length ≤ 12 ∧
    (∀ c ∈ nonCollidingOffsets sceneAt unchanged own cons initial f t choice,
      compliantOpt cons c = true ∧
      ∃ k < 6, (c = initial.set k (f.get k) ∨ c = initial.set k (t.get k)) ∧
        (own.mode = .noCheck ∨
          (detect (sceneAt c) own own (some .firstCollisionOnly) (skipOf unchanged k c) choice).isEmpty = true)) := by
  rw [offsets_eq_filter]
  have hsub : (((offsetCandidates initial f t).filter (accepted sceneAt unchanged own cons choice)).map (·.2)).Sublist
      ((offsetCandidates initial f t).map (·.2)) := List.Sublist.map _ List.filter_sublist
  refine ⟨hsub, ?_, ?_⟩
  · have := hsub.length_le
    rwa [List.length_map (as := offsetCandidates initial f t), (offsetCandidates_spec initial f t).2] at this
  · intro c hc
    rw [List.mem_map] at hc
    obtain ⟨⟨k, c'⟩, hkc, rfl⟩ := hc
    rw [List.mem_filter] at hkc
    obtain ⟨hmem, hacc⟩ := hkc
    simp only [accepted, Bool.and_eq_true, Bool.or_eq_true, beq_noCheck, decide_eq_true_eq] at hacc
    obtain ⟨hk, hform⟩ := candidate_index_lt initial f t _ hmem
    exact ⟨hacc.1, k, hk, hform, hacc.2⟩

/-! ### 3. The skip-based check agrees with the full check -/

/-- [A] the skip-based task list is part of the full one (any skip list) -/
theorem tasks_skip_subset (sc : Scene R) (own : Safety R) (skip : List Nat) (p : Nat × Nat)
    (h : p ∈ tasks sc own skip) : p ∈ tasks sc own [] := tasks_subset sc own skip h

/-- [A] a pair of the full task list that is left out when joints `0..k-1` are skipped (`k ≤ 6`)
consists of two bodies that did not move -/
theorem skipped_pairs_unmoved (sc : Scene R) (own : Safety R) (k : Nat) (hk : k ≤ 6) (p : Nat × Nat)
    (h1 : p ∈ tasks sc own []) (h2 : p ∉ tasks sc own (List.range k)) :
    unmoved (List.range k) p.1 = true ∧ unmoved (List.range k) p.2 = true :=
  missing_unmoved sc own (range_contains_jTool hk) h1 h2

/-- [A] one candidate: if no relevant pair of two unmoved bodies collides in the scene, the
skip-based first-collision check is empty exactly when the full check is — for every `choice` -/
theorem skip_check_exact (sc : Scene R) (own : Safety R) (k : Nat) (hk : k ≤ 6)
    (choice : List (Nat × Nat) → Option (Nat × Nat))
    (hU : ∀ p ∈ relevantPairs sc, unmoved (List.range k) p.1 = true → unmoved (List.range k) p.2 = true →
      taskCollides sc own p.1 p.2 = false) :
    (detect sc own own (some .firstCollisionOnly) (List.range k) choice).isEmpty =
      fullCheckFree sc own choice :=
  detect_skip_isEmpty sc own choice (range_contains_jTool hk) hU

/-- [A] the skip list of a candidate never contains the tool (it is a part of `0..k-1`, `k ≤ 6`) -/
theorem skipOf_contains_jTool (unchanged : J6 R → Nat → Bool) {k : Nat} (hk : k ≤ 6) (c : J6 R) :
    (skipOf unchanged k c).contains jTool = false := by
  have h := range_contains_jTool hk
  simp only [skipOf, List.contains_eq_mem, List.mem_filter, decide_eq_false_iff_not, not_and] at h ⊢
  intro hm; exact absurd hm h

/-- [A] the same for the skip list the repaired code uses: links `0..k-1` whose pose did not change (D23) -/
theorem skip_check_exact' (sc : Scene R) (own : Safety R) (unchanged : J6 R → Nat → Bool) (k : Nat) (hk : k ≤ 6) (c : J6 R)
    (choice : List (Nat × Nat) → Option (Nat × Nat))
    (hU : ∀ p ∈ relevantPairs sc, unmoved (skipOf unchanged k c) p.1 = true → unmoved (skipOf unchanged k c) p.2 = true →
      taskCollides sc own p.1 p.2 = false) :
    (detect sc own own (some .firstCollisionOnly) (skipOf unchanged k c) choice).isEmpty =
      fullCheckFree sc own choice :=
  detect_skip_isEmpty sc own choice (skipOf_contains_jTool unchanged hk c) hU

/-- [A] the full check with forced first-collision mode is `!collides` unless checking is off -/
theorem fullCheckFree_eq_not_collides (sc : Scene R) (own : Safety R)
    (choice : List (Nat × Nat) → Option (Nat × Nat)) (hmode : own.mode ≠ .noCheck) :
    fullCheckFree sc own choice = !collides sc own choice := by
  unfold collides fullCheckFree
  cases hm : own.mode
  · simp [beq_noCheck]
  · simp [beq_noCheck]
  · exact absurd hm hmode

/-- [A] the full check is free iff no enumerated task collides; it does not depend on `choice` -/
theorem fullCheckFree_iff (sc : Scene R) (own : Safety R) (choice : List (Nat × Nat) → Option (Nat × Nat)) :
    fullCheckFree sc own choice = true ↔ ∀ p ∈ tasks sc own [], taskCollides sc own p.1 p.2 = false := by
  simp only [fullCheckFree, detect, Option.getD_some, processTasks_first_isEmpty, hitsOf_isEmpty]

/-- [A] under `UnmovedFree` the neighbours offered are exactly the candidates that are within limits
and free according to the FULL collision check (or checking is switched off), in candidate order -/
theorem offsets_exact_full (sceneAt : J6 R → Scene R) (unchanged : J6 R → Nat → Bool) (own : Safety R) (cons : Option (Constraints R))
    (initial f t : J6 R) (choice : List (Nat × Nat) → Option (Nat × Nat))
    (hU : UnmovedFree sceneAt unchanged own cons initial f t) :
    nonCollidingOffsets sceneAt unchanged own cons initial f t choice =
      (offsetCandidates initial f t).filterMap (fun kc =>
        if compliantOpt cons kc.2 && (own.mode == .noCheck || fullCheckFree (sceneAt kc.2) own choice)
        then some kc.2 else none) := by
  rw [offsets_eq_filter, ← filterMap_ite]
  apply List.filterMap_congr
  rintro ⟨k, c⟩ hkc
  have hk := (candidate_index_lt initial f t _ hkc).1
  simp only [accepted]
  by_cases hc : compliantOpt cons c = true
  · have e := skip_check_exact' (sceneAt c) own unchanged k (by omega) c choice (hU (k, c) hkc hc)
    simp only [e]
  · have hc' : compliantOpt cons c = false := by simpa using hc
    simp [hc']

/-- [A] the collision verdict of the same robot: `collides` is `false` in no-check mode and the negation of the full
first-collision check otherwise -/
theorem collides_eq (sc : Scene R) (own : Safety R) (choice : List (Nat × Nat) → Option (Nat × Nat)) :
    collides sc own choice = !(own.mode == .noCheck || fullCheckFree sc own choice) := by
  unfold collides fullCheckFree
  cases hm : own.mode <;> simp [beq_noCheck]

/-- [A] the same with `RobotBody::collides`, in EVERY check mode (the earlier version needed
`own.mode ≠ .noCheck`: in no-check mode the code withheld candidates the robot reports free -- defect D21, repaired) -/
theorem offsets_exact (sceneAt : J6 R → Scene R) (unchanged : J6 R → Nat → Bool) (own : Safety R) (cons : Option (Constraints R))
    (initial f t : J6 R) (choice : List (Nat × Nat) → Option (Nat × Nat))
    (hU : UnmovedFree sceneAt unchanged own cons initial f t) :
    nonCollidingOffsets sceneAt unchanged own cons initial f t choice =
      (offsetCandidates initial f t).filterMap (fun kc =>
        if compliantOpt cons kc.2 = true ∧ collides (sceneAt kc.2) own choice = false
        then some kc.2 else none) := by
  rw [offsets_exact_full sceneAt unchanged own cons initial f t choice hU]
  apply List.filterMap_congr
  rintro ⟨k, c⟩ -
  rw [collides_eq]
  cases compliantOpt cons c <;> cases (own.mode == CheckMode.noCheck || fullCheckFree (sceneAt c) own choice) <;> simp

/-- [A] membership form: a configuration is offered iff it is a single-joint replacement that is
within limits and not colliding -/
theorem offsets_exact_mem (sceneAt : J6 R → Scene R) (unchanged : J6 R → Nat → Bool) (own : Safety R) (cons : Option (Constraints R))
    (initial f t : J6 R) (choice : List (Nat × Nat) → Option (Nat × Nat))
    (hU : UnmovedFree sceneAt unchanged own cons initial f t) (c : J6 R) :
    c ∈ nonCollidingOffsets sceneAt unchanged own cons initial f t choice ↔
      (∃ k < 6, c = initial.set k (f.get k) ∨ c = initial.set k (t.get k)) ∧
      compliantOpt cons c = true ∧ collides (sceneAt c) own choice = false := by
  rw [offsets_exact sceneAt unchanged own cons initial f t choice hU]
  simp only [List.mem_filterMap, Option.ite_none_right_eq_some, Option.some.injEq]
  constructor
  · rintro ⟨kc, hkc, hh, rfl⟩
    obtain ⟨hk, hform⟩ := candidate_index_lt initial f t _ hkc
    exact ⟨⟨kc.1, hk, hform⟩, hh⟩
  · rintro ⟨⟨k, hk, hform⟩, hh⟩
    have hmem : (k, c) ∈ offsetCandidates initial f t := by
      simp only [offsetCandidates, List.mem_flatMap, List.mem_range, List.mem_cons, List.not_mem_nil,
        or_false, Prod.mk.injEq]
      rcases hform with h | h
      · exact ⟨k, hk, .inl ⟨rfl, h⟩⟩
      · exact ⟨k, hk, .inr ⟨rfl, h⟩⟩
    exact ⟨(k, c), hmem, hh, rfl⟩

/-- [A] where the precondition comes from: if the initial vector is collision-free (no relevant pair collides in its
scene), the scenes have the same bodies, and a pair of bodies that both did not move has the same verdict in the candidate
scene as in the initial one (the verdict is a function of the two poses), then `UnmovedFree` holds -/
theorem unmovedFree_of_initial_free (sceneAt : J6 R → Scene R) (unchanged : J6 R → Nat → Bool) (own : Safety R)
    (cons : Option (Constraints R)) (initial f t : J6 R)
    (hbodies : ∀ c, relevantPairs (sceneAt c) = relevantPairs (sceneAt initial))
    (hsame : ∀ kc ∈ offsetCandidates initial f t, ∀ i j,
      unmoved (skipOf unchanged kc.1 kc.2) i = true → unmoved (skipOf unchanged kc.1 kc.2) j = true →
      taskCollides (sceneAt kc.2) own i j = taskCollides (sceneAt initial) own i j)
    (hfree : ∀ p ∈ relevantPairs (sceneAt initial), taskCollides (sceneAt initial) own p.1 p.2 = false) :
    UnmovedFree sceneAt unchanged own cons initial f t := by
  intro kc hkc _ p hp h1 h2
  rw [hsame kc hkc p.1 p.2 h1 h2]
  exact hfree p (by rw [← hbodies kc.2]; exact hp)

/-! ### 4. Examples -/

/-- the candidates for `initial = 0`, `from = 1`, `to = 2` (each in all six joints) -/
example : (offsetCandidates (⟨0, 0, 0, 0, 0, 0⟩ : J6 R) ⟨1, 1, 1, 1, 1, 1⟩ ⟨2, 2, 2, 2, 2, 2⟩).map
      (fun kc => (kc.1, kc.2.toList)) =
    [(0, [1, 0, 0, 0, 0, 0]), (0, [2, 0, 0, 0, 0, 0]), (1, [0, 1, 0, 0, 0, 0]), (1, [0, 2, 0, 0, 0, 0]),
     (2, [0, 0, 1, 0, 0, 0]), (2, [0, 0, 2, 0, 0, 0]), (3, [0, 0, 0, 1, 0, 0]), (3, [0, 0, 0, 2, 0, 0]),
     (4, [0, 0, 0, 0, 1, 0]), (4, [0, 0, 0, 0, 2, 0]), (5, [0, 0, 0, 0, 0, 1]), (5, [0, 0, 0, 0, 0, 2])] := rfl

/-- without limits and with nothing colliding anywhere all twelve candidates are offered -/
example (sceneAt : J6 R → Scene R) (unchanged : J6 R → Nat → Bool) (own : Safety R) (initial f t : J6 R)
    (choice : List (Nat × Nat) → Option (Nat × Nat))
    (hfree : ∀ c i j, taskCollides (sceneAt c) own i j = false) :
    nonCollidingOffsets sceneAt unchanged own none initial f t choice = (offsetCandidates initial f t).map (·.2) := by
  rw [offsets_eq_filter, List.filter_eq_self.2]
  intro kc _
  simp only [accepted, compliantOpt, Bool.true_and, detect, Option.getD_some,
    processTasks_first_isEmpty, hitsOf_isEmpty, Bool.or_eq_true]
  right
  intro p _; exact hfree _ _ _

/-- if every candidate violates the limits nothing is offered, whatever the collision check says -/
example (sceneAt : J6 R → Scene R) (unchanged : J6 R → Nat → Bool) (own : Safety R) (cc : Constraints R) (initial f t : J6 R)
    (choice : List (Nat × Nat) → Option (Nat × Nat))
    (hbad : ∀ kc ∈ offsetCandidates initial f t, cc.compliant kc.2 = false) :
    nonCollidingOffsets sceneAt unchanged own (some cc) initial f t choice = [] := by
  rw [offsets_eq_filter, List.map_eq_nil_iff, List.filter_eq_nil_iff]
  intro kc hkc
  simp [accepted, compliantOpt, hbad kc hkc]

end Opw.C14
