/-
  Source tie for the stroke planner (C12): the densification of the stroke — `add_intermediate_poses`, translated expression
  by expression from the CURRENT text of path_plan/cartesian.rs, and `with_intermediate_poses` (one idiom) — and
  `utils::transition_costs` are the model's `intermediatePoses`, `withIntermediatePoses`, `transitionCosts`, on which the C12
  theorems about the waypoint list (order and flags of landing / stroke / parking poses, interpolated poses on the straight
  segment, consecutive waypoints within the transition cost) are stated.  Generic in the number type.  The search itself
  (`plan`, `probe_strategy`, `step_adaptive_linear_transition`) stays hand-modelled and tied by the differential run.
-/
import OpwVerif.Lemmas.SrcCartTie
namespace Opw.TieCart
open Opw
variable {R : Type} [OpwNum R]

/-- [G] the poses `add_intermediate_poses` pushes between two poses: step count = max(ceil(distance / check_step_m),
ceil(angle / check_step_rad), 1), poses i = 1 .. steps-1 at start + i * (diff / steps) with slerp fraction i / steps, flagged
LIN_INTERP — as the CURRENT source computes them -/
theorem intermediatePoses_is_source (a b : Iso R) (stepM stepRad : R) (ofNat : Nat → R) :
    SrcCart.intermediatePosesSrc a b stepM stepRad ofNat = intermediatePoses a b stepM stepRad ofNat :=
  intermediatePosesSrc_eq a b stepM stepRad ofNat

/-- [G] the densified pose list: LAND, every stroke pose preceded by the poses between its predecessor and it and flagged
TRACE, the poses between the last one and the parking pose, PARK -/
theorem withIntermediatePoses_is_source (land : Iso R) (steps : List (Iso R)) (park : Iso R) (stepM stepRad : R) (ofNat : Nat → R) :
    SrcCart.withIntermediatePosesSrc land steps park stepM stepRad ofNat = withIntermediatePoses land steps park stepM stepRad ofNat :=
  withIntermediatePosesSrc_eq land steps park stepM stepRad ofNat

/-- [G] `utils::transition_costs`: the weighted sum of the six joint differences -/
theorem transitionCosts_is_source (a b c : J6 R) : SrcCart.transitionCostsSrc a b c = transitionCosts a b c :=
  transitionCostsSrc_eq a b c

end Opw.TieCart
