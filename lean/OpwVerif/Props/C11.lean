/-
  C11 — Collision-aware IK (`kinematics_with_shape.rs`): every inverse entry point of
  `KinematicsWithShape` returns exactly the non-colliding solutions of the underlying stack, in
  unchanged order; forward, link poses, limits and singularity reports are those of the underlying
  stack.  `Kin.shape inner collides` is the model of `KinematicsWithShape`; `collides` is the verdict
  of `RobotBody::collides` for a joint vector (an arbitrary function here, so the theorems hold for
  every robot body, every environment and every check mode — see C10 for what that verdict is).
  All theorems are of kind [A]/[G]: any number type (they hold of the `Float` reading itself), any
  inner `Kin` (any stack of the repository's own `Kinematics` implementations).
  Property theorems only.
-/
import OpwVerif.Lemmas.Coll
namespace Opw.C11
open Opw

variable {R : Type} [OpwNum R]

/-! ### 1. The four inverse entry points are filters -/

/-- [G] `inverse` -/
theorem shape_inverse_eq_filter (k : Kin R) (col : J6 R → Bool) (pose : Iso R) :
    (Kin.shape k col).inverse pose = (k.inverse pose).filter (fun s => !col s) := rfl

/-- [G] `inverse_continuing` -/
theorem shape_inverseContinuing_eq_filter (k : Kin R) (col : J6 R → Bool) (pose : Iso R) (prev : J6 R) :
    (Kin.shape k col).inverseContinuing pose prev =
      (k.inverseContinuing pose prev).filter (fun s => !col s) := rfl

/-- [G] `inverse_5dof` -/
theorem shape_inverse5dof_eq_filter (k : Kin R) (col : J6 R → Bool) (pose : Iso R) (j6 : R) :
    (Kin.shape k col).inverse5dof pose j6 = (k.inverse5dof pose j6).filter (fun s => !col s) := rfl

/-- [G] `inverse_continuing_5dof` -/
theorem shape_inverseContinuing5dof_eq_filter (k : Kin R) (col : J6 R → Bool) (pose : Iso R) (prev : J6 R) :
    (Kin.shape k col).inverseContinuing5dof pose prev =
      (k.inverseContinuing5dof pose prev).filter (fun s => !col s) := rfl

omit [OpwNum R] in
/-- [G] `remove_collisions` itself -/
theorem removeCollisions_eq_filter (col : J6 R → Bool) (l : List (J6 R)) :
    removeCollisions col l = l.filter (fun s => !col s) := rfl

/-! ### 2. Order kept, nothing colliding returned, nothing free dropped

Stated once for `removeCollisions` and then for the four entry points together. -/

omit [OpwNum R] in
/-- [G] the result is a sublist of the inner result: same relative order, no new element, no
element repeated more often -/
theorem removeCollisions_sublist (col : J6 R → Bool) (l : List (J6 R)) :
    (removeCollisions col l).Sublist l := List.filter_sublist

omit [OpwNum R] in
/-- [G] membership: exactly the non-colliding elements -/
theorem mem_removeCollisions (col : J6 R → Bool) (l : List (J6 R)) (s : J6 R) :
    s ∈ removeCollisions col l ↔ s ∈ l ∧ col s = false := by
  simp [removeCollisions, List.mem_filter]

omit [OpwNum R] in
/-- [G] filtering an already filtered list changes nothing -/
theorem removeCollisions_idem (col : J6 R → Bool) (l : List (J6 R)) :
    removeCollisions col (removeCollisions col l) = removeCollisions col l := by
  simp [removeCollisions, List.filter_filter]

omit [OpwNum R] in
/-- [G] if nothing collides the inner result is returned unchanged -/
theorem removeCollisions_of_free (col : J6 R → Bool) (l : List (J6 R)) (h : ∀ s ∈ l, col s = false) :
    removeCollisions col l = l := by
  rw [removeCollisions, List.filter_eq_self]
  intro s hs; simp [h s hs]

/-- [G] order is kept: all four results are sublists of the inner results -/
theorem shape_sublist (k : Kin R) (col : J6 R → Bool) (pose : Iso R) (prev : J6 R) (j6 : R) :
    ((Kin.shape k col).inverse pose).Sublist (k.inverse pose) ∧
    ((Kin.shape k col).inverseContinuing pose prev).Sublist (k.inverseContinuing pose prev) ∧
    ((Kin.shape k col).inverse5dof pose j6).Sublist (k.inverse5dof pose j6) ∧
    ((Kin.shape k col).inverseContinuing5dof pose prev).Sublist (k.inverseContinuing5dof pose prev) :=
  ⟨removeCollisions_sublist _ _, removeCollisions_sublist _ _, removeCollisions_sublist _ _,
    removeCollisions_sublist _ _⟩

/-- [G] nothing colliding is returned -/
theorem shape_nothing_colliding (k : Kin R) (col : J6 R → Bool) (pose : Iso R) (prev : J6 R) (j6 : R)
    (s : J6 R) :
    (s ∈ (Kin.shape k col).inverse pose → col s = false) ∧
    (s ∈ (Kin.shape k col).inverseContinuing pose prev → col s = false) ∧
    (s ∈ (Kin.shape k col).inverse5dof pose j6 → col s = false) ∧
    (s ∈ (Kin.shape k col).inverseContinuing5dof pose prev → col s = false) :=
  ⟨fun h => ((mem_removeCollisions _ _ _).1 h).2, fun h => ((mem_removeCollisions _ _ _).1 h).2,
    fun h => ((mem_removeCollisions _ _ _).1 h).2, fun h => ((mem_removeCollisions _ _ _).1 h).2⟩

/-- [G] nothing is invented: every returned solution is a solution of the inner stack -/
theorem shape_nothing_new (k : Kin R) (col : J6 R → Bool) (pose : Iso R) (prev : J6 R) (j6 : R)
    (s : J6 R) :
    (s ∈ (Kin.shape k col).inverse pose → s ∈ k.inverse pose) ∧
    (s ∈ (Kin.shape k col).inverseContinuing pose prev → s ∈ k.inverseContinuing pose prev) ∧
    (s ∈ (Kin.shape k col).inverse5dof pose j6 → s ∈ k.inverse5dof pose j6) ∧
    (s ∈ (Kin.shape k col).inverseContinuing5dof pose prev → s ∈ k.inverseContinuing5dof pose prev) :=
  ⟨fun h => ((mem_removeCollisions _ _ _).1 h).1, fun h => ((mem_removeCollisions _ _ _).1 h).1,
    fun h => ((mem_removeCollisions _ _ _).1 h).1, fun h => ((mem_removeCollisions _ _ _).1 h).1⟩

/-- [G] nothing free is dropped -/
theorem shape_nothing_free_dropped (k : Kin R) (col : J6 R → Bool) (pose : Iso R) (prev : J6 R) (j6 : R)
    (s : J6 R) (hfree : col s = false) :
    (s ∈ k.inverse pose → s ∈ (Kin.shape k col).inverse pose) ∧
    (s ∈ k.inverseContinuing pose prev → s ∈ (Kin.shape k col).inverseContinuing pose prev) ∧
    (s ∈ k.inverse5dof pose j6 → s ∈ (Kin.shape k col).inverse5dof pose j6) ∧
    (s ∈ k.inverseContinuing5dof pose prev → s ∈ (Kin.shape k col).inverseContinuing5dof pose prev) :=
  ⟨fun h => (mem_removeCollisions _ _ _).2 ⟨h, hfree⟩, fun h => (mem_removeCollisions _ _ _).2 ⟨h, hfree⟩,
    fun h => (mem_removeCollisions _ _ _).2 ⟨h, hfree⟩, fun h => (mem_removeCollisions _ _ _).2 ⟨h, hfree⟩⟩

omit [OpwNum R] in
/-- [G] multiplicities: a free solution is returned as many times as the inner stack returns it -/
theorem shape_count (col : J6 R → Bool) (l : List (J6 R)) (p : J6 R → Bool) :
    (removeCollisions col l).countP p = l.countP (fun s => p s && !col s) := by
  simp [removeCollisions, List.countP_filter]

/-! ### 3. Everything else is delegated -/

/-- [G] forward kinematics, link poses, limits and the singularity report are those of the inner
stack -/
theorem shape_delegates (k : Kin R) (col : J6 R → Bool) (q : J6 R) :
    (Kin.shape k col).forward q = k.forward q ∧
    (Kin.shape k col).links q = k.links q ∧
    (Kin.shape k col).constraints = k.constraints ∧
    (Kin.shape k col).singularity q = k.singularity q ∧
    (Kin.shape k col).core = k.core := ⟨rfl, rfl, rfl, rfl, rfl⟩

/-! ### 4. The stack both constructors build -/

/-- what `KinematicsWithShape::new` / `with_safety` wrap: the OPW solver with limits, inside a base
transform, inside a tool transform -/
def kwsStack (p : Params R) (c : Constraints R) (b t : Iso R) : Kin R :=
  Kin.tool (Kin.base (Kin.opw ⟨p, some c⟩) b) t

/-- [G] forward of the collision-aware robot: `base · opw_forward(q) · tool`; limits: the given ones;
singularity: that of the OPW parameters; link poses: the OPW chain moved by the base -/
theorem shape_stack (p : Params R) (c : Constraints R) (b t : Iso R) (col : J6 R → Bool) (q : J6 R) :
    (Kin.shape (kwsStack p c b t) col).forward q = (b.mul (Opw.forward p q)).mul t ∧
    (Kin.shape (kwsStack p c b t) col).constraints = some c ∧
    (Kin.shape (kwsStack p c b t) col).singularity q = kinematicSingularity p q ∧
    (Kin.shape (kwsStack p c b t) col).links q = (chain p q).map (fun x => b.mul x) :=
  ⟨rfl, rfl, rfl, rfl⟩

/-- [G] inverse of the collision-aware robot: the limit-filtered OPW solutions for the pose with
base and tool removed, then the collision filter -/
theorem shape_stack_inverse (p : Params R) (c : Constraints R) (b t : Iso R) (col : J6 R → Bool)
    (pose : Iso R) (prev : J6 R) :
    (Kin.shape (kwsStack p c b t) col).inverse pose =
      ((Opw.inverse ⟨p, some c⟩ (b.inv.mul (pose.mul t.inv))).filter (fun s => !col s)) ∧
    (Kin.shape (kwsStack p c b t) col).inverseContinuing pose prev =
      ((Opw.inverseContinuing ⟨p, some c⟩ (b.inv.mul (pose.mul t.inv)) prev).filter (fun s => !col s)) :=
  ⟨rfl, rfl⟩

/-- [G] with the verdict of C10 plugged in: a returned solution is one for which
`RobotBody::collides` at the placed scene is false -/
theorem shape_with_body (k : Kin R) (sceneAt : J6 R → Scene R) (own : Safety R)
    (choice : List (Nat × Nat) → Option (Nat × Nat)) (pose : Iso R) (s : J6 R) :
    s ∈ (Kin.shape k (fun q => collides (sceneAt q) own choice)).inverse pose ↔
      s ∈ k.inverse pose ∧ collides (sceneAt s) own choice = false :=
  mem_removeCollisions _ _ _

end Opw.C11
