def hello := "world"
