import OpwVerif.Num
import OpwVerif.Geom
import OpwVerif.Kin
import OpwVerif.Wrappers
import OpwVerif.Misc
