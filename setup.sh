#!/bin/bash
# Build the framework from files on disk only (offline): Lean model + proofs + driver, Rust harness.
set -e
cd "$(dirname "$0")"
export CARGO_NET_OFFLINE=true
(cd harness && cp /repo/Cargo.lock Cargo.lock && cargo build --release --offline 2>&1 | tail -3)
(cd lean && lake build 2>&1 | grep -v "^trace\|linter\|Hint:\|\[apply\]\|^$\|^Note:" | tail -15)
echo "setup done"
