//! Correspondence harness: generates structured inputs from one seeded PRNG, calls the real
//! library in-process and prints one protocol line per case (inputs and outputs as bit patterns).
//!   harness gen <Cxx> <seed> <n>
mod gen;
mod kinops;
mod props_kin;
mod props_misc;
mod props_coll;
mod props_plan;
mod props_file;

fn main() {
    // panics inside the library are outcomes; keep stderr quiet
    if std::env::var("VERIF_PANIC_MSG").is_err() { std::panic::set_hook(Box::new(|_| {})); }
    let a: Vec<String> = std::env::args().collect();
    if a.len() < 5 || a[1] != "gen" {
        eprintln!("usage: harness gen <Cxx> <seed> <n>");
        std::process::exit(2);
    }
    let prop = a[2].as_str();
    let seed: u64 = a[3].parse().expect("seed");
    let n: usize = a[4].parse().expect("n");
    match prop {
        "C03" => props_kin::c03(seed, n),
        "C01" => props_kin::c01(seed, n),
        "C02" => props_kin::c02(seed, n),
        "C04" => props_kin::c04(seed, n),
        "C05" => props_kin::c05(seed, n),
        "C06" => props_kin::c06(seed, n),
        "C08" => props_kin::c08(seed, n),
        "C09" => props_kin::c09(seed, n),
        "C16" => props_kin::c16(seed, n),
        "C07" => props_misc::c07(seed, n),
        "C18" => props_misc::c18(seed, n),
        "C17" => props_misc::c17(seed, n),
        "C15" => props_misc::c15(seed, n),
        "C10" => props_coll::c10(seed, n),
        "C14" => props_coll::c14(seed, n),
        "C11" => props_coll::c11(seed, n),
        "C13" => props_plan::c13(seed, n),
        "C12" => props_plan::c12(seed, n),
        "C19" => props_file::c19(seed, n),
        "C20" => props_file::c20(seed, n),
        "consts" => props_kin::consts(),
        _ => { eprintln!("unknown property {}", prop); std::process::exit(2); }
    }
}
