//! Case generators for the collision properties C10, C14, C11.
use crate::gen::*;
use nalgebra::{Isometry3, Point3, Translation3, Vector3};
use parry3d::bounding_volume::BoundingVolume;
use parry3d::shape::TriMesh;
use rs_opw_kinematics::collisions::{BaseBody, CheckMode, CollisionBody, RobotBody, SafetyDistances, NEVER_COLLIDES, TOUCH_ONLY};
use rs_opw_kinematics::kinematic_traits::{Joints, Kinematics, ENV_START_IDX, J_BASE, J_TOOL};
use std::collections::HashMap;
use std::f64::consts::PI;
use std::panic::AssertUnwindSafe;

/// box with half extents h; subdiv = 1 adds a vertex in the middle of every face (14 vertices)
pub fn box_mesh(h: [f32; 3], c: [f32; 3], subdiv: bool) -> TriMesh {
    let mut v = vec![];
    for z in [-1.0f32, 1.0] { for y in [-1.0f32, 1.0] { for x in [-1.0f32, 1.0] {
        v.push(Point3::new(c[0] + x * h[0], c[1] + y * h[1], c[2] + z * h[2]));
    } } }
    let faces: [[u32; 4]; 6] = [[0, 1, 3, 2], [4, 6, 7, 5], [0, 4, 5, 1], [2, 3, 7, 6], [0, 2, 6, 4], [1, 5, 7, 3]];
    let mut idx = vec![];
    for f in faces {
        if subdiv {
            let m = (v[f[0] as usize].coords + v[f[1] as usize].coords + v[f[2] as usize].coords + v[f[3] as usize].coords) / 4.0;
            let mi = v.len() as u32;
            v.push(Point3::from(m));
            for k in 0..4 { idx.push([f[k], f[(k + 1) % 4], mi]); }
        } else {
            idx.push([f[0], f[1], f[2]]); idx.push([f[0], f[2], f[3]]);
        }
    }
    TriMesh::new(v, idx).unwrap()
}

/// two separate triangles forming a square plate of half size h in the local xy plane (6 vertices)
pub fn plate_mesh(h: f32, c: [f32; 3]) -> TriMesh {
    let p = |x: f32, y: f32| Point3::new(c[0] + x * h, c[1] + y * h, c[2]);
    TriMesh::new(vec![p(-1.0, -1.0), p(1.0, -1.0), p(-1.0, 1.0), p(1.0, 1.0), p(-1.0, 1.0), p(1.0, -1.0)], vec![[0, 1, 2], [3, 4, 5]]).unwrap()
}

fn rand_mesh(r: &mut Rng, size: f64) -> TriMesh {
    let h = [r.range(0.3, 1.0) as f32 * size as f32, r.range(0.3, 1.0) as f32 * size as f32, r.range(0.3, 1.0) as f32 * size as f32];
    let c = [r.range(-0.02, 0.02) as f32, r.range(-0.02, 0.02) as f32, r.range(-0.02, 0.02) as f32];
    match r.below(4) { 0 => plate_mesh(h[0].max(h[1]), c), 1 => box_mesh(h, c, true), _ => box_mesh(h, c, false) }
}

pub struct SceneSpec {
    pub ks: KSpec,
    pub body: RobotBody,
    pub fam: String,
}

fn iso32(p: &Isometry3<f64>) -> Isometry3<f32> { p.cast::<f32>() }

pub fn gen_safety(r: &mut Rng, env_len: usize, has_tool: bool, has_base: bool, mode: CheckMode) -> (String, SafetyDistances) {
    let mut s = SafetyDistances::standard(mode);
    let mut fam = String::from("touch-only");
    let k = r.below(5);
    if k >= 1 { s.to_environment = *r.pick(&[0.02f32, 0.05, 0.15]); s.to_robot_default = *r.pick(&[0.0f32, 0.01, 0.04]); fam = "positive".into(); }
    if k >= 2 {
        fam = "overrides".into();
        let mut ids: Vec<usize> = (0..6).collect();
        if has_tool { ids.push(J_TOOL); }
        if has_base { ids.push(J_BASE); }
        for e in 0..env_len { ids.push(ENV_START_IDX + e); }
        let mut special: HashMap<(u16, u16), f32> = HashMap::new();
        let n = 1 + r.below(5);
        for _ in 0..n {
            let a = *r.pick(&ids); let b = *r.pick(&ids);
            if a == b { continue; }
            if special.contains_key(&(a as u16, b as u16)) || special.contains_key(&(b as u16, a as u16)) { continue; }
            let v = *r.pick(&[NEVER_COLLIDES, NEVER_COLLIDES, TOUCH_ONLY, 0.03, 0.2, -2.0]);
            special.insert((a as u16, b as u16), v);
        }
        if k >= 3 {
            // pairs naming J1: must not influence base-versus-link gating
            let j = 1 + r.below(5);
            if !special.contains_key(&(0, j as u16)) && !special.contains_key(&(j as u16, 0)) { special.insert((0, j as u16), NEVER_COLLIDES); }
            fam = "overrides+J1".into();
        }
        s.special_distances = special;
        // "nothing collides unless listed": never-colliding defaults with a few pairs switched on explicitly
        if k == 4 && r.chance(0.4) {
            s.to_robot_default = NEVER_COLLIDES;
            if r.chance(0.5) { s.to_environment = NEVER_COLLIDES; }
            let n2 = 1 + r.below(3);
            for _ in 0..n2 {
                let a = *r.pick(&ids); let b = *r.pick(&ids);
                if a == b || s.special_distances.contains_key(&(a as u16, b as u16)) || s.special_distances.contains_key(&(b as u16, a as u16)) { continue; }
                s.special_distances.insert((a as u16, b as u16), *r.pick(&[TOUCH_ONLY, 0.05, 0.45]));
            }
            fam = "never-by-default+listed".into();
        }
    }
    (fam, s)
}

pub fn gen_scene(r: &mut Rng, q: &Joints) -> SceneSpec {
    let ps = presets();
    let (_, p) = ps[r.below(ps.len())].clone();
    let mut ks = KSpec::bare(p);
    if r.chance(0.3) { ks.stack.push(Wrap::B(rand_iso(r, 0.3))); }
    let kin = ks.build();
    let links = kin.forward_with_joint_poses(q);
    let size = 0.06;
    let joint_meshes = [rand_mesh(r, size), rand_mesh(r, size), rand_mesh(r, size), rand_mesh(r, size), rand_mesh(r, size), rand_mesh(r, size)];
    let mut joint_meshes = joint_meshes;
    // now and then a bulky upstream link (bracket) and link meshes that are not centred on their own origin
    if r.chance(0.3) { let k = r.below(3); joint_meshes[k] = box_mesh([0.2, 0.2, 0.25], [0.0, 0.0, 0.1], r.chance(0.5)); }
    if r.chance(0.3) {
        let k = r.below(6);
        let c = [r.range(-0.3, 0.3) as f32, r.range(-0.3, 0.3) as f32, r.range(-0.3, 0.3) as f32];
        joint_meshes[k] = box_mesh([0.05, 0.04, 0.06], c, r.chance(0.5));
    }
    let has_tool = r.chance(0.6);
    let has_base = r.chance(0.6);
    // the tool is a small block or a long rod along the flange axis
    let tool = if has_tool { Some(if r.chance(0.4) { let h = r.range(0.15, 0.35) as f32; box_mesh([0.02, 0.02, h], [0.0, 0.0, h], false) } else { rand_mesh(r, 0.05) }) } else { None };
    let base = if has_base {
        // sometimes next to a link so that base pairs matter
        let anchor = links[1 + r.below(5)].translation.vector;
        let off = Vector3::new(r.range(-1.0, 1.0), r.range(-1.0, 1.0), r.range(-1.0, 1.0)).normalize() * *r.pick(&[0.03, 0.1, 0.2, 0.6]);
        let pose = Isometry3::from_parts((anchor + off).into(), rand_quat(r));
        Some(BaseBody { mesh: rand_mesh(r, 0.06), base_pose: iso32(&pose) })
    } else { None };
    let env_len = r.below(4);
    let mut env = vec![];
    for _ in 0..env_len {
        let li = r.below(6);
        let anchor = links[li].translation.vector;
        let off = Vector3::new(r.range(-1.0, 1.0), r.range(-1.0, 1.0), r.range(-1.0, 1.0)).normalize() * *r.pick(&[0.03, 0.08, 0.15, 0.3, 1.0]);
        let pose = Isometry3::from_parts((anchor + off).into(), rand_quat(r));
        let big = r.chance(0.3);
        if r.chance(0.3) {
            // object given in world coordinates with an identity pose (mesh far from its local origin)
            let w = anchor + off;
            let c = [w.x as f32, w.y as f32, w.z as f32];
            let mesh = if big { plate_mesh(r.range(0.3, 1.5) as f32, c) } else { box_mesh([0.05, 0.06, 0.04], c, r.chance(0.5)) };
            env.push(CollisionBody { mesh, pose: Isometry3::identity() });
        } else {
            env.push(CollisionBody { mesh: if big { plate_mesh(r.range(0.3, 1.5) as f32, [0.0; 3]) } else { rand_mesh(r, 0.07) }, pose: iso32(&pose) });
        }
    }
    let mode = *r.pick(&[CheckMode::AllCollsions, CheckMode::AllCollsions, CheckMode::FirstCollisionOnly, CheckMode::NoCheck]);
    let (sfam, safety) = gen_safety(r, env_len, has_tool, has_base, mode);
    let mut fam = format!("{}/env{}{}{}", sfam, env_len, if has_tool { "/tool" } else { "" }, if has_base { "/base" } else { "" });
    let mut joint_meshes = joint_meshes;
    let mut base = base;
    let mut safety = safety;
    // directed family: bodies that really intersect, with exemptions (and decoy keys) on exactly those pairs
    let mut env = env;
    if r.chance(0.4) {
        fam.push_str("/exempt-actual");
        let l32 = links.map(|p| iso32(&p));
        if has_tool && env_len >= 2 && r.chance(0.5) {
            // an environment object that is NOT the first one sits where the tool is
            let e = 1 + r.below(env_len - 1);
            let off = Isometry3::translation(r.range(-0.01, 0.01) as f32, r.range(-0.01, 0.01) as f32, r.range(-0.01, 0.01) as f32);
            env[e] = CollisionBody { mesh: rand_mesh(r, 0.06), pose: l32[5] * off };
        }
        if has_tool && has_base && r.chance(0.5) {
            // the base body sits where the tool is
            let off = Isometry3::translation(r.range(-0.01, 0.01) as f32, r.range(-0.01, 0.01) as f32, r.range(-0.01, 0.01) as f32);
            base = Some(BaseBody { mesh: rand_mesh(r, 0.06), base_pose: l32[5] * off });
        }
        if has_tool && r.chance(0.7) {
            // an upstream link (J1..J4) whose mesh reaches the tool
            let i = r.below(4);
            let c = l32[i].inverse() * l32[5].translation.vector;
            joint_meshes[i] = box_mesh([0.04, 0.05, 0.03], [c.x, c.y, c.z], r.chance(0.5));
        }
        // which relevant pairs touch now (touch-only, all collisions)
        let probe = RobotBody { joint_meshes: joint_meshes.clone(), tool: tool.clone(), base: base.as_ref().map(|b| BaseBody { mesh: b.mesh.clone(), base_pose: b.base_pose }),
            collision_environment: env.iter().map(|e| CollisionBody { mesh: e.mesh.clone(), pose: e.pose }).collect(),
            safety: SafetyDistances::standard(CheckMode::AllCollsions) };
        let hits = probe.collision_details(q, kin.as_ref());
        for (a, b) in hits {
            let (a, b) = (a as u16, b as u16);
            let has = |s: &SafetyDistances, x: u16, y: u16| s.special_distances.contains_key(&(x, y)) || s.special_distances.contains_key(&(y, x));
            // a key naming joint 6 says nothing about the tool mounted on it
            if b as usize == J_TOOL && (a as usize) < 4 && r.chance(0.6) && !has(&safety, a, 5) { safety.special_distances.insert((a, 5), NEVER_COLLIDES); }
            if a as usize == J_TOOL && (b as usize) < 4 && r.chance(0.6) && !has(&safety, b, 5) { safety.special_distances.insert((b, 5), NEVER_COLLIDES); }
            // the exemption of the tool against the FIRST environment object says nothing about the other objects
            let (lo, hi) = (a.min(b) as usize, a.max(b) as usize);
            if lo == J_TOOL && hi > ENV_START_IDX && r.chance(0.6) && !has(&safety, J_TOOL as u16, ENV_START_IDX as u16) {
                safety.special_distances.insert((J_TOOL as u16, ENV_START_IDX as u16), NEVER_COLLIDES);
            }
            if r.chance(0.5) && !has(&safety, a, b) {
                if r.chance(0.5) { safety.special_distances.insert((a, b), NEVER_COLLIDES); } else { safety.special_distances.insert((b, a), NEVER_COLLIDES); }
            }
        }
    }
    // directed family: an environment object a few micrometres from a link, the pair guarded by a safety distance of a
    // few micrometres more (a tiny positive distance is a distance, not "touch only")
    let mut env = env;
    if env_len > 0 && r.chance(0.12) {
        let e = r.below(env_len);
        let li = r.below(6);
        let l32 = links.map(|p| iso32(&p));
        let gap = r.range(2e-6, 5e-6) as f32;
        let mut ok = false;
        for _ in 0..6 {
            let cp = parry3d::query::closest_points(&l32[li], &joint_meshes[li], &env[e].pose, &env[e].mesh, 10.0).unwrap();
            if let parry3d::query::ClosestPoints::WithinMargin(p1, p2) = cp {
                let d = (p1 - p2).norm();
                if d < 1e-7 { break; }
                let step = (p1 - p2) / d * (d - gap);
                env[e].pose = Isometry3::from_parts(Translation3::from(env[e].pose.translation.vector + step), env[e].pose.rotation);
                let now = parry3d::query::distance(&l32[li], &joint_meshes[li], &env[e].pose, &env[e].mesh).unwrap();
                if now > 1e-6 && now < 6e-6 && !parry3d::query::intersection_test(&l32[li], &joint_meshes[li], &env[e].pose, &env[e].mesh).unwrap() { ok = true; break; }
            } else { break; }
        }
        if ok {
            let guard = *r.pick(&[8e-6f32, 9.5e-6, 7e-6]);
            safety.special_distances.remove(&((ENV_START_IDX + e) as u16, li as u16));
            if r.chance(0.7) { safety.special_distances.insert((li as u16, (ENV_START_IDX + e) as u16), guard); }
            else { safety.special_distances.remove(&(li as u16, (ENV_START_IDX + e) as u16)); safety.to_environment = guard; }
            fam.push_str("/micro-gap");
        }
    }
    SceneSpec { ks, body: RobotBody { joint_meshes, tool, base, collision_environment: env, safety }, fam }
}

fn mode_code(m: CheckMode) -> usize { match m { CheckMode::FirstCollisionOnly => 0, CheckMode::AllCollsions => 1, CheckMode::NoCheck => 2 } }

pub fn enc_safety(l: &mut Line, s: &SafetyDistances) {
    l.f(s.to_environment as f64).f(s.to_robot_default as f64).n(mode_code(s.mode));
    let mut keys: Vec<_> = s.special_distances.iter().collect();
    keys.sort_by_key(|(k, _)| **k);
    l.n(keys.len());
    for ((a, b), v) in keys { l.n(*a as usize).n(*b as usize).f(*v as f64); }
}

/// body ids and placed shapes for a joint vector
fn placed<'a>(body: &'a RobotBody, links: &[Isometry3<f32>; 6]) -> Vec<(usize, &'a TriMesh, Isometry3<f32>)> {
    let mut v = vec![];
    for i in 0..6 { v.push((i, &body.joint_meshes[i], links[i])); }
    if let Some(t) = &body.tool { v.push((J_TOOL, t, links[5])); }
    if let Some(b) = &body.base { v.push((J_BASE, &b.mesh, b.base_pose)); }
    for (k, e) in body.collision_environment.iter().enumerate() { v.push((ENV_START_IDX + k, &e.mesh, e.pose)); }
    v
}

/// the safety distance of a pair as documented (exact key, reversed key, environment default, robot default): the
/// oracle does not ask the library
pub fn pair_distance(s: &SafetyDistances, a: usize, b: usize) -> f32 {
    if let Some(v) = s.special_distances.get(&(a as u16, b as u16)) { return *v; }
    if let Some(v) = s.special_distances.get(&(b as u16, a as u16)) { return *v; }
    if a >= ENV_START_IDX || b >= ENV_START_IDX { s.to_environment } else { s.to_robot_default }
}

/// oracle table by direct parry3d calls on every unordered pair of bodies:
/// `#n (a b intersects distance nearOwn nearOther)*`.  The distance query is run with the two bodies in either order
/// (the library uses one of them): where the two answers fall on different sides of a safety distance, or within 1e-4 of it
/// (relative), the distance is written as exactly that safety distance, which the driver reads as "on the threshold, do
/// not care".  Returns false when both tables are on their threshold at different distances (the case is skipped).
pub fn enc_table(l: &mut Line, body: &RobotBody, kin: &dyn Kinematics, q: &Joints, other: &SafetyDistances) -> bool {
    let links = kin.forward_with_joint_poses(q).map(|p| p.cast::<f32>());
    let bodies = placed(body, &links);
    let mut rows = vec![];
    let mut reliable = true;
    for x in 0..bodies.len() {
        for y in (x + 1)..bodies.len() {
            let (a, sa, pa) = &bodies[x]; let (b, sb, pb) = &bodies[y];
            let inter = parry3d::query::intersection_test(pa, *sa, pb, *sb).unwrap();
            let d_ab = parry3d::query::distance(pa, *sa, pb, *sb).unwrap();
            let d_ba = parry3d::query::distance(pb, *sb, pa, *sa).unwrap();
            let near = |r: f32| -> bool {
                if !(r > 0.0) { return false; } // the code only loosens by positive distances
                let (sm, smp, bg, bgp) = if sa.vertices().len() < sb.vertices().len() { (*sa, pa, *sb, pb) } else { (*sb, pb, *sa, pa) };
                sm.aabb(smp).loosened(r).intersects(&bg.aabb(bgp))
            };
            let r_own = pair_distance(&body.safety, *a, *b);
            let r_oth = pair_distance(other, *a, *b);
            let unsure = |r: f32| r > 0.0 && ((d_ab <= r) != (d_ba <= r) || (d_ab - r).abs() <= 1e-4 * r || (d_ba - r).abs() <= 1e-4 * r);
            let dist = match (unsure(r_own), unsure(r_oth)) {
                (true, true) if r_own != r_oth => { reliable = false; d_ab }
                (true, _) => r_own,
                (_, true) => r_oth,
                _ => d_ab,
            };
            rows.push((*a, *b, inter, dist, near(r_own), near(r_oth)));
        }
    }
    l.n(rows.len());
    for (a, b, i, d, n1, n2) in rows { l.n(a).n(b).b(i).f(d as f64).b(n1).b(n2); }
    reliable
}

fn enc_pairs(l: &mut Line, v: &[(usize, usize)]) { l.n(v.len()); for (a, b) in v { l.n(*a).n(*b); } }

fn in_pool<T: Send>(n: usize, f: impl FnOnce() -> T + Send) -> T {
    rayon::ThreadPoolBuilder::new().num_threads(n).build().unwrap().install(f)
}

pub fn c10(seed: u64, n: usize) {
    let mut r = Rng::new(seed ^ 0xC10);
    coll_cases("C10", &mut r, n);
}

/// scenes with the oracle table (direct parry3d calls on every pair), each under four pool sizes
pub fn coll_cases(prop: &str, r: &mut Rng, n: usize) {
    for _ in 0..n {
        let q = rand_joints(r, PI);
        let sc = gen_scene(r, &q);
        let kin = sc.ks.build();
        let omode = *r.pick(&[CheckMode::AllCollsions, CheckMode::FirstCollisionOnly, CheckMode::NoCheck]);
        let (_, mut other) = gen_safety(r, sc.body.collision_environment.len(), sc.body.tool.is_some(), sc.body.base.is_some(), omode);
        // pairs that really touch, marked never-colliding ONLY in the table handed to `near` (or by its default distances)
        if r.chance(0.3) {
            let probe = SafetyDistances::standard(CheckMode::AllCollsions);
            let hits = sc.body.near(&q, kin.as_ref(), &probe);
            for (a, b) in hits {
                let (a, b) = (a as u16, b as u16);
                if other.special_distances.contains_key(&(a, b)) || other.special_distances.contains_key(&(b, a)) { continue; }
                if r.chance(0.6) { if r.chance(0.5) { other.special_distances.insert((a, b), NEVER_COLLIDES); } else { other.special_distances.insert((b, a), NEVER_COLLIDES); } }
            }
            if r.chance(0.2) { other.to_robot_default = NEVER_COLLIDES; }
            if r.chance(0.1) { other.to_environment = NEVER_COLLIDES; }
        }
        // the same body behind the `KinematicsWithShape` facade: its collides / collision_details / near are the body's
        let kws = KinematicsWithShape { kinematics: kin.clone(), body: sc.body };
        for (pool, via) in [(1usize, false), (2, false), (2, true), (4, false), (16, false)] {
            let fam = if via { format!("{}/via-wrapper", sc.fam) } else { sc.fam.clone() };
            let mut l = Line::new(prop, &fam, "coll");
            sc.ks.encode(&mut l);
            l.j6(&q).b(kws.body.tool.is_some()).b(kws.body.base.is_some()).n(kws.body.collision_environment.len());
            enc_safety(&mut l, &kws.body.safety);
            enc_safety(&mut l, &other);
            if !enc_table(&mut l, &kws.body, kin.as_ref(), &q, &other) { continue; }
            l.n(pool).arrow();
            let out = catch(AssertUnwindSafe(|| in_pool(pool, || {
                if via { (kws.collision_details(&q), kws.collides(&q), kws.near(&q, &other)) }
                else { (kws.body.collision_details(&q, kin.as_ref()), kws.body.collides(&q, kin.as_ref()), kws.body.near(&q, kin.as_ref(), &other)) }
            })));
            match out {
                Some((d, c, nr)) => { enc_pairs(&mut l, &d); l.b(c); enc_pairs(&mut l, &nr); }
                None => { l.s("panic"); }
            }
            l.emit();
        }
    }
}

/// C14: the twelve single-joint offsets
pub fn c14(seed: u64, n: usize) {
    let mut r = Rng::new(seed ^ 0xC14);
    let mut done = 0;
    let mut tries = 0;
    while done < n && tries < 50 * n {
        tries += 1;
        let q = rand_joints(&mut r, 2.0);
        let mut sc = gen_scene(&mut r, &q);
        // in no-check mode the robot reports everything free, so every legal candidate has to be offered (D21)
        // half of the scenes: a long rod as tool and a bulky upstream link, so that a moved joint swings the tool into a
        // link that did not move
        if r.chance(0.5) {
            let h = r.range(0.25, 0.5) as f32;
            sc.body.tool = Some(box_mesh([0.02, 0.02, h], [0.0, 0.0, h], false));
            let k = r.below(3);
            sc.body.joint_meshes[k] = box_mesh([0.15, 0.15, 0.2], [0.0, 0.0, 0.05], false);
            sc.fam.push_str("/rod+bracket");
        }
        // a parallelogram on top now and then: replacing the driven joint also moves the coupled link
        if r.chance(0.2) {
            let d = 1 + r.below(5); let c = r.below(d);
            sc.ks.stack.push(Wrap::P(*r.pick(&[1.0, -1.0, 0.5]), d, c));
            sc.fam.push_str("/para-coupled-before-driven");
        }
        // limits on the robot now and then
        if r.chance(0.4) {
            let mut f = [0.0; 6]; let mut t = [0.0; 6];
            for k in 0..6 { f[k] = q[k] - r.range(0.05, 1.5); t[k] = q[k] + r.range(0.05, 1.5); }
            // the initial vector may itself overshoot a limit (it only has to be collision-free)
            if r.chance(0.3) { let k = r.below(6); f[k] = q[k] + 0.05; t[k] = q[k] + 1.0; }
            sc.ks.cons = Some((f, t, 0.0));
        }
        // the kinematics handed over may be any wrapper stack: a frame / tool on top still reports the robot's limits
        if r.chance(0.3) {
            let iso = rand_iso(&mut r, 0.2);
            sc.ks.stack.push(if r.chance(0.6) { Wrap::F(iso) } else { Wrap::T(iso) });
            sc.fam.push_str("/wrapped-kinematics");
        }
        let kin = sc.ks.build();
        // the property quantifies over collision-free initial vectors
        if sc.body.collides(&q, kin.as_ref()) { continue; }
        done += 1;
        let mut from = q; let mut to = q;
        for k in 0..6 { from[k] = q[k] - *r.pick(&[0.05, 0.2, 0.6, 1.2, 1.8]); to[k] = q[k] + *r.pick(&[0.05, 0.2, 0.6, 1.2, 1.8]); }
        // zero steps: a from/to entry equal to the current value is still one of the twelve candidates
        if r.chance(0.3) { let k = r.below(6); from[k] = q[k]; if r.chance(0.3) { to[(k + 2) % 6] = q[(k + 2) % 6]; } sc.fam.push_str("/zero-step"); }
        let pool = *r.pick(&[1usize, 2, 4, 16]);
        let mut l = Line::new("C14", &sc.fam, "offs");
        sc.ks.encode(&mut l);
        l.j6(&q).j6(&from).j6(&to).b(sc.body.tool.is_some()).b(sc.body.base.is_some()).n(sc.body.collision_environment.len());
        enc_safety(&mut l, &sc.body.safety);
        // per candidate: vector, compliant, full collision verdict of the same robot, oracle table
        let mut cands = vec![];
        for k in 0..6 { for tgt in [&from, &to] { let mut c = q; c[k] = tgt[k]; cands.push(c); } }
        l.n(cands.len());
        let initial_links = kin.forward_with_joint_poses(&q);
        let mut reliable = true;
        for c in &cands {
            let compliant = kin.constraints().as_ref().map_or(true, |cc| cc.compliant(c));
            l.j6(c).b(compliant).b(sc.body.collides(c, kin.as_ref()));
            // which links keep the pose they have at the initial vector
            let lp = kin.forward_with_joint_poses(c);
            for i in 0..6 { l.b(lp[i] == initial_links[i]); }
            reliable &= enc_table(&mut l, &sc.body, kin.as_ref(), c, &sc.body.safety);
        }
        if !reliable { continue; }
        l.n(pool).arrow();
        let head = l.0.clone();
        match catch(AssertUnwindSafe(|| in_pool(pool, || sc.body.non_colliding_offsets(&q, &from, &to, kin.as_ref())))) {
            Some(v) => { l.sols(&v); } None => { l.s("panic"); } }
        l.emit();
        // the same question through the `KinematicsWithShape` facade
        if done % 3 == 0 {
            let kws = KinematicsWithShape { kinematics: kin.clone(), body: sc.body };
            let mut l2 = Line(head.replacen(&sc.fam, &format!("{}/via-wrapper", sc.fam), 1));
            match catch(AssertUnwindSafe(|| in_pool(pool, || kws.non_colliding_offsets(&q, &from, &to)))) {
                Some(v) => { l2.sols(&v); } None => { l2.s("panic"); } }
            l2.emit();
        }
    }
}

// ---------------------------------------------------------------- C11 robot with shape

use rs_opw_kinematics::kinematics_with_shape::KinematicsWithShape;

pub struct Kws { pub kws: KinematicsWithShape, pub ks: KSpec, pub fam: String }

/// robot with shape through one of the two constructors; obstacles placed near the links at `q`
pub fn gen_kws(r: &mut Rng, q: &Joints, force_cons: Option<([f64; 6], [f64; 6], f64)>) -> Kws {
    let ps = presets();
    let (_, p) = ps[r.below(ps.len())].clone();
    let cons = force_cons.unwrap_or_else(|| {
        let mut f = [0.0; 6]; let mut t = [0.0; 6];
        for k in 0..6 { f[k] = -r.range(2.0, 3.1); t[k] = r.range(2.0, 3.1); }
        (f, t, *r.pick(&[0.0, 0.0, 1.0, 0.5]))
    });
    let mut base_t = if r.chance(0.5) { Isometry3::translation(r.range(-0.3, 0.3), r.range(-0.3, 0.3), r.range(0.0, 0.4)) } else { rand_iso(r, 0.3) };
    let mut tool_t = if r.chance(0.5) { axial_iso(r) } else { rand_iso(r, 0.15) };
    // exact special cases of the two transforms: a rotated base sitting exactly at the world origin, a tool that only
    // translates, an identity base, an identity tool
    match r.below(10) {
        0 => { base_t = Isometry3::from_parts(Translation3::new(0.0, 0.0, 0.0), rand_quat(r)); tool_t = Isometry3::translation(r.range(-0.1, 0.1), 0.0, r.range(0.0, 0.2)); }
        1 => { base_t = Isometry3::from_parts(Translation3::new(0.0, 0.0, 0.0), rand_quat(r)); }
        2 => { tool_t = Isometry3::translation(0.0, 0.0, r.range(0.0, 0.2)); }
        3 => { base_t = Isometry3::identity(); }
        4 => { tool_t = Isometry3::identity(); }
        _ => {}
    }
    let mut ks = KSpec::bare(p);
    ks.cons = Some(cons);
    ks.stack = vec![Wrap::B(base_t), Wrap::T(tool_t)];
    let kin = ks.build();
    let links = kin.forward_with_joint_poses(q);
    let size = 0.05;
    let joint_meshes = [rand_mesh(r, size), rand_mesh(r, size), rand_mesh(r, size), rand_mesh(r, size), rand_mesh(r, size), rand_mesh(r, size)];
    let env_len = r.below(4);
    let mut env = vec![];
    for _ in 0..env_len {
        let li = r.below(6);
        let anchor = links[li].translation.vector;
        let off = Vector3::new(r.range(-1.0, 1.0), r.range(-1.0, 1.0), r.range(-1.0, 1.0)).normalize() * *r.pick(&[0.03, 0.08, 0.15, 0.3, 1.0]);
        let pose = Isometry3::from_parts((anchor + off).into(), rand_quat(r));
        env.push(CollisionBody { mesh: if r.chance(0.3) { plate_mesh(r.range(0.3, 1.0) as f32, [0.0; 3]) } else { rand_mesh(r, 0.08) }, pose: pose.cast::<f32>() });
    }
    let c = crate::gen::make_constraints(&cons.0, &cons.1, cons.2);
    let ctor = r.below(2);
    let (kws, fam) = if ctor == 0 {
        let first = r.chance(0.5);
        (KinematicsWithShape::new(p, c, joint_meshes, rand_mesh(r, 0.08), base_t, rand_mesh(r, 0.04), tool_t, env, first),
         format!("new/first={}/env{}", first, env_len))
    } else {
        let mode = *r.pick(&[CheckMode::AllCollsions, CheckMode::FirstCollisionOnly, CheckMode::NoCheck]);
        let (mut sf, mut safety) = gen_safety(r, env_len, true, true, mode);
        let mut env = env;
        let mut base_mesh = rand_mesh(r, 0.08);
        if r.chance(0.15) {
            // an empty cell where nothing collides by default, except a few listed pairs: a link against the base (a
            // floor plate under the robot) at a distance that some configurations violate
            env.clear();
            safety = SafetyDistances::standard(if mode == CheckMode::NoCheck { CheckMode::FirstCollisionOnly } else { mode });
            safety.to_robot_default = NEVER_COLLIDES;
            safety.to_environment = NEVER_COLLIDES;
            let mut special: HashMap<(u16, u16), f32> = HashMap::new();
            for _ in 0..(1 + r.below(2)) {
                let link = 1 + r.below(5);
                let key = if r.chance(0.5) { (link as u16, J_BASE as u16) } else { (J_BASE as u16, link as u16) };
                special.insert(key, *r.pick(&[0.2f32, 0.45, 0.8]));
            }
            safety.special_distances = special;
            base_mesh = plate_mesh(0.6, [0.0, 0.0, 0.0]);
            sf = "never-by-default+listed-base-pairs".into();
        }
        let n_env = env.len();
        (KinematicsWithShape::with_safety(p, c, joint_meshes, base_mesh, base_t, rand_mesh(r, 0.04), tool_t, env, safety),
         format!("with_safety/{}/env{}", sf, n_env))
    };
    Kws { kws, ks, fam }
}

pub fn c11(seed: u64, n: usize) {
    let mut r = Rng::new(seed ^ 0xC11);
    kws_cases("C11", &mut r, n, &[0, 1, 2, 3], true);
    // "not reported colliding" rests on the verdicts of the same robot body: scenes with the brute-force oracle table
    coll_cases("C11", &mut r, (n / 2).max(40));
}

/// delegation of forward, link poses, limits, singularity; placement of the body meshes
pub fn emit_kwsd(prop: &str, k: &Kws, q: &Joints) {
    let inner = k.kws.kinematics.clone();
    let mut l = Line::new(prop, &k.fam, "kwsd");
    k.ks.encode(&mut l);
    l.j6(q).arrow();
    l.iso(&k.kws.forward(q)).iso(&inner.forward(q));
    for p in k.kws.forward_with_joint_poses(q).iter() { l.iso(p); }
    for p in inner.forward_with_joint_poses(q).iter() { l.iso(p); }
    l.b(k.kws.kinematic_singularity(q).is_some()).b(inner.kinematic_singularity(q).is_some());
    let c1 = k.kws.constraints().as_ref().unwrap(); let c2 = inner.constraints().as_ref().unwrap();
    l.j6(&c1.from).j6(&c1.to).f(c1.sorting_weight).j6(&c2.from).j6(&c2.to).f(c2.sorting_weight);
    let pr = k.kws.positioned_robot(q);
    l.n(pr.joints.len());
    for pj in &pr.joints { l.iso(&pj.transform.cast::<f64>()); }
    match &pr.tool { Some(t) => { l.n(1).iso(&t.transform.cast::<f64>()); } None => { l.n(0); } }
    l.n(pr.environment.len());
    l.emit();
}

/// robots with shape are one more wrapper around base * robot * tool: both constructors, under another property's label
pub fn kwsd_cases(prop: &str, r: &mut Rng, n: usize) {
    for _ in 0..n {
        let q = rand_joints(r, 2.0);
        let k = gen_kws(r, &q, None);
        emit_kwsd(prop, &k, &q);
    }
}

/// robots with shape: each chosen entry point with the inner stack's answers, the robot's verdict per answer and the
/// wrapper's answers (op `kws`); optionally the delegation line (op `kwsd`)
pub fn kws_cases(prop: &str, r: &mut Rng, n: usize, entries: &[usize], with_kwsd: bool) {
    for i in 0..n {
        let q = rand_joints(r, 2.0);
        let k = gen_kws(r, &q, None);
        let inner = k.kws.kinematics.clone();
        let pose = k.kws.forward(&q);
        let mut prev = if r.chance(0.5) { q } else { rand_joints(r, PI) };
        // previous taken bit for bit from the answers of the inner stack, preferably one the robot reports colliding
        if r.chance(0.35) {
            let answers = inner.inverse_continuing(&pose, &prev);
            let colliding = catch(AssertUnwindSafe(|| answers.iter().find(|s| k.kws.collides(s)).cloned())).flatten();
            if let Some(s) = colliding.or(answers.first().cloned()) { prev = s; }
        }
        let j6 = q[5];
        for &entry in entries {
            let call = |kk: &dyn Kinematics| match entry {
                0 => kk.inverse(&pose), 1 => kk.inverse_continuing(&pose, &prev), 2 => kk.inverse_5dof(&pose, j6), _ => kk.inverse_continuing_5dof(&pose, &prev) };
            let mut l = Line::new(prop, &k.fam, "kws");
            k.ks.encode(&mut l);
            l.n(entry).iso(&pose).j6(&prev).f(j6).arrow();
            match catch(AssertUnwindSafe(|| {
                let a = call(inner.as_ref());
                let v: Vec<bool> = a.iter().map(|s| k.kws.collides(s)).collect();
                let o = call(&k.kws);
                (a, v, o)
            })) {
                Some((a, v, o)) => { l.sols(&a); l.n(v.len()); for b in v { l.b(b); } l.sols(&o); }
                None => { l.s("panic"); }
            }
            l.emit();
        }
        if with_kwsd && i % 2 == 0 { emit_kwsd(prop, &k, &q); }
    }
}
