//! Case generators for the kinematics properties.
use crate::gen::*;
use crate::kinops::*;
use rs_opw_kinematics::kinematics_impl::verif_hooks as hk;
use std::f64::consts::PI;

/// constants translator input: `name hexbits`
pub fn consts() {
    let (d, a, s) = hk::constants();
    println!("distTol {}", hx(d));
    println!("angTol {}", hx(a));
    println!("singThr {}", hx(s));
    println!("byPrev {}", hx(rs_opw_kinematics::constraints::BY_PREV));
    println!("byConstraints {}", hx(rs_opw_kinematics::constraints::BY_CONSTRAINS));
    println!("neverCollides {}", hx(rs_opw_kinematics::collisions::NEVER_COLLIDES as f64));
    println!("touchOnly {}", hx(rs_opw_kinematics::collisions::TOUCH_ONLY as f64));
    println!("jTool #{}", rs_opw_kinematics::kinematic_traits::J_TOOL);
    println!("jBase #{}", rs_opw_kinematics::kinematic_traits::J_BASE);
    println!("envStartIdx #{}", rs_opw_kinematics::kinematic_traits::ENV_START_IDX);
}

pub fn c03(seed: u64, n: usize) {
    let mut r = Rng::new(seed ^ 0xC03);
    // the hard-coded robots, as compiled, against the table translated from parameters_robots.rs
    for (name, p) in crate::gen::presets() {
        let mut l = Line::new("C03", "preset-table", "preset");
        l.s(&crate::props_file::hexs(name)).arrow();
        KSpec::bare(p).encode(&mut l);
        l.emit();
    }
    for i in 0..n {
        let (mut rfam, mut p) = gen_params(&mut r);
        // 5-DOF declarations: the parameter loader blocks J6 with a zero sign correction, hand-made sets may keep +-1
        // (J6 then carries a fixed tool mounting rotation); forward and forward_with_joint_poses must agree in all of them
        if r.chance(0.15) {
            p.dof = 5;
            p.sign_corrections[5] = *r.pick(&[0, 0, 0, 1, -1]);
            rfam.push_str(if p.sign_corrections[5] == 0 { "/dof5-sign6=0" } else { "/dof5-sign6!=0" });
        } else if r.chance(0.04) {
            p.sign_corrections[5] = 0;
            rfam.push_str("/dof6-sign6=0");
        }
        let span = *r.pick(&[PI, PI, 2.0 * PI, 10.0, 100.0, 1e4]);
        let q = rand_joints(&mut r, span);
        let mut ks = KSpec::bare(p);
        // limits attached now and then: forward kinematics must not depend on the constructor the solver came from
        if r.chance(0.3) { let (_, c) = gen_cons(&mut r, None); ks.cons = c; }
        let mut fam = format!("{}/span{:.0e}", rfam, span);
        if i % 5 == 4 {
            let depth = 1 + r.below(2);
            ks.stack = gen_stack(&mut r, depth, false, true);
            fam.push_str("/wrapped");
        }
        emit_links("C03", &fam, &ks, &q);
        if i % 4 == 0 {
            let k = r.below(6);
            let mut q2 = q;
            for j in (k + 1)..6 { q2[j] = r.range(-span, span); }
            emit_linksp("C03", &fam, &KSpec::bare(p), &q, &q2, k);
        }
    }
    // robots with shape (both constructors): their forward and link poses are those of base * robot * tool
    crate::props_coll::kwsd_cases("C03", &mut r, (n / 400).max(24));
}

pub fn c01(seed: u64, n: usize) {
    let mut r = Rng::new(seed ^ 0xC01);
    for i in 0..n {
        let qy = gen_query(&mut r, true, true, i % 3 == 2);
        let o = qy.origin.as_ref();
        emit_inv("C01", &qy.fam, &qy.ks, &qy.pose, o);
        let (pf, prev) = gen_prev(&mut r, o);
        emit_invc("C01", &format!("{}/prev-{}", qy.fam, pf), &qy.ks, &qy.pose, &prev, o);
        let j6 = *r.pick(&[0.0, 1.0, -1.0, 10.0, -10.0, 1e-300, 2.5]);
        if qy.axial {
            emit_inv5("C01", &qy.fam, &qy.ks, &qy.pose, j6, o);
            emit_invc5("C01", &format!("{}/prev-{}", qy.fam, pf), &qy.ks, &qy.pose, &prev, o);
        }
        if qy.ks.stack.is_empty() {
            emit_h_iki("C01", &qy.fam, &qy.ks.p, &qy.pose);
            emit_h_iki5("C01", &qy.fam, &qy.ks.p, &qy.pose, j6);
        }
        if i % 8 == 5 {
            // a parallelogram on top edits the answers AFTER the solver's own cross-check: all four entry points
            let (rfam, p) = gen_params(&mut r);
            let mut ks = KSpec::bare(p);
            let d = r.below(6); let mut c = r.below(6); if c == d { c = (c + 1) % 6; }
            ks.stack.push(Wrap::P(*r.pick(&[1.0, -1.0, 0.5, 2.0, -0.7]), d, c));
            let q = rand_joints(&mut r, 2.0);
            let pose = ks.build().forward(&q);
            let fam = format!("{}/para{}{}", rfam, d, c);
            emit_inv("C01", &fam, &ks, &pose, Some(&q));
            emit_invc("C01", &format!("{}/prev-origin", fam), &ks, &pose, &q, Some(&q));
            emit_inv5("C01", &fam, &ks, &pose, q[5], Some(&q));
            emit_invc5("C01", &format!("{}/prev-origin", fam), &ks, &pose, &q, Some(&q));
        }
    }
}

use rs_opw_kinematics::kinematic_traits::{Joints, Kinematics};

fn nonsingular(p: &rs_opw_kinematics::parameters::opw_kinematics::Parameters, q: &Joints, m: f64) -> bool {
    let th: Vec<f64> = (0..6).map(|k| q[k] * p.sign_corrections[k] as f64 - p.offsets[k]).collect();
    let psi3 = p.a2.atan2(p.c3);
    let kk = (p.a2 * p.a2 + p.c3 * p.c3).sqrt();
    let cx1 = p.c2 * th[1].sin() + kk * (th[1] + th[2] + psi3).sin() + p.a1;
    th[4].sin().abs() > m && (th[2] + psi3).sin().abs() > m && cx1.abs() > m
}

/// C02: completeness and closure of the answer set at non-singular configurations
pub fn c02(seed: u64, n: usize) {
    let mut r = Rng::new(seed ^ 0xC02);
    let mut done = 0;
    while done < n {
        let (rfam, p) = gen_params(&mut r);
        let q = rand_joints(&mut r, PI);
        let margin = *r.pick(&[1e-3, 1e-3, 1e-2, 1e-1]);
        if !nonsingular(&p, &q, margin) { continue; }
        done += 1;
        let ks = KSpec::bare(p);
        emit_invcl("C02", &format!("{}/margin{:.0e}", rfam, margin), &ks, &q);
        if done % 3 == 0 {
            let pose = ks.core().forward(&q);
            emit_h_iki("C02", &rfam, &p, &pose);
        }
        // the continuation with the originating joints as previous: same answers, none of them twice
        if done % 4 == 2 {
            let pose = ks.core().forward(&q);
            emit_invc("C02", &format!("{}/continuing", rfam), &ks, &pose, &q, Some(&q));
        }
        // a parallelogram on top: its answers are edited after the solver's own check and must still reproduce the pose
        if done % 8 == 3 {
            let mut ks3 = ks.clone();
            let d = r.below(6); let mut c = r.below(6); if c == d { c = (c + 1) % 6; }
            ks3.stack.push(Wrap::P(*r.pick(&[0.5, -1.0, 2.0, -0.7]), d, c));
            let pose3 = ks3.build().forward(&q);
            emit_invc("C02", &format!("{}/para", rfam), &ks3, &pose3, &q, Some(&q));
            emit_inv("C02", &format!("{}/para", rfam), &ks3, &pose3, Some(&q));
        }
        // the position-only solver is a hand-duplicated copy of the same formulas: the originating J1..J5 come back
        if done % 4 == 1 {
            let pose = ks.core().forward(&q);
            let j6 = *r.pick(&[0.0, q[5], 1.0]);
            emit_inv5("C02", &format!("{}/5dof-entry", rfam), &ks, &pose, j6, Some(&q));
            // ... also behind a base and a tool (the wrappers undo their transform on the proper side)
            let mut ks2 = ks.clone();
            ks2.stack = vec![Wrap::B(rand_iso(&mut r, 0.5)), Wrap::T(crate::gen::axial_iso(&mut r))];
            let pose2 = ks2.build().forward(&q);
            emit_invc5("C02", &format!("{}/5dof-entry/based", rfam), &ks2, &pose2, &q, Some(&q));
            emit_inv("C02", &format!("{}/based", rfam), &ks2, &pose2, Some(&q));
        }
    }
}

/// C04: continuation ordering, nearest representative, superset, trajectories
pub fn c04(seed: u64, n: usize) {
    let mut r = Rng::new(seed ^ 0xC04);
    // hook-level helpers on adversarial pairs
    let specials = [0.0, PI, -PI, 2.0 * PI, -2.0 * PI, PI / 2.0, 3.0 * PI, -3.0 * PI, 1e-300, -0.0, 6.0, -6.0];
    for a in specials { for b in specials { emit_h_norm("C04", "h/special", a, b); } }
    for _ in 0..(n / 2).max(50) {
        emit_h_norm("C04", "h/random", r.range(-PI, PI), r.range(-2.0 * PI, 2.0 * PI));
        emit_h_norm("C04", "h/far", r.range(-10.0, 10.0), r.range(-50.0, 50.0));
        let a = rand_joints(&mut r, 7.0); let b = rand_joints(&mut r, 7.0);
        emit_h_dist("C04", "h/dist", &a, &b);
    }
    for _ in 0..n {
        let qy = gen_query(&mut r, true, true, true);
        let o = qy.origin.as_ref();
        let (pf, prev) = gen_prev(&mut r, o);
        let fam = format!("{}/prev-{}", qy.fam, pf);
        emit_invc("C04", &fam, &qy.ks, &qy.pose, &prev, o);
        emit_invcs("C04", &fam, &qy.ks, &qy.pose, &prev);
        if qy.ks.cons.is_some() { emit_consof("C04", &fam, &qy.ks); }
        if qy.axial { emit_invc5("C04", &fam, &qy.ks, &qy.pose, &prev, o); }
    }
    // Frame::forward_transformed orders by closeness to the given previous joints (not to the transformed ones)
    crate::props_misc::fwd_tr_cases("C04", &mut r, (n / 4).max(10));
    // a robot with shape drops colliding answers and keeps the order of the rest
    crate::props_coll::kws_cases("C04", &mut r, (n / 60).max(12), &[1, 3], false);
    // the wrist-singular continuation (previous realising the pose, J4 / J6 whole turns away) keeps J4 and J6 on track
    singular_continuity_cases("C04", &mut r, (n / 10).max(20));
    // trajectories: each call's previous is the preceding call's first answer
    let ntraj = (n / 50).max(2);
    for t in 0..ntraj {
        let (rfam, p) = gen_params(&mut r);
        let ks = KSpec::bare(p);
        let robot = ks.build();
        let mut q = rand_joints(&mut r, 2.0);
        let mut tries = 0;
        while !nonsingular(&p, &q, 0.2) && tries < 100 { q = rand_joints(&mut r, 2.0); tries += 1; }
        let mut vel = rand_joints(&mut r, 0.01);
        let mut prev = q;
        for step in 0..200 {
            let mut qn = q;
            for k in 0..6 { qn[k] += vel[k]; if qn[k].abs() > 2.5 { vel[k] = -vel[k]; qn[k] += 2.0 * vel[k]; } }
            if !nonsingular(&p, &qn, 0.05) { for k in 0..6 { vel[k] = -vel[k]; } continue; }
            q = qn;
            let pose = robot.forward(&q);
            emit_invc("C04", &format!("traj/{}/t{}", rfam, t % 4), &ks, &pose, &prev, Some(&q));
            let sols = robot.inverse_continuing(&pose, &prev);
            if let Some(f) = sols.first() { prev = *f; } else { break; }
            let _ = step;
        }
    }
}

/// C05: wrist singularity detection band and J4/J6 continuity
pub fn c05(seed: u64, n: usize) {
    let mut r = Rng::new(seed ^ 0xC05);
    let (_, _, thr) = hk::constants();
    let deltas = [0.0, thr / 2.0, thr * (1.0 - 1e-6), thr * (1.0 + 1e-6), 2.0 * thr, 1e-9, 0.1];
    for kk in -12..=12 {
        for d in deltas { for sg in [1.0, -1.0] {
            let v = kk as f64 * PI + sg * d;
            emit_h_mpi("C05", "h/band-grid", v, thr);
            emit_h_close("C05", "h/close-grid", v, 0.0);
            emit_h_close("C05", "h/close-grid", v, PI);
        } }
    }
    for i in 0..n {
        // detection through wrappers, robots with J5 offsets and negative J5 sign
        let (rfam, mut p) = gen_params(&mut r);
        if i % 2 == 0 { p.offsets[4] = r.range(-1.0, 1.0); }
        if i % 3 == 0 { p.sign_corrections[4] = -1; }
        let mut ks = KSpec::bare(p);
        if i % 4 == 0 { let d = 1 + r.below(2); ks.stack = gen_stack(&mut r, d, false, true); }
        let kk = if r.chance(0.7) { (r.below(9) as f64) - 4.0 } else { (r.below(25) as f64) - 12.0 };
        let d = *r.pick(&deltas);
        let th5 = kk * PI + if r.chance(0.5) { d } else { -d };
        let mut th = rand_joints(&mut r, PI);
        th[4] = th5;
        let q = joints_of_theta(&p, &th);
        emit_sing("C05", &format!("{}/band", rfam), &ks, &q);
        let q2 = rand_joints(&mut r, PI);
        emit_sing("C05", &format!("{}/random", rfam), &ks, &q2);
    }
    singular_continuity_cases("C05", &mut r, n);
}

/// continuity at the exact singularity θ5 = 0 (previous realising the pose, other J4/J6 splits, whole turns away)
pub fn singular_continuity_cases(prop: &str, r: &mut Rng, n: usize) {
    for i in 0..n {
        let (rfam, mut p) = gen_params(r);
        if i % 2 == 0 { p.offsets[4] = r.range(-1.0, 1.0); }
        let mut th = rand_joints(r, 2.0);
        th[4] = 0.0;
        // well-conditioned arm posture: away from elbow/shoulder singularities
        let q = joints_of_theta(&p, &th);
        let mut qq = q; qq[4] += 0.7;
        if !nonsingular(&p, &qq, 0.3) { continue; }
        let ks = KSpec::bare(p);
        let pose = ks.core().forward(&q);
        emit_invc(prop, &format!("{}/singular-prev-realises", rfam), &ks, &pose, &q, Some(&q));
        // previous with a different J4/J6 split and slightly different arm
        let mut prev = q;
        prev[3] += r.range(-1.0, 1.0); prev[5] += r.range(-1.0, 1.0);
        emit_invc(prop, &format!("{}/singular-prev-other-split", rfam), &ks, &pose, &prev, Some(&q));
        // previous realising the pose with J4 / J6 whole turns away (still inside +-2pi): the J4+J6 sums differ by
        // up to 4pi, the recovery has to wrap more than once
        let mut prev = q;
        for kk in [3usize, 5] { let cand = prev[kk] + 2.0 * PI * *r.pick(&[-1.0, 1.0]); if cand.abs() <= 2.0 * PI { prev[kk] = cand; } }
        emit_invc(prop, &format!("{}/singular-prev-turns", rfam), &ks, &pose, &prev, Some(&q));
        // previous realising the pose with J4 and J6 two whole turns away (their sum up to four turns from the raw answer)
        let mut prev2 = q;
        for kk in [3usize, 5] { prev2[kk] += 4.0 * PI * *r.pick(&[-1.0, 1.0, 1.0]); }
        emit_invc(prop, &format!("{}/singular-prev-two-turns", rfam), &ks, &pose, &prev2, Some(&q));
        // the CONSTRAINT_CENTERED sentinel with limits whose centres are not zero
        if i % 3 == 0 {
            let mut f = [0.0; 6]; let mut t = [0.0; 6];
            for kk in 0..6 { let c = q[kk] + r.range(-0.3, 0.3); f[kk] = c - 1.0; t[kk] = c + 1.0; }
            let mut ksc = ks.clone(); ksc.cons = Some((f, t, *r.pick(&[0.0, 0.5, 1.0])));
            emit_invc(prop, &format!("{}/singular-sentinel-cons", rfam), &ksc, &pose, &rs_opw_kinematics::kinematic_traits::CONSTRAINT_CENTERED, Some(&q));
        }
    }
}

/// C06: 5-DOF entry points, dof 5 and 6, bare and behind axial tools/bases
pub fn c06(seed: u64, n: usize) {
    let mut r = Rng::new(seed ^ 0xC06);
    for _ in 0..n {
        let wc = r.chance(0.33);
        let mut qy = gen_query(&mut r, false, true, wc);
        if r.chance(0.4) {
            let d = 1 + r.below(2);
            qy.ks.stack = gen_stack(&mut r, d, true, false);
            for w in &qy.ks.stack {
                qy.pose = match w { Wrap::T(t) | Wrap::F(t) => qy.pose * t, Wrap::B(b) => b * qy.pose, Wrap::P(..) => qy.pose };
            }
            qy.fam.push_str("/axial-stack");
        }
        let o = qy.origin.as_ref();
        let j6 = *r.pick(&[0.0, 1.0, -1.0, 10.0, -10.0, 1e-300, 2.5]);
        emit_inv5("C06", &qy.fam, &qy.ks, &qy.pose, j6, o);
        let mut prev = o.cloned().unwrap_or(rand_joints(&mut r, PI));
        if r.chance(0.5) { prev = rand_joints(&mut r, 2.0 * PI); }
        prev[5] = *r.pick(&[0.0, 2.5, -2.5, 6.0, 0.3]);
        // the CONSTRAINT_CENTERED sentinel now and then: the caller's J6 is then 0, not the centre of the J6 limits
        if r.chance(0.12) { prev = rs_opw_kinematics::kinematic_traits::CONSTRAINT_CENTERED; }
        emit_invc5("C06", &qy.fam, &qy.ks, &qy.pose, &prev, o);
        emit_inv("C06", &qy.fam, &qy.ks, &qy.pose, o);
        emit_invc("C06", &qy.fam, &qy.ks, &qy.pose, &prev, o);
        if qy.ks.stack.is_empty() { emit_h_iki5("C06", &qy.fam, &qy.ks.p, &qy.pose, j6); }
    }
    // robots declared 5-DOF whose Parameters went through URDFParameters::parameters(): still 5-DOF (J6 = 0 from plain inverse)
    for _ in 0..(n / 30).max(12) {
        let mut found = None;
        for _ in 0..200 { let (f, mut p) = gen_params(&mut r); p.dof = 5; if route_of(&p) == 0 { found = Some((f, p)); break; } }
        let Some((rfam, mut p)) = found else { continue };
        let mut ks = KSpec::bare(p);
        let q = rand_joints(&mut r, 2.0);
        // ... or, with limits, the whole solver came from URDFParameters::to_robot()
        if r.chance(0.5) {
            let mut got = false;
            for _ in 0..400 {
                let (_, mut p2) = gen_params(&mut r); p2.dof = 5;
                let mut f = [0.0; 6]; let mut t = [0.0; 6];
                for k in 0..6 { f[k] = q[k] - r.range(0.5, 1.0); t[k] = q[k] + r.range(0.5, 1.0); }
                if route_of(&p2) == 1 && history_mode(&f, &t) < 4 { p = p2; ks = KSpec::bare(p); ks.cons = Some((f, t, 0.0)); got = true; break; }
            }
            if !got { continue; }
        }
        let pose = ks.build().forward(&q);
        let fam = format!("{}/dof5-via-urdf-{}", rfam, if ks.cons.is_some() { "to_robot" } else { "parameters" });
        emit_inv("C06", &fam, &ks, &pose, Some(&q));
        let mut prev = rand_joints(&mut r, PI); prev[5] = *r.pick(&[0.0, 2.5, -1.0]);
        emit_invc("C06", &fam, &ks, &pose, &prev, Some(&q));
    }
    // the 5-DOF entry points of a robot with shape delegate to the 5-DOF entry points of its stack (J6 as requested)
    crate::props_coll::kws_cases("C06", &mut r, (n / 60).max(12), &[2, 3], false);
}

/// C08: constrained vs unconstrained on the same query
pub fn c08(seed: u64, n: usize) {
    let mut r = Rng::new(seed ^ 0xC08);
    for i in 0..n {
        let mut qy = gen_query(&mut r, true, true, true);
        if qy.ks.cons.is_none() {
            let (_, c) = gen_cons(&mut r, qy.origin.as_ref());
            qy.ks.cons = c;
            if qy.ks.cons.is_none() { continue; }
        }
        if i % 5 == 0 {
            // parallelogram on top: the coupled answers are no longer compared with the limits
            let d = r.below(6); let mut c = r.below(6); if c == d { c = (c + 1) % 6; }
            qy.ks.stack.push(Wrap::P(r.range(-2.0, 2.0), d, c));
            qy.fam.push_str("/para");
        }
        let o = qy.origin.as_ref();
        let (pf, prev) = gen_prev(&mut r, o);
        let fam = format!("{}/prev-{}", qy.fam, pf);
        let j6 = *r.pick(&[0.0, 1.0, -2.5]);
        emit_cmp2("C08", &fam, &qy.ks, 0, &qy.pose, &prev, j6);
        emit_cmp2("C08", &fam, &qy.ks, 1, &qy.pose, &prev, j6);
        if qy.axial {
            emit_cmp2("C08", &fam, &qy.ks, 2, &qy.pose, &prev, j6);
            emit_cmp2("C08", &fam, &qy.ks, 3, &qy.pose, &prev, j6);
        }
        emit_consof("C08", &qy.fam, &qy.ks);
    }
}

fn stacks_upto(depth: usize) -> Vec<Vec<u8>> {
    // all orders of T/B/F to the given depth
    let mut out: Vec<Vec<u8>> = vec![vec![]];
    let mut layer: Vec<Vec<u8>> = vec![vec![]];
    for _ in 0..depth {
        let mut next = vec![];
        for s in &layer { for w in 0..3u8 { let mut t = s.clone(); t.push(w); next.push(t); } }
        out.extend(next.iter().cloned());
        layer = next;
    }
    out
}

/// C09: exhaustive delegation matrix over wrapper orders, general and axial isometries
pub fn c09(seed: u64, n: usize) {
    let mut r = Rng::new(seed ^ 0xC09);
    let depth = if n >= 2000 { 3 } else { 2 };
    let shapes = stacks_upto(depth);
    let per = (n / shapes.len()).max(1);
    for shape in &shapes {
        for _ in 0..per {
            let (rfam, p) = gen_params(&mut r);
            let axial = r.chance(0.5);
            let mut ks = KSpec::bare(p);
            if r.chance(0.3) { let q0 = rand_joints(&mut r, PI); let (_, c) = gen_cons(&mut r, Some(&q0)); ks.cons = c; }
            for w in shape {
                let iso = if axial { axial_iso(&mut r) } else { rand_iso(&mut r, 0.5) };
                ks.stack.push(match w { 0 => Wrap::T(iso), 1 => Wrap::B(rand_iso(&mut r, 0.5)), _ => Wrap::F(iso) });
            }
            let q = rand_joints(&mut r, PI);
            let pose = ks.build().forward(&q);
            let tag: String = shape.iter().map(|w| ["T", "B", "F"][*w as usize]).collect();
            let fam = format!("{}/stack-{}{}", rfam, if tag.is_empty() { "-" } else { &tag }, if axial { "/axial" } else { "" });
            emit_links("C09", &fam, &ks, &q);
            emit_inv("C09", &fam, &ks, &pose, Some(&q));
            let (pf, prev) = gen_prev(&mut r, Some(&q));
            emit_invc("C09", &format!("{}/prev-{}", fam, pf), &ks, &pose, &prev, Some(&q));
            if axial {
                emit_inv5("C09", &fam, &ks, &pose, 2.5, Some(&q));
                emit_invc5("C09", &format!("{}/prev-{}", fam, pf), &ks, &pose, &prev, Some(&q));
            }
            emit_sing("C09", &fam, &ks, &q);
            emit_consof("C09", &fam, &ks);
        }
    }
    for _ in 0..(n / 10).max(10) {
        let (rfam, p) = gen_params(&mut r);
        let mut ks = KSpec::bare(p);
        if r.chance(0.5) { ks.stack = gen_stack(&mut r, 1, false, false); }
        let q = rand_joints(&mut r, PI);
        let base = rand_iso(&mut r, 1.0);
        let axis = *r.pick(&[0u32, 1, 2, 2, 1, 0, 3, 7]);
        emit_lin("C09", &format!("{}/linear-axis", rfam), &ks, axis, &base, r.range(-2.0, 2.0), &q);
        let tr = nalgebra::Vector3::new(r.range(-2.0, 2.0), r.range(-2.0, 2.0), r.range(-2.0, 2.0));
        emit_gantry("C09", &format!("{}/gantry", rfam), &ks, &base, &tr, &q);
    }
    // a robot with shape is one more wrapper: base * robot * tool through both constructors (new, with_safety)
    crate::props_coll::kwsd_cases("C09", &mut r, (n / 25).max(24));
    // ... and keeps the order of the answers of the stack below it (continuation ordering)
    crate::props_coll::kws_cases("C09", &mut r, (n / 40).max(16), &[1, 3, 0], false);
}

/// C16: parallelogram coupling, all ordered index pairs, nesting with tool/base
pub fn c16(seed: u64, n: usize) {
    let mut r = Rng::new(seed ^ 0xC16);
    let mut pairs = vec![];
    for d in 0..6 { for c in 0..6 { if d != c { pairs.push((d, c)); } } }
    let per = (n / pairs.len()).max(1);
    for (d, c) in pairs {
        for i in 0..per {
            let (rfam, p) = gen_params(&mut r);
            let mut ks = KSpec::bare(p);
            let s = *r.pick(&[1.0, -1.0, 0.5, 2.0, -2.0, 0.0, 1.0]) * if r.chance(0.5) { 1.0 } else { r.range(0.1, 1.0) };
            let mut fam = format!("{}/pair{}{}", rfam, d, c);
            match i % 4 {
                0 => { ks.stack.push(Wrap::P(s, d, c)); }
                1 => { ks.stack.push(Wrap::T(rand_iso(&mut r, 0.3))); ks.stack.push(Wrap::P(s, d, c)); fam.push_str("/P(T)"); }
                2 => { ks.stack.push(Wrap::P(s, d, c)); ks.stack.push(Wrap::B(rand_iso(&mut r, 0.5))); ks.stack.push(Wrap::T(rand_iso(&mut r, 0.3))); fam.push_str("/T(B(P))"); }
                _ => {
                    ks.stack.push(Wrap::P(s, d, c));
                    let d2 = r.below(6); let mut c2 = r.below(6); if c2 == d2 { c2 = (c2 + 1) % 6; }
                    ks.stack.push(Wrap::P(r.range(-2.0, 2.0), d2, c2)); fam.push_str("/P(P)");
                }
            }
            let q = rand_joints(&mut r, PI);
            let k = ks.build();
            let pose = k.forward(&q);
            emit_links("C16", &fam, &ks, &q);
            emit_inv("C16", &fam, &ks, &pose, Some(&q));
            let (pf, prev) = gen_prev(&mut r, Some(&q));
            emit_invc("C16", &format!("{}/prev-{}", fam, pf), &ks, &pose, &prev, Some(&q));
            let only_para = ks.stack.iter().all(|w| matches!(w, Wrap::P(..)));
            if only_para {
                emit_inv5("C16", &fam, &ks, &pose, q[5], Some(&q));
                emit_invc5("C16", &format!("{}/prev-{}", fam, pf), &ks, &pose, &prev, Some(&q));
            }
            if i % 4 != 3 {
                // one coupling in the stack: the joints the inner robot sees are q with q[c] -= s * q[d]
                let mut inner = q; inner[c] -= s * q[d];
                // the previous vector solves the pose on the INNER robot (taken from the bare model), not on the wrapper
                emit_invc("C16", &format!("{}/prev-inner-solution", fam), &ks, &pose, &inner, Some(&q));
                // inside the wrist-singularity band but not at zero, previous = the answer: the continuation appends a ninth
                // answer, which has to be de-coupled like the other eight
                let mut th = rand_joints(&mut r, 2.0);
                th[4] = *r.pick(&[5e-5, -5e-5, 1e-4, -2e-5]);
                let inner2 = joints_of_theta(&p, &th);
                let mut q2 = inner2; q2[c] = inner2[c] + s * inner2[d];
                let pose2 = k.forward(&q2);
                emit_invc("C16", &format!("{}/in-singular-band/prev-origin", fam), &ks, &pose2, &q2, Some(&q2));
            }
        }
    }
}
