//! Case generators for the kinematics properties.
use crate::gen::*;
use crate::kinops::*;
use rs_opw_kinematics::kinematics_impl::verif_hooks as hk;
use std::f64::consts::PI;

/// constants translator input: `name hexbits`
pub fn consts() {
    let (d, a, s) = hk::constants();
    println!("distTol {}", hx(d));
    println!("angTol {}", hx(a));
    println!("singThr {}", hx(s));
    println!("byPrev {}", hx(rs_opw_kinematics::constraints::BY_PREV));
    println!("byConstraints {}", hx(rs_opw_kinematics::constraints::BY_CONSTRAINS));
    println!("neverCollides {}", hx(rs_opw_kinematics::collisions::NEVER_COLLIDES as f64));
    println!("touchOnly {}", hx(rs_opw_kinematics::collisions::TOUCH_ONLY as f64));
    println!("jTool #{}", rs_opw_kinematics::kinematic_traits::J_TOOL);
    println!("jBase #{}", rs_opw_kinematics::kinematic_traits::J_BASE);
    println!("envStartIdx #{}", rs_opw_kinematics::kinematic_traits::ENV_START_IDX);
}

pub fn c03(seed: u64, n: usize) {
    let mut r = Rng::new(seed ^ 0xC03);
    for i in 0..n {
        let (rfam, p) = gen_params(&mut r);
        let span = *r.pick(&[PI, PI, 2.0 * PI, 10.0, 100.0, 1e4]);
        let q = rand_joints(&mut r, span);
        let mut ks = KSpec::bare(p);
        let mut fam = format!("{}/span{:.0e}", rfam, span);
        if i % 5 == 4 {
            let depth = 1 + r.below(2);
            ks.stack = gen_stack(&mut r, depth, false, true);
            fam.push_str("/wrapped");
        }
        emit_links("C03", &fam, &ks, &q);
        if i % 4 == 0 {
            let k = r.below(6);
            let mut q2 = q;
            for j in (k + 1)..6 { q2[j] = r.range(-span, span); }
            emit_linksp("C03", &fam, &KSpec::bare(p), &q, &q2, k);
        }
    }
}

pub fn c01(seed: u64, n: usize) {
    let mut r = Rng::new(seed ^ 0xC01);
    for _ in 0..n {
        let qy = gen_query(&mut r, true, true, false);
        let o = qy.origin.as_ref();
        emit_inv("C01", &qy.fam, &qy.ks, &qy.pose, o);
        let (pf, prev) = gen_prev(&mut r, o);
        emit_invc("C01", &format!("{}/prev-{}", qy.fam, pf), &qy.ks, &qy.pose, &prev, o);
        let j6 = *r.pick(&[0.0, 1.0, -1.0, 10.0, -10.0, 1e-300, 2.5]);
        if qy.axial {
            emit_inv5("C01", &qy.fam, &qy.ks, &qy.pose, j6, o);
            emit_invc5("C01", &format!("{}/prev-{}", qy.fam, pf), &qy.ks, &qy.pose, &prev, o);
        }
        if qy.ks.stack.is_empty() {
            emit_h_iki("C01", &qy.fam, &qy.ks.p, &qy.pose);
            emit_h_iki5("C01", &qy.fam, &qy.ks.p, &qy.pose, j6);
        }
    }
}
