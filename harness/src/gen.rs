//! Seeded generators and the line-protocol encoder shared by all sub-commands.
use nalgebra::{Isometry3, Quaternion, Translation3, UnitQuaternion, Vector3};
use rs_opw_kinematics::constraints::Constraints;
use rs_opw_kinematics::frame::Frame;
use rs_opw_kinematics::kinematic_traits::{Joints, Kinematics, Pose};
use rs_opw_kinematics::kinematics_impl::OPWKinematics;
use rs_opw_kinematics::parallelogram::Parallelogram;
use rs_opw_kinematics::parameters::opw_kinematics::Parameters;
use rs_opw_kinematics::tool::{Base, Tool};
use std::f64::consts::PI;
use std::fmt::Write;
use std::sync::Arc;

/// xorshift64* — every random choice of a run derives from one state.
pub struct Rng(pub u64);
impl Rng {
    pub fn new(seed: u64) -> Self {
        let mut r = Rng(seed.wrapping_mul(0x9E3779B97F4A7C15) ^ 0xD1B54A32D192ED03);
        if r.0 == 0 { r.0 = 0x1234567; }
        for _ in 0..8 { r.next(); }
        r
    }
    pub fn next(&mut self) -> u64 {
        let mut x = self.0;
        x ^= x >> 12; x ^= x << 25; x ^= x >> 27;
        self.0 = x;
        x.wrapping_mul(0x2545F4914F6CDD1D)
    }
    /// uniform in [0,1)
    pub fn unit(&mut self) -> f64 { (self.next() >> 11) as f64 / (1u64 << 53) as f64 }
    pub fn range(&mut self, lo: f64, hi: f64) -> f64 { lo + (hi - lo) * self.unit() }
    pub fn below(&mut self, n: usize) -> usize { (self.next() % n as u64) as usize }
    pub fn chance(&mut self, p: f64) -> bool { self.unit() < p }
    pub fn pick<'a, T>(&mut self, v: &'a [T]) -> &'a T { &v[self.below(v.len())] }
    pub fn normal(&mut self) -> f64 {
        let u1 = self.unit().max(1e-300); let u2 = self.unit();
        (-2.0 * u1.ln()).sqrt() * (2.0 * PI * u2).cos()
    }
}

pub fn hx(x: f64) -> String { format!("{:016x}", x.to_bits()) }

/// token writer
#[derive(Default)]
pub struct Line(pub String);
impl Line {
    pub fn new(prop: &str, fam: &str, op: &str) -> Self { Line(format!("{} {} {}", prop, fam, op)) }
    pub fn s(&mut self, t: &str) -> &mut Self { self.0.push(' '); self.0.push_str(t); self }
    pub fn f(&mut self, x: f64) -> &mut Self { let _ = write!(self.0, " {:016x}", x.to_bits()); self }
    pub fn n(&mut self, n: usize) -> &mut Self { let _ = write!(self.0, " #{}", n); self }
    pub fn i(&mut self, n: i64) -> &mut Self { let _ = write!(self.0, " #{}", n); self }
    pub fn b(&mut self, b: bool) -> &mut Self { self.n(if b { 1 } else { 0 }) }
    pub fn j6(&mut self, j: &Joints) -> &mut Self { for x in j { self.f(*x); } self }
    pub fn v3(&mut self, v: &Vector3<f64>) -> &mut Self { self.f(v.x).f(v.y).f(v.z) }
    pub fn iso(&mut self, p: &Pose) -> &mut Self {
        let t = p.translation.vector; let q = p.rotation;
        self.f(t.x).f(t.y).f(t.z).f(q.w).f(q.i).f(q.j).f(q.k)
    }
    pub fn sols(&mut self, s: &[Joints]) -> &mut Self { self.n(s.len()); for j in s { self.j6(j); } self }
    pub fn arrow(&mut self) -> &mut Self { self.s("=>") }
    pub fn raw(&mut self, t: &str) -> &mut Self { self.0.push_str(t); self }
    pub fn emit(&self) { println!("{}", self.0); }
}

pub fn presets() -> Vec<(&'static str, Parameters)> {
    vec![
        ("igus_rebel", Parameters::igus_rebel()),
        ("irb2400_10", Parameters::irb2400_10()),
        ("staubli_tx2_140", Parameters::staubli_tx2_140()),
        ("staubli_tx2_160", Parameters::staubli_tx2_160()),
        ("staubli_tx2_160l", Parameters::staubli_tx2_160l()),
        ("fanuc_r2000ib_200r", Parameters::fanuc_r2000ib_200r()),
        ("kuka_kr6_r700_sixx", Parameters::kuka_kr6_r700_sixx()),
        ("staubli_tx40", Parameters::staubli_tx40()),
        ("staubli_rx160", Parameters::staubli_rx160()),
        ("irb2600_12_165", Parameters::irb2600_12_165()),
        ("irb4600_60_205", Parameters::irb4600_60_205()),
    ]
}

/// Robot zoo: presets; presets with random signs/offsets; random geometry (b != 0, a2 != 0,
/// negative a1, zero lengths now and then).
pub fn gen_params(r: &mut Rng) -> (String, Parameters) {
    let ps = presets();
    let kind = r.below(10);
    let (name, mut p) = ps[r.below(ps.len())].clone();
    let mut fam = String::from("preset");
    if kind >= 3 {
        fam = "preset+signs+offsets".into();
        for k in 0..6 {
            p.sign_corrections[k] = if r.chance(0.5) { 1 } else { -1 };
            // offsets beyond a full turn now and then: the normalisation loops then need more than one pass
            if r.chance(0.5) { p.offsets[k] = if r.chance(0.2) { if r.chance(0.3) { r.range(-5.0 * PI, 5.0 * PI) } else { r.range(-3.0 * PI, 3.0 * PI) } } else { r.range(-PI, PI) }; }
        }
    }
    if kind >= 6 {
        fam = "random-geometry".into();
        p.a1 = if r.chance(0.15) { 0.0 } else { r.range(-0.3, 0.5) };
        p.a2 = if r.chance(0.25) { 0.0 } else { r.range(-0.3, 0.3) };
        p.b = if r.chance(0.3) { 0.0 } else { r.range(-0.3, 0.3) };
        p.c1 = r.range(0.0, 1.0);
        p.c2 = r.range(0.2, 1.2);
        p.c3 = r.range(0.2, 1.2);
        p.c4 = if r.chance(0.1) { 0.0 } else { r.range(0.02, 0.4) };
        // lengths of the "wrong" sign: the formulas are written with atan2 and must not assume positive lengths
        if r.chance(0.12) { p.c3 = -p.c3; fam = "random-geometry/neg-c3".into(); }
        else if r.chance(0.08) { p.c4 = -p.c4; fam = "random-geometry/neg-c4".into(); }
        else if r.chance(0.08) { p.c1 = -p.c1; fam = "random-geometry/neg-c1".into(); }
        else if r.chance(0.08) { p.c2 = -p.c2; fam = "random-geometry/neg-c2".into(); }
    }
    let _ = name;
    (fam, p)
}

pub fn rand_joints(r: &mut Rng, span: f64) -> Joints {
    [r.range(-span, span), r.range(-span, span), r.range(-span, span), r.range(-span, span), r.range(-span, span), r.range(-span, span)]
}

pub fn rand_quat(r: &mut Rng) -> UnitQuaternion<f64> {
    let q = Quaternion::new(r.normal(), r.normal(), r.normal(), r.normal());
    UnitQuaternion::from_quaternion(q)
}

pub fn rand_iso(r: &mut Rng, reach: f64) -> Pose {
    Isometry3::from_parts(Translation3::new(r.range(-reach, reach), r.range(-reach, reach), r.range(-reach, reach)), rand_quat(r))
}

/// tool on the flange axis: translation along z, rotation about z
pub fn axial_iso(r: &mut Rng) -> Pose {
    Isometry3::from_parts(Translation3::new(0.0, 0.0, r.range(0.0, 0.4)),
        UnitQuaternion::from_axis_angle(&Vector3::z_axis(), if r.chance(0.5) { 0.0 } else { r.range(-PI, PI) }))
}

#[derive(Clone)]
pub enum Wrap { T(Pose), B(Pose), F(Pose), P(f64, usize, usize) }

/// A kinematic object = robot + optional constraints + wrapper stack (innermost first).
#[derive(Clone)]
pub struct KSpec {
    pub p: Parameters,
    pub cons: Option<([f64; 6], [f64; 6], f64)>,
    pub stack: Vec<Wrap>,
}

/// A `Constraints` value for the limits (f, t): built directly, or reached through `update_range` from an object with
/// other limits (both sides changed, only `to` changed, only `from` changed, two updates in a row). The history is
/// chosen from the bits of the limits, so a case line always rebuilds the same object; the result must not depend on it.
/// 0 = history chosen from the bits of the limits; m + 1 = history m forced (directed families)
pub static FORCE_HISTORY: std::sync::atomic::AtomicU64 = std::sync::atomic::AtomicU64::new(0);

pub fn history_mode(f: &Joints, t: &Joints) -> u64 {
    let forced = FORCE_HISTORY.load(std::sync::atomic::Ordering::Relaxed);
    if forced > 0 { return forced - 1; }
    (f[0].to_bits() ^ t[1].to_bits().rotate_left(7) ^ f[4].to_bits().rotate_left(13)) % 10
}

pub fn make_constraints(f: &Joints, t: &Joints, w: f64) -> Constraints {
    let mode = history_mode(f, t);
    let shift = |x: &Joints, d: f64| -> Joints { let mut y = *x; for k in 0..6 { if y[k].is_finite() { y[k] += d * (1.0 + k as f64 * 0.1); } } y };
    // limits on the whole-degree lattice: every other one of them goes through the degrees constructor (which converts
    // limits and nothing else; the sorting weight is not an angle)
    let lattice = |x: f64| x.is_finite() && x.to_degrees().round().to_radians() == x;
    if mode % 2 == 0 && (0..6).all(|k| lattice(f[k]) && lattice(t[k])) {
        let d = |k: usize| f[k].to_degrees().round()..=t[k].to_degrees().round();
        return Constraints::from_degrees([d(0), d(1), d(2), d(3), d(4), d(5)], w);
    }
    match mode {
        0..=3 => Constraints::new(*f, *t, w),
        4 => { let mut c = Constraints::new(shift(f, -0.4), shift(t, 0.3), w); c.update_range(*f, *t); c }
        5 => { let mut c = Constraints::new(*f, shift(t, -0.35), w); c.update_range(*f, *t); c }
        6 => { let mut c = Constraints::new(shift(f, 0.45), *t, w); c.update_range(*f, *t); c }
        7 => { let mut c = Constraints::new(shift(f, 0.2), shift(t, 0.2), w); c.update_range(shift(f, -0.7), *t); c.update_range(*f, *t); c }
        // narrowed from a much wider range / from an unconstrained object
        8 => { let mut c = Constraints::new(shift(f, -2.0), shift(t, 2.0), w); c.update_range(*f, *t); c }
        _ => { let mut c = Constraints::new(*f, *f, w); c.update_range(*f, *t); c }
    }
}

/// construction route of the solver's `Parameters` (0: through `URDFParameters::parameters()`), chosen from their bits
pub fn route_of(p: &Parameters) -> u64 {
    (p.c1.to_bits() ^ p.offsets[2].to_bits().rotate_left(9) ^ p.c4.to_bits().rotate_left(21)) % 3
}

impl KSpec {
    pub fn bare(p: Parameters) -> Self { KSpec { p, cons: None, stack: vec![] } }
    pub fn core(&self) -> OPWKinematics {
        // a third of the robots get their Parameters through URDFParameters::parameters(), another part of the limited
        // ones are built by URDFParameters::to_robot(): the route is chosen from the bits of the parameters and must not matter
        let route = route_of(&self.p);
        let up = |f: [f64; 6], t: [f64; 6]| rs_opw_kinematics::urdf::URDFParameters { a1: self.p.a1, a2: self.p.a2, b: self.p.b, c1: self.p.c1, c2: self.p.c2,
            c3: self.p.c3, c4: self.p.c4, sign_corrections: self.p.sign_corrections, from: f, to: t, dof: self.p.dof };
        let params = if route == 0 { up([0.0; 6], [0.0; 6]).parameters(&self.p.offsets) } else { self.p };
        match &self.cons {
            Some((f, t, w)) => {
                if route == 1 && (f[0].to_bits() ^ t[1].to_bits().rotate_left(7) ^ f[4].to_bits().rotate_left(13)) % 10 < 4 {
                    up(*f, *t).to_robot(*w, &self.p.offsets)
                } else { OPWKinematics::new_with_constraints(params, make_constraints(f, t, *w)) }
            }
            None => OPWKinematics::new(params),
        }
    }
    pub fn build(&self) -> Arc<dyn Kinematics> {
        let mut k: Arc<dyn Kinematics> = Arc::new(self.core());
        for w in &self.stack {
            k = match w {
                Wrap::T(t) => Arc::new(Tool { robot: k, tool: *t }),
                Wrap::B(b) => Arc::new(Base { robot: k, base: *b }),
                Wrap::F(f) => Arc::new(Frame { robot: k, frame: *f }),
                Wrap::P(s, d, c) => Arc::new(Parallelogram { robot: k, scaling: *s, driven: *d, coupled: *c }),
            };
        }
        k
    }
    pub fn encode(&self, l: &mut Line) {
        let p = &self.p;
        l.f(p.a1).f(p.a2).f(p.b).f(p.c1).f(p.c2).f(p.c3).f(p.c4);
        l.j6(&p.offsets);
        for s in p.sign_corrections { l.f(s as f64); }
        l.i(p.dof as i64);
        match &self.cons {
            None => { l.n(0); }
            Some((f, t, w)) => { l.n(1).j6(f).j6(t).f(*w); }
        }
        l.n(self.stack.len());
        for w in &self.stack {
            match w {
                Wrap::T(t) => { l.s("T").iso(t); }
                Wrap::B(t) => { l.s("B").iso(t); }
                Wrap::F(t) => { l.s("F").iso(t); }
                Wrap::P(s, d, c) => { l.s("P").f(*s).n(*d).n(*c); }
            }
        }
    }
}

pub fn gen_stack(r: &mut Rng, depth: usize, axial: bool, allow_para: bool) -> Vec<Wrap> {
    let mut v = vec![];
    for _ in 0..depth {
        let iso = if axial { axial_iso(r) } else { rand_iso(r, 0.5) };
        let k = r.below(if allow_para { 4 } else { 3 });
        v.push(match k {
            0 => Wrap::T(iso),
            1 => Wrap::B(if axial { rand_iso(r, 0.5) } else { iso }),
            2 => Wrap::F(iso),
            _ => {
                let d = r.below(6);
                let mut c = r.below(6);
                if c == d { c = (c + 1) % 6; }
                Wrap::P(r.range(-2.0, 2.0), d, c)
            }
        });
    }
    v
}

/// constraint families: none, wide, narrow window around `around`, wrapping, from == to on some joints
pub fn gen_cons(r: &mut Rng, around: Option<&Joints>) -> (String, Option<([f64; 6], [f64; 6], f64)>) {
    let w = *r.pick(&[0.0, 1.0, 0.3, 0.5, 0.0]);
    match r.below(10) {
        0 => ("none".into(), None),
        8 => {
            // whole degrees (as the degrees constructor and robot descriptions give them), any order incl. wrap-around
            let mut f = [0.0; 6]; let mut t = [0.0; 6];
            let wrap = r.chance(0.5);
            for k in 0..6 {
                let (a, b) = (r.below(175) as f64 + 5.0, r.below(175) as f64 + 5.0);
                if wrap && r.chance(0.5) { f[k] = a.to_radians(); t[k] = (-b).to_radians(); } else { f[k] = (-a).to_radians(); t[k] = b.to_radians(); }
            }
            let w = if w == 0.0 && r.chance(0.5) { 0.7 } else { w };
            (if wrap { "degree-lattice/wrapping".into() } else { "degree-lattice".into() }, Some((f, t, w)))
        }
        9 => {
            // 'from' exceeds 'to' by exactly a whole number of turns on one joint: a single admissible angle (tolerance 0)
            let mut f = [0.0; 6]; let mut t = [0.0; 6];
            for k in 0..6 { f[k] = r.range(-PI, -1.0); t[k] = r.range(1.0, PI); }
            let k = r.below(6);
            let (a, b) = *r.pick(&[(PI, -PI), (2.0 * PI, 0.0), (0.0, -2.0 * PI), (2.0 * PI, -2.0 * PI), (PI / 2.0 + 2.0 * PI, PI / 2.0), (4.0 * PI, 0.0)]);
            f[k] = a; t[k] = b;
            ("whole-turns-apart".into(), Some((f, t, w)))
        }
        7 => {
            // sliver arcs: limits a fraction of a nanoradian (down to one ulp) apart on some joints -- still limits
            let c = around.cloned().unwrap_or([0.0; 6]);
            let mut f = [0.0; 6]; let mut t = [0.0; 6];
            for k in 0..6 { f[k] = r.range(-PI, -1.0); t[k] = r.range(1.0, PI); }
            for _ in 0..(1 + r.below(2)) {
                let k = r.below(6);
                let at = if r.chance(0.5) { c[k] } else { r.range(-2.0, 2.0) };
                let width = *r.pick(&[5e-10, 1e-12, 2e-16, 1e-16, 0.0]);
                f[k] = at - width * 0.4;
                t[k] = at + width * 0.6;
                // at least one ulp wide, never equal (from == to means "no limit")
                if !(f[k] < t[k]) { t[k] = next_up(f[k]); }
            }
            ("sliver".into(), Some((f, t, w)))
        }
        1 => {
            let mut f = [0.0; 6]; let mut t = [0.0; 6];
            for k in 0..6 { f[k] = r.range(-PI, 0.0); t[k] = r.range(0.0, PI); }
            ("wide".into(), Some((f, t, w)))
        }
        6 => {
            // a continuously rotating joint declared as -inf..+inf (centre NaN, tolerance inf)
            let mut f = [0.0; 6]; let mut t = [0.0; 6];
            for k in 0..6 { f[k] = r.range(-PI, -1.0); t[k] = r.range(1.0, PI); }
            let k = *r.pick(&[5usize, 5, 3, 0]);
            f[k] = f64::NEG_INFINITY; t[k] = f64::INFINITY;
            ("unlimited-joint".into(), Some((f, t, w)))
        }
        2 => {
            let c = around.cloned().unwrap_or([0.0; 6]);
            let mut f = [0.0; 6]; let mut t = [0.0; 6];
            for k in 0..6 { let h = r.range(0.05, 0.6); f[k] = c[k] - h; t[k] = c[k] + h; }
            ("narrow".into(), Some((f, t, w)))
        }
        3 => {
            let mut f = [0.0; 6]; let mut t = [0.0; 6];
            for k in 0..6 { f[k] = r.range(-2.0 * PI, 2.0 * PI); t[k] = r.range(-2.0 * PI, 2.0 * PI); }
            ("any-order".into(), Some((f, t, w)))
        }
        4 => {
            let mut f = [0.0; 6]; let mut t = [0.0; 6];
            for k in 0..6 {
                if r.chance(0.5) { let x = r.range(-PI, PI); f[k] = x; t[k] = x; }
                else { f[k] = r.range(-PI, 0.0); t[k] = r.range(0.0, PI); }
            }
            ("some-equal".into(), Some((f, t, w)))
        }
        _ => {
            let mut f = [0.0; 6]; let mut t = [0.0; 6];
            for k in 0..6 { f[k] = r.range(0.0, PI); t[k] = r.range(-PI, 0.0); }
            ("wrapping".into(), Some((f, t, w)))
        }
    }
}

pub fn next_up(x: f64) -> f64 {
    if x == 0.0 { return f64::from_bits(1); }
    if x > 0.0 { f64::from_bits(x.to_bits() + 1) } else { f64::from_bits(x.to_bits() - 1) }
}

pub fn catch<T>(f: impl FnOnce() -> T + std::panic::UnwindSafe) -> Option<T> {
    std::panic::catch_unwind(f).ok()
}
