//! Case generators for constraints (C07), sampler (C18), frames (C17), Jacobian (C15).
use crate::gen::*;
use rs_opw_kinematics::constraints::Constraints;
use rs_opw_kinematics::kinematic_traits::Joints;
use std::f64::consts::PI;

fn emit_c07(fam: &str, ctor: usize, f: &Joints, t: &Joints, w: f64, angles: &[Joints]) {
    // ctor 0: new (radians); 1: from_degrees (f, t in degrees); 2: new(dummy) then update_range
    let c = match ctor {
        0 => Constraints::new(*f, *t, w),
        1 => Constraints::from_degrees([f[0]..=t[0], f[1]..=t[1], f[2]..=t[2], f[3]..=t[3], f[4]..=t[4], f[5]..=t[5]], w),
        2 => { let mut c = Constraints::new([0.1; 6], [0.2; 6], w); c.update_range(*f, *t); c }
        // an unconstrained object (from == to) whose `from` equals the new `from`
        _ => { let mut c = Constraints::new(*f, *f, w); c.update_range(*f, *t); c }
    };
    let mut l = Line::new("C07", fam, "c07");
    l.n(ctor).j6(f).j6(t).f(w).n(angles.len());
    for a in angles { l.j6(a); }
    l.arrow();
    l.j6(&c.from).j6(&c.to).j6(&c.centers).j6(&c.tolerances).f(c.sorting_weight);
    // per angle vector: compliant, per-joint inside_bounds (hook), filter keeps it
    let kept = c.filter(&angles.to_vec());
    l.n(kept.len());
    for a in angles {
        l.b(c.compliant(a));
        for k in 0..6 { l.b(Constraints::verif_inside_bounds(a[k], c.centers[k], c.tolerances[k])); }
    }
    // the reported centres are themselves accepted
    l.b(c.compliant(&c.centers));
    l.emit();
}

pub fn c07(seed: u64, n: usize) {
    let mut r = Rng::new(seed ^ 0xC07);
    // exhaustive lattice (step in degrees) over [-720, 720] for from, to, angle
    let step = if n >= 100000 { 5.0 } else if n >= 10000 { 15.0 } else { 45.0 };
    let m = (1440.0 / step) as usize + 1;
    let lat: Vec<f64> = (0..m).map(|i| -720.0 + step * i as f64).collect();
    // angle vectors: all lattice values in each slot (same value in the six slots shifted cyclically)
    let ang_deg: Vec<Joints> = (0..m).map(|i| std::array::from_fn(|k| lat[(i + 7 * k) % m])).collect();
    let ang_rad: Vec<Joints> = ang_deg.iter().map(|a| a.map(|x| x.to_radians())).collect();
    let mut idx = 0usize;
    for fi in 0..m {
        // six (from, to) pairs per line: to runs over the lattice in groups of six
        let mut ti = 0;
        while ti < m {
            let f: Joints = [lat[fi]; 6];
            let t: Joints = std::array::from_fn(|k| lat[(ti + k) % m]);
            let ctor = idx % 3; idx += 1;
            match ctor {
                1 => emit_c07("lattice/degrees", 1, &f, &t, 0.0, &ang_rad),
                c => emit_c07("lattice/radians", c, &f.map(|x| x.to_radians()), &t.map(|x| x.to_radians()), 1.0, &ang_rad),
            }
            ti += 6;
        }
    }
    // limits one ulp apart (a sliver arc, not "unconstrained") and update_range on an unconstrained object
    for k in 0..40usize {
        let base = [0.25, -0.5, 0.75, 0.1, -0.9, 0.3f64];
        let f: Joints = std::array::from_fn(|i| base[(i + k) % 6] * if k % 2 == 0 { 1.0 } else { 0.5 });
        let t: Joints = std::array::from_fn(|i| f64::from_bits(f[i].to_bits().wrapping_add(if f[i] > 0.0 { 1 } else { 0 }).max(f[i].to_bits())));
        let t: Joints = std::array::from_fn(|i| if t[i] > f[i] { t[i] } else { f64::from_bits(f[i].to_bits() - 1) });
        let angles: Vec<Joints> = (0..10).map(|_| rand_joints(&mut r, 3.0)).collect();
        emit_c07("sliver/one-ulp", k % 3, &f, &t, 0.5, &angles);
    }
    for _ in 0..40 {
        let f = rand_joints(&mut r, 2.0);
        let mut t = f; for k in 0..6 { t[k] = f[k] + r.range(0.1, 2.0); }
        let angles: Vec<Joints> = (0..20).map(|_| rand_joints(&mut r, 4.0)).collect();
        emit_c07("update/from-unconstrained-same-from", 3, &f, &t, 0.5, &angles);
    }
    // random reals
    for _ in 0..(n / 20).max(20) {
        let f = rand_joints(&mut r, 4.0 * PI);
        let mut t = rand_joints(&mut r, 4.0 * PI);
        let fam = match r.below(5) {
            0 => { for k in 0..6 { if r.chance(0.5) { t[k] = f[k]; } } "random/some-equal" }
            1 => { for k in 0..6 { t[k] = f[k] + r.range(2.0 * PI, 4.0 * PI); } "random/full-turn" }
            2 => { for k in 0..6 { t[k] = f[k] + r.range(0.01, 0.5); } "random/narrow" }
            _ => "random/any",
        };
        let mut angles: Vec<Joints> = (0..20).map(|_| rand_joints(&mut r, 4.0 * PI)).collect();
        // whole-turn shifted copies
        let base = angles[0];
        for k in [-2.0, -1.0, 1.0, 2.0] { angles.push(base.map(|x| x + 2.0 * PI * k)); }
        emit_c07(fam, r.below(3).min(2) * 0 + [0usize, 2][r.below(2)], &f, &t, r.unit(), &angles);
    }
    // signed zeros: -0.0 == 0.0, so (-0.0, 0.0) is "from == to" (unconstrained), as for symmetric limits [-L, L] with L = 0
    {
        let ang: Vec<Joints> = (0..20).map(|_| rand_joints(&mut r, 7.0)).collect();
        for (a, b) in [(-0.0f64, 0.0f64), (0.0, -0.0), (-0.0, -0.0)] {
            let mut f = [0.3; 6]; let mut t = [0.9; 6];
            f[0] = a; t[0] = b; f[4] = b; t[4] = a;
            for ctor in [0usize, 2, 3] { emit_c07("signed-zero", ctor, &f, &t, 0.0, &ang); }
            emit_c07("signed-zero/degrees", 1, &f.map(|x| x.to_degrees()), &t.map(|x| x.to_degrees()), 0.0, &ang);
        }
    }
    // the URDF loader turns <limit> elements (radians, ${radians(whole or fractional degrees)}) into these limits
    crate::props_file::urdf_cases("C07", &mut r, (n / 400).max(30));
}
// ---------------------------------------------------------------- C18 sampler
pub fn c18(seed: u64, n: usize) {
    let mut r = Rng::new(seed ^ 0xC18);
    let draws = if n >= 5000 { 1000 } else { 200 };
    let sets = (n / 5).max(40);
    for i in 0..sets {
        let mut f = [0.0; 6]; let mut t = [0.0; 6];
        let fam = match i % 8 {
            0 if (i / 8) % 2 == 1 => {
                // whole degrees in any order (wrap-around when from > to): half of these go through `from_degrees`
                for k in 0..6 { f[k] = (r.below(361) as f64 - 180.0).to_radians(); t[k] = (r.below(361) as f64 - 180.0).to_radians(); if f[k] == t[k] { t[k] = (f[k].to_degrees().round() + 7.0).to_radians(); } }
                "degree-lattice"
            }
            0 => { for k in 0..6 { f[k] = r.range(-2.0 * PI, 2.0 * PI); t[k] = r.range(-2.0 * PI, 2.0 * PI); } "any" }
            1 => { for k in 0..6 { f[k] = r.range(0.5, 2.0 * PI); t[k] = r.range(0.0, f[k] - 0.01); } "wrap-both-positive" }
            2 => { for k in 0..6 { t[k] = r.range(-2.0 * PI, -0.5); f[k] = r.range(t[k] + 0.01, 0.0); } "wrap-both-negative" }
            3 => { for k in 0..6 { f[k] = r.range(0.01, 2.0 * PI); t[k] = r.range(-2.0 * PI, -0.01); } "wrap-straddling-zero" }
            4 => { for k in 0..6 { f[k] = r.range(-2.0 * PI, 2.0 * PI); t[k] = if r.chance(0.5) { f[k] } else { r.range(-2.0 * PI, 2.0 * PI) }; } "some-equal" }
            5 => { for k in 0..6 { f[k] = r.range(-2.0 * PI, 0.0); t[k] = f[k] + r.range(1e-6, 4.0 * PI); } "ordinary" }
            6 => { for k in 0..6 { f[k] = r.range(PI, 2.0 * PI); t[k] = f[k] - r.range(2.0 * PI + 0.01, 3.9 * PI).min(f[k] + 2.0 * PI); } "wrap-over-a-turn" }
            _ => { for k in 0..6 { f[k] = *r.pick(&[5.0, 6.0, 2.0 * PI, 3.0, 1.0]); t[k] = *r.pick(&[4.0, 0.5, 0.0, -1.0, 2.5]); if (f[k] - t[k] - 2.0 * PI).abs() < 1e-9 { t[k] += 0.1; } } "special" }
        };
        // keep away from limits that are congruent modulo a turn (zero-width arcs; rounding decides)
        for k in 0..6 {
            let d = (t[k] - f[k]).rem_euclid(2.0 * PI);
            if f[k] != t[k] && (d < 1e-6 || 2.0 * PI - d < 1e-6) { t[k] += 0.01; }
        }
        // ... except for exactly representable zero-width arcs (from = to + whole turns): only `from` is compliant
        if i % 16 == 7 { f[0] = 2.0 * PI; t[0] = 0.0; f[3] = PI; t[3] = -PI; }
        // arcs of positive width below the machine epsilon (possible for |limits| < 1): still arcs, not "no limit".
        // "exact": from = 0, so centre = tolerance = to/2 and every comparison is exact. "inexact": the midpoint of a
        // one-ulp arc is not representable, the centre rounds onto an end and the other end is rejected (finding D22).
        let mut fam = String::from(fam);
        if i % 8 == 5 {
            let exact = (i / 8) % 2 == 0;
            for k in [1usize, 4] {
                f[k] = if exact { 0.0 } else { *r.pick(&[1e-3, -0.25, 0.5]) };
                t[k] = f[k] + *r.pick(&[1e-16, 2e-17, 1e-12]);
                if !(f[k] < t[k]) { t[k] = crate::gen::next_up(f[k]); }
            }
            fam.push_str(if exact { "/sub-epsilon-exact" } else { "/sub-epsilon-inexact" });
        }
        let fam = fam.as_str();
        let c = crate::gen::make_constraints(&f, &t, 0.0);
        let mut l = Line::new("C18", fam, "c18");
        l.j6(&f).j6(&t).arrow();
        let out = catch(std::panic::AssertUnwindSafe(|| {
            let mut v = Vec::with_capacity(draws);
            for _ in 0..draws { let a = c.random_angles(); v.push((a, c.compliant(&a))); }
            v
        }));
        match out {
            Some(v) => { l.n(v.len()); for (a, ok) in v { l.j6(&a).b(ok); } }
            None => { l.s("panic"); }
        }
        l.emit();
    }
}

// ---------------------------------------------------------------- C17 frames
use nalgebra::{Isometry3, Point3, Translation3, Vector3};
use rs_opw_kinematics::frame::{ColinearPoints, Frame, NotIsometry};

fn pt(l: &mut Line, p: &Point3<f64>) { l.f(p.x).f(p.y).f(p.z); }

fn emit_frame(fam: &str, p: [Point3<f64>; 3], q: [Point3<f64>; 3], g: Option<&Isometry3<f64>>) {
    let mut l = Line::new("C17", fam, "frame");
    for x in &p { pt(&mut l, x); }
    for x in &q { pt(&mut l, x); }
    match g { Some(g) => { l.n(1).iso(g); } None => { l.n(0); } }
    l.arrow();
    match catch(std::panic::AssertUnwindSafe(|| Frame::frame(p[0], p[1], p[2], q[0], q[1], q[2]))) {
        None => { l.s("panic"); }
        Some(Ok(iso)) => { l.s("ok").iso(&iso); }
        Some(Err(e)) => {
            let kind = if e.downcast_ref::<NotIsometry>().is_some() { 0 }
                else if let Some(c) = e.downcast_ref::<ColinearPoints>() { if c.source { 1 } else { 2 } } else { 9 };
            l.s("err").n(kind);
        }
    }
    l.emit();
}

pub fn c17(seed: u64, n: usize) {
    let mut r = Rng::new(seed ^ 0xC17);
    for i in 0..n {
        let scale = *r.pick(&[1e-3, 1e-2, 0.1, 1.0, 1.0, 10.0, 100.0, 1e3]);
        let off = if r.chance(0.3) { Vector3::new(r.range(-1e3, 1e3), r.range(-1e3, 1e3), r.range(-1e3, 1e3)) } else { Vector3::zeros() };
        let rp = |r: &mut Rng| Point3::from(Vector3::new(r.range(-1.0, 1.0), r.range(-1.0, 1.0), r.range(-1.0, 1.0)) * scale + off);
        let g = rand_iso(&mut r, 2.0 * scale);
        match i % 10 {
            0..=4 => {
                let p = [rp(&mut r), rp(&mut r), rp(&mut r)];
                let q = [g * p[0], g * p[1], g * p[2]];
                emit_frame(&format!("rigid/scale{:.0e}", scale), p, q, Some(&g));
            }
            5 => {
                // nearly collinear source: sine of the angle down to 1e-6
                let p1 = rp(&mut r); let d = Vector3::new(r.range(-1.0, 1.0), r.range(-1.0, 1.0), r.range(-1.0, 1.0)).normalize() * scale;
                let n0 = d.cross(&Vector3::new(0.3, -0.7, 0.5)).normalize() * scale;
                let s = *r.pick(&[1e-1, 1e-2, 1e-3, 1e-4, 1e-6]);
                let p = [p1, p1 + d, p1 + d * 2.3 + n0 * s];
                let q = [g * p[0], g * p[1], g * p[2]];
                emit_frame(&format!("nearly-collinear/{:.0e}", s), p, q, Some(&g));
            }
            6 => {
                // exactly collinear source (representable): p3 = p1 + 2 (p2 - p1) on a binary grid
                let gr = |r: &mut Rng| (r.below(64) as f64 - 32.0) / 8.0;
                let p1 = Point3::new(gr(&mut r), gr(&mut r), gr(&mut r));
                let d = Vector3::new(gr(&mut r), gr(&mut r), gr(&mut r) + 0.125);
                let p = [p1, p1 + d, p1 + d * 2.0];
                // images with the same mutual distances but not collinear cannot exist; use the same collinear triple moved by a translation
                let tr = Vector3::new(gr(&mut r), gr(&mut r), gr(&mut r));
                let q = [p[0] + tr, p[1] + tr, p[2] + tr];
                emit_frame("collinear-source", p, q, None);
            }
            7 => {
                // collinear target with matching distances: source is a degenerate... use near-collinear source within tolerance
                let gr = |r: &mut Rng| (r.below(64) as f64 - 32.0) / 8.0;
                let q1 = Point3::new(gr(&mut r), gr(&mut r), gr(&mut r));
                let d = Vector3::new(1.0, 0.0, 0.0) * (1.0 + r.below(4) as f64);
                let q = [q1, q1 + d, q1 + d * 2.0];
                // source: same lengths, bent by 1 mm out of line (distance differences far below 5 mm)
                let p1 = Point3::new(gr(&mut r), gr(&mut r), gr(&mut r));
                let e = Vector3::new(0.0, 1.0, 0.0) * d.norm();
                let p = [p1, p1 + e, p1 + e * 2.0 + Vector3::new(0.001, 0.0, 0.0)];
                emit_frame("collinear-target", p, q, None);
            }
            _ => {
                // one image moved along an edge by 1..9 mm (kept 1 % away from the 5 mm guard)
                let p = [rp(&mut r), rp(&mut r), rp(&mut r)];
                let mut q = [g * p[0], g * p[1], g * p[2]];
                let mm = *r.pick(&[1.0, 2.0, 3.0, 4.0, 4.9, 5.1, 6.0, 7.0, 9.0]) * 0.001;
                let which = r.below(3);
                let other = (which + 1 + r.below(2)) % 3;
                let edge = (q[which] - q[other]).normalize();
                q[which] = q[which] + edge * mm;
                emit_frame(&format!("perturbed/{:.1}mm", mm * 1000.0), p, q, None);
            }
        }
        if i % 5 == 0 {
            let p = rp(&mut r); let q = rp(&mut r);
            let iso = Frame::translation(p, q);
            let mut l = Line::new("C17", "translation", "frame_tr");
            pt(&mut l, &p); pt(&mut l, &q); l.arrow().iso(&iso); l.emit();
        }
        if i % 3 == 0 { fwd_tr_cases("C17", &mut r, 1); }
        if i % 25 == 7 {
            // exact half turns about a coordinate axis (symmetric rotation matrices), images exactly representable
            let gr = |r: &mut Rng| (r.below(64) as f64 - 32.0) / 8.0;
            let p = [Point3::new(gr(&mut r), gr(&mut r), gr(&mut r) + 0.125), Point3::new(gr(&mut r) + 0.25, gr(&mut r), gr(&mut r)), Point3::new(gr(&mut r), gr(&mut r) + 0.5, gr(&mut r))];
            let tr = Vector3::new(gr(&mut r), gr(&mut r), gr(&mut r));
            let axis = r.below(3);
            let flip = |v: &Point3<f64>| match axis { 0 => Point3::new(v.x, -v.y, -v.z), 1 => Point3::new(-v.x, v.y, -v.z), _ => Point3::new(-v.x, -v.y, v.z) } + tr;
            let q = [flip(&p[0]), flip(&p[1]), flip(&p[2])];
            let ax = match axis { 0 => Vector3::x_axis(), 1 => Vector3::y_axis(), _ => Vector3::z_axis() };
            let g = Isometry3::from_parts(Translation3::from(tr), nalgebra::UnitQuaternion::from_axis_angle(&ax, PI));
            if (p[1] - p[0]).cross(&(p[2] - p[0])).norm() > 1e-3 { emit_frame("half-turn-exact", p, q, Some(&g)); }
        }
        if i % 25 == 13 {
            // tiny but well-shaped triangles at the origin (legs 1e-8 .. 1e-6): not collinear, however small the area
            let leg = *r.pick(&[1e-8, 3e-8, 1e-7, 1e-6]);
            let p = [Point3::new(0.0, 0.0, 0.0), Point3::new(leg, 0.0, 0.0), Point3::new(0.0, leg, 0.0)];
            // images under a quarter turn about z and an exactly representable translation: exact in floating point
            let tr = Vector3::new(0.5, -0.25, 0.125);
            let rot = |v: &Point3<f64>| Point3::new(-v.y, v.x, v.z) + tr;
            let q = [rot(&p[0]), rot(&p[1]), rot(&p[2])];
            let g = Isometry3::from_parts(Translation3::from(tr), nalgebra::UnitQuaternion::from_axis_angle(&Vector3::z_axis(), PI / 2.0));
            emit_frame("tiny-at-origin", p, q, Some(&g));
        }
    }
}

/// `Frame::forward_transformed` cases
pub fn fwd_tr_cases(prop: &str, r: &mut Rng, n: usize) {
    for _ in 0..n {
            let (mut rfam, prm) = gen_params(r);
            let mut ks = KSpec::bare(prm);
            // the robot inside the frame may itself be wrapped (a frame in a frame, a tool, a base)
            if r.chance(0.4) { let d = 1 + r.below(2); ks.stack = crate::gen::gen_stack(r, d, false, false); rfam.push_str("/nested"); }
            let fr = Isometry3::from_parts(Translation3::new(r.range(-0.05, 0.05), r.range(-0.05, 0.05), r.range(-0.05, 0.05)),
                                           nalgebra::UnitQuaternion::from_scaled_axis(Vector3::new(r.range(-0.05, 0.05), r.range(-0.05, 0.05), r.range(-0.05, 0.05))));
            let f = Frame { robot: ks.build(), frame: fr };
            let qs = rand_joints(r, PI);
            let prev = if r.chance(0.5) { qs } else { rand_joints(r, PI) };
            let mut l = Line::new(prop, &format!("{}/forward_transformed", rfam), "fwd_tr");
            ks.encode(&mut l);
            l.iso(&fr).j6(&qs).j6(&prev).arrow();
            match catch(std::panic::AssertUnwindSafe(|| f.forward_transformed(&qs, &prev))) {
                Some((sols, pose)) => { l.sols(&sols).iso(&pose); } None => { l.s("panic"); } }
            l.emit();
    }
}

// ---------------------------------------------------------------- C15 Jacobian
use nalgebra::{Matrix6, Vector6};
use rs_opw_kinematics::jacobian::Jacobian;
use rs_opw_kinematics::kinematic_traits::Kinematics;
use rs_opw_kinematics::kinematics_impl::OPWKinematics;

struct Dyn(std::sync::Arc<dyn Kinematics>);
impl Kinematics for Dyn {
    fn inverse(&self, p: &rs_opw_kinematics::kinematic_traits::Pose) -> rs_opw_kinematics::kinematic_traits::Solutions { self.0.inverse(p) }
    fn inverse_continuing(&self, p: &rs_opw_kinematics::kinematic_traits::Pose, q: &Joints) -> rs_opw_kinematics::kinematic_traits::Solutions { self.0.inverse_continuing(p, q) }
    fn forward(&self, q: &Joints) -> rs_opw_kinematics::kinematic_traits::Pose { self.0.forward(q) }
    fn inverse_5dof(&self, p: &rs_opw_kinematics::kinematic_traits::Pose, j6: f64) -> rs_opw_kinematics::kinematic_traits::Solutions { self.0.inverse_5dof(p, j6) }
    fn inverse_continuing_5dof(&self, p: &rs_opw_kinematics::kinematic_traits::Pose, q: &Joints) -> rs_opw_kinematics::kinematic_traits::Solutions { self.0.inverse_continuing_5dof(p, q) }
    fn constraints(&self) -> &Option<Constraints> { self.0.constraints() }
    fn kinematic_singularity(&self, q: &Joints) -> Option<rs_opw_kinematics::kinematic_traits::Singularity> { self.0.kinematic_singularity(q) }
    fn forward_with_joint_poses(&self, q: &Joints) -> [rs_opw_kinematics::kinematic_traits::Pose; 6] { self.0.forward_with_joint_poses(q) }
}

fn v6(l: &mut Line, v: &[f64; 6]) { for x in v { l.f(*x); } }

pub fn c15(seed: u64, n: usize) {
    let mut r = Rng::new(seed ^ 0xC15);
    let _ = OPWKinematics::new;
    for i in 0..n {
        let (rfam, p) = gen_params(&mut r);
        let mut ks = KSpec::bare(p);
        let mut fam = rfam.clone();
        if i % 3 == 1 { let d = 1 + r.below(2); ks.stack = gen_stack(&mut r, d, false, false); fam.push_str("/wrapped"); }
        if i % 7 == 3 { let d = r.below(6); let mut c = r.below(6); if c == d { c = (c + 1) % 6; } ks.stack.push(Wrap::P(r.range(-1.0, 1.0), d, c)); fam.push_str("/para"); }
        let mut q = rand_joints(&mut r, PI);
        let eps = *r.pick(&[1e-7, 1e-6, 1e-5]);
        if i % 5 == 2 {
            // a robot with joint limits, the joint vector inside them; every third of these with one joint less than a
            // differencing step away from a limit (the perturbed vector leaves the range: the Jacobian must not care)
            let mut f = [0.0; 6]; let mut t = [0.0; 6];
            for k in 0..6 { f[k] = q[k] - r.range(0.05, 1.5); t[k] = q[k] + r.range(0.05, 1.5); }
            fam.push_str("/limits");
            if r.chance(0.5) { let k = r.below(6); if r.chance(0.7) { t[k] = q[k] + eps * 0.4; } else { f[k] = q[k] - eps * 0.4; } fam.push_str("/at-limit"); }
            ks.cons = Some((f, t, *r.pick(&[0.0, 0.5])));
        }
        let robot = Dyn(ks.build());
        if i % 6 == 5 {
            // joint vector just below a point where the quaternion returned by forward() switches sign
            // (branch change of from_rotation_matrix): q and q + eps*e_j straddle the switch
            let j = r.below(6);
            let quat = |x: f64, q0: &Joints| { let mut qq = *q0; qq[j] = x; robot.forward(&qq).rotation.into_inner().coords };
            let mut x = -PI;
            let mut found = None;
            while x < PI {
                let a = quat(x, &q); let b = quat(x + 0.01, &q);
                if a.dot(&b) < 0.0 { found = Some((x, x + 0.01)); break; }
                x += 0.01;
            }
            if let Some((mut lo, mut hi)) = found {
                for _ in 0..60 {
                    let mid = 0.5 * (lo + hi);
                    if quat(lo, &q).dot(&quat(mid, &q)) < 0.0 { hi = mid; } else { lo = mid; }
                    if hi - lo < eps * 0.25 { break; }
                }
                q[j] = lo - eps * 0.3;
                if quat(q[j], &q).dot(&quat(q[j] + eps, &q)) < 0.0 { fam.push_str("/quat-sign-switch"); }
            }
        }
        // a twist / wrench: general, pure force / translation (exactly no rotation part), pure torque / rotation
        let mut x: [f64; 6] = [r.range(-1.0, 1.0), r.range(-1.0, 1.0), r.range(-1.0, 1.0), r.range(-1.0, 1.0), r.range(-1.0, 1.0), r.range(-1.0, 1.0)];
        if i % 8 == 6 { x[3] = 0.0; x[4] = 0.0; x[5] = 0.0; fam.push_str("/pure-force"); }
        if i % 8 == 2 { x[0] = 0.0; x[1] = 0.0; x[2] = 0.0; fam.push_str("/pure-torque"); }
        if i % 16 == 9 { let keep = r.below(6); for k in 0..6 { if k != keep { x[k] = 0.0; } } fam.push_str("/one-component"); }
        let built = catch(std::panic::AssertUnwindSafe(|| {
            let jac = Jacobian::new(&robot, &q, eps);
            // read the matrix through torques_from_vector(e_i): row i
            let mut m = Matrix6::<f64>::zeros();
            for row in 0..6 {
                let mut e = Vector6::zeros(); e[row] = 1.0;
                let t = jac.torques_from_vector(&e);
                for col in 0..6 { m[(row, col)] = t[col]; }
            }
            (jac, m)
        }));
        let (jac, m) = match built {
            Some(v) => v,
            None => { let mut l = Line::new("C15", &format!("{}/eps{:.0e}", fam, eps), "jac"); ks.encode(&mut l); l.j6(&q).f(eps).f(0.0).arrow(); l.s("panic"); l.emit(); continue; }
        };
        let sv = m.svd(false, false).singular_values;
        let cond = if sv.min() > 0.0 { sv.max() / sv.min() } else { f64::INFINITY };
        let mut l = Line::new("C15", &format!("{}/eps{:.0e}", fam, eps), "jac");
        ks.encode(&mut l);
        l.j6(&q).f(eps).f(cond).arrow();
        for row in 0..6 { for col in 0..6 { l.f(m[(row, col)]); } }
        let xv = Vector6::from_column_slice(&x);
        let mut iso = Isometry3::new(Vector3::new(x[0], x[1], x[2]), Vector3::new(x[3], x[4], x[5]));
        // the same rotation written with the other quaternion (negative scalar part), as a product of poses may give it
        if i % 4 == 3 { let qn = iso.rotation.into_inner(); iso.rotation = nalgebra::UnitQuaternion::new_unchecked(-qn); }
        v6(&mut l, &x); l.iso(&iso);
        let entry = catch(std::panic::AssertUnwindSafe(|| (jac.velocities_from_vector(&xv).ok(), jac.velocities(&iso).ok(),
            jac.velocities_fixed(x[0], x[1], x[2]).ok(), jac.torques_from_vector(&xv), jac.torques(&iso))));
        match entry {
            Some((a, b, c, t1, t2)) => {
                for o in [a, b, c] { match o { Some(v) => { l.n(1); v6(&mut l, &v); } None => { l.n(0); } } }
                v6(&mut l, &t1); v6(&mut l, &t2);
            }
            None => { l.s("panic"); }
        }
        l.emit();
    }
}
