//! Case generators for constraints (C07), sampler (C18), frames (C17), Jacobian (C15).
use crate::gen::*;
use rs_opw_kinematics::constraints::Constraints;
use rs_opw_kinematics::kinematic_traits::Joints;
use std::f64::consts::PI;

fn emit_c07(fam: &str, ctor: usize, f: &Joints, t: &Joints, w: f64, angles: &[Joints]) {
    // ctor 0: new (radians); 1: from_degrees (f, t in degrees); 2: new(dummy) then update_range
    let c = match ctor {
        0 => Constraints::new(*f, *t, w),
        1 => Constraints::from_degrees([f[0]..=t[0], f[1]..=t[1], f[2]..=t[2], f[3]..=t[3], f[4]..=t[4], f[5]..=t[5]], w),
        _ => { let mut c = Constraints::new([0.1; 6], [0.2; 6], w); c.update_range(*f, *t); c }
    };
    let mut l = Line::new("C07", fam, "c07");
    l.n(ctor).j6(f).j6(t).f(w).n(angles.len());
    for a in angles { l.j6(a); }
    l.arrow();
    l.j6(&c.from).j6(&c.to).j6(&c.centers).j6(&c.tolerances).f(c.sorting_weight);
    // per angle vector: compliant, per-joint inside_bounds (hook), filter keeps it
    let kept = c.filter(&angles.to_vec());
    l.n(kept.len());
    for a in angles {
        l.b(c.compliant(a));
        for k in 0..6 { l.b(Constraints::verif_inside_bounds(a[k], c.centers[k], c.tolerances[k])); }
    }
    // the reported centres are themselves accepted
    l.b(c.compliant(&c.centers));
    l.emit();
}

pub fn c07(seed: u64, n: usize) {
    let mut r = Rng::new(seed ^ 0xC07);
    // exhaustive lattice (step in degrees) over [-720, 720] for from, to, angle
    let step = if n >= 100000 { 5.0 } else if n >= 10000 { 15.0 } else { 45.0 };
    let m = (1440.0 / step) as usize + 1;
    let lat: Vec<f64> = (0..m).map(|i| -720.0 + step * i as f64).collect();
    // angle vectors: all lattice values in each slot (same value in the six slots shifted cyclically)
    let ang_deg: Vec<Joints> = (0..m).map(|i| std::array::from_fn(|k| lat[(i + 7 * k) % m])).collect();
    let ang_rad: Vec<Joints> = ang_deg.iter().map(|a| a.map(|x| x.to_radians())).collect();
    let mut idx = 0usize;
    for fi in 0..m {
        // six (from, to) pairs per line: to runs over the lattice in groups of six
        let mut ti = 0;
        while ti < m {
            let f: Joints = [lat[fi]; 6];
            let t: Joints = std::array::from_fn(|k| lat[(ti + k) % m]);
            let ctor = idx % 3; idx += 1;
            match ctor {
                1 => emit_c07("lattice/degrees", 1, &f, &t, 0.0, &ang_rad),
                c => emit_c07("lattice/radians", c, &f.map(|x| x.to_radians()), &t.map(|x| x.to_radians()), 1.0, &ang_rad),
            }
            ti += 6;
        }
    }
    // random reals
    for _ in 0..(n / 20).max(20) {
        let f = rand_joints(&mut r, 4.0 * PI);
        let mut t = rand_joints(&mut r, 4.0 * PI);
        let fam = match r.below(5) {
            0 => { for k in 0..6 { if r.chance(0.5) { t[k] = f[k]; } } "random/some-equal" }
            1 => { for k in 0..6 { t[k] = f[k] + r.range(2.0 * PI, 4.0 * PI); } "random/full-turn" }
            2 => { for k in 0..6 { t[k] = f[k] + r.range(0.01, 0.5); } "random/narrow" }
            _ => "random/any",
        };
        let mut angles: Vec<Joints> = (0..20).map(|_| rand_joints(&mut r, 4.0 * PI)).collect();
        // whole-turn shifted copies
        let base = angles[0];
        for k in [-2.0, -1.0, 1.0, 2.0] { angles.push(base.map(|x| x + 2.0 * PI * k)); }
        emit_c07(fam, r.below(3).min(2) * 0 + [0usize, 2][r.below(2)], &f, &t, r.unit(), &angles);
    }
}
