//! Case generators for the planners: C13 (RRT), C12 (Cartesian strokes).
use crate::gen::*;
use crate::props_coll::*;
use rs_opw_kinematics::kinematic_traits::{Joints, Kinematics};
use rs_opw_kinematics::rrt::RRTPlanner;
use rs_opw_kinematics::verif_dual_rrt_connect;
use std::cell::Cell;
use std::f64::consts::PI;
use std::panic::AssertUnwindSafe;
use std::sync::atomic::{AtomicBool, Ordering};

fn inside(b: &([f64; 6], [f64; 6]), q: &[f64]) -> bool { (0..6).all(|k| q[k] >= b.0[k] && q[k] <= b.1[k]) }

/// hook level: `dual_rrt_connect` with a seeded sample stream, box obstacles in joint space and a stop flag
/// raised by the k-th sampling call
pub fn c13_hook(r: &mut Rng, n: usize) {
    for _ in 0..n {
        let dim = 6;
        let lo = -2.0; let hi = 2.0;
        let nb = r.below(4);
        let mut boxes: Vec<([f64; 6], [f64; 6])> = vec![];
        for _ in 0..nb {
            let mut a = [0.0; 6]; let mut b = [0.0; 6];
            for k in 0..6 {
                if r.chance(0.5) { a[k] = lo - 1.0; b[k] = hi + 1.0; } else { let c = r.range(lo, hi); let w = r.range(0.2, 1.0); a[k] = c - w; b[k] = c + w; }
            }
            boxes.push((a, b));
        }
        let is_free = |bx: &Vec<([f64; 6], [f64; 6])>, q: &[f64]| !bx.iter().any(|b| inside(b, q));
        let mut start = rand_joints(r, 2.0); let mut goal = rand_joints(r, 2.0);
        let mut t = 0;
        while (!is_free(&boxes, &start) || !is_free(&boxes, &goal)) && t < 100 { start = rand_joints(r, 2.0); goal = rand_joints(r, 2.0); t += 1; }
        if t >= 100 { continue; }
        if r.chance(0.1) { for k in 0..6 { goal[k] = start[k] + r.range(-0.01, 0.01); } if !is_free(&boxes, &goal) { continue; } }
        let ext = *r.pick(&[0.05, 0.1, 0.3, 3f64.to_radians()]);
        let mut max_try = *r.pick(&[1usize, 3, 20, 200, 200]);
        let mut samples: Vec<Vec<f64>> = (0..max_try).map(|_| (0..dim).map(|_| r.range(lo, hi)).collect()).collect();
        // directed (coordinates in units of the step, in two of the six dimensions, relative to the start): the first sample
        // s = (0.5, 0) lies less than one step from the start inside a small obstacle; the goal (4, 0) cannot connect to it
        // in a straight line (an obstacle around (2, 0)); the second sample is a dead end for the goal tree; the third,
        // s2 = (0.5, 0.9), is nearer to s than to the start.  A sample that is its own extension target is a node like any
        // other and has to be free: if s got into the tree, s2 hangs below it and s ends up inside the returned path
        let mut directed = false;
        if r.chance(0.2) {
            let k0 = r.below(6); let k1 = (k0 + 1 + r.below(5)) % 6;
            for k in 0..6 { start[k] = r.range(-1.5, 1.5); }   // keep the whole construction inside the sampling box
            let (sx, sy) = (if r.chance(0.5) { 1.0 } else { -1.0 }, if r.chance(0.5) { 1.0 } else { -1.0 });
            let at = |x: f64, y: f64| { let mut v = start.to_vec(); v[k0] += sx * x * ext; v[k1] += sy * y * ext; v };
            let around = |c: &Vec<f64>, h: f64| { let mut a = [0.0; 6]; let mut b = [0.0; 6]; for k in 0..6 { a[k] = c[k] - h * ext; b[k] = c[k] + h * ext; } (a, b) };
            let s0 = at(0.5, 0.0);
            boxes = vec![around(&s0, 0.1), around(&at(2.0, 0.0), 0.2)];
            let g = at(4.0, 0.0);
            for k in 0..6 { goal[k] = g[k]; }
            if max_try < 20 { max_try = 20; while samples.len() < max_try { samples.push((0..dim).map(|_| r.range(lo, hi)).collect()); } }
            samples[0] = s0; samples[1] = at(2.0, 0.0); samples[2] = at(0.5, 0.9);
            directed = true;
        }
        let free = |q: &[f64]| !boxes.iter().any(|b| inside(b, q));
        let stop_after = if r.chance(0.25) { r.below(max_try.min(6) + 1) } else { usize::MAX };
        let stop = AtomicBool::new(stop_after == 0);
        let calls = Cell::new(0usize);
        let sampler = || { let i = calls.get(); calls.set(i + 1); if i + 1 >= stop_after { stop.store(true, Ordering::Relaxed); } samples[i.min(samples.len() - 1)].clone() };
        let mut l = Line::new("C13", &format!("hook/boxes{}/ext{:.2}/try{}{}{}", nb, ext, max_try, if stop_after != usize::MAX { "/cancel" } else { "" }, if directed { "/near-sample-in-obstacle" } else { "" }), "h_rrt");
        l.j6(&start).j6(&goal).f(ext).n(max_try).n(if stop_after == usize::MAX { 1_000_000 } else { stop_after });
        l.n(boxes.len()); for b in &boxes { l.j6(&b.0).j6(&b.1); }
        l.n(samples.len()); for s in &samples { for x in s { l.f(*x); } }
        l.arrow();
        let out = catch(AssertUnwindSafe(|| verif_dual_rrt_connect(&start, &goal, |q: &[f64]| free(q), sampler, ext, max_try, &stop)));
        match out {
            None => { l.s("panic"); }
            Some(Ok(path)) => { l.s("ok").n(path.len()); for p in &path { for x in p { l.f(*x); } } }
            Some(Err(e)) => { l.s("err").s(if e == "Cancelled" { "cancelled" } else { "failed" }); }
        }
        l.emit();
    }
}

/// API level: `plan_rrt` on a robot with shape; per-node collision verdicts of the same robot
pub fn c13_api(r: &mut Rng, n: usize) {
    for i in 0..n {
        let q = rand_joints(r, 1.5);
        let mut f = [0.0; 6]; let mut t = [0.0; 6];
        for k in 0..6 { f[k] = -r.range(1.8, 3.0); t[k] = r.range(1.8, 3.0); }
        let mut goal = rand_joints(r, 1.5);
        // obstacles are placed around the links of the configuration half way, so that the direct
        // connection comes close to them; every second robot keeps large safety distances
        let mid: Joints = std::array::from_fn(|k| 0.5 * (q[k] + goal[k]));
        // goals outside the box are planned on robots whose limits were NARROWED through update_range (history modes 8, 9
        // of make_constraints): nudge one limit by ulps until the bits select such a history
        if i % 6 == 5 { let mut guard = 0; while crate::gen::history_mode(&f, &t) < 8 && guard < 200 { f[4] = crate::gen::next_up(f[4]); guard += 1; } }
        let mut k = gen_kws(r, &mid, Some((f, t, 0.0)));
        if i % 2 == 0 {
            k.kws.body.safety.to_environment = *r.pick(&[0.1f32, 0.2, 0.3]);
            if k.kws.body.safety.mode == rs_opw_kinematics::collisions::CheckMode::NoCheck { k.kws.body.safety.mode = rs_opw_kinematics::collisions::CheckMode::FirstCollisionOnly; }
            k.fam.push_str("/safety-margin");
        }
        let mut tries = 0;
        while (k.kws.collides(&goal) || k.kws.collides(&q)) && tries < 30 { goal = rand_joints(r, 1.5); tries += 1; }
        if i % 6 == 5 {
            // a goal that satisfies the limits modulo a turn but lies outside the [from, to] box as a number
            // (what inverse_continuing returns after normalising near a previous value)
            let kk = r.below(6);
            goal[kk] = t[kk] - r.range(0.02, 0.3) - 2.0 * PI;
            k.fam.push_str("/goal-outside-box");
        }
        if k.kws.collides(&goal) || k.kws.collides(&q) { continue; }
        let planner = RRTPlanner { step_size_joint_space: *r.pick(&[3f64.to_radians(), 0.1, 0.2]), max_try: *r.pick(&[50usize, 500, 2000]), debug: false };
        let cancel = i % 5 == 4;
        let stop = AtomicBool::new(cancel);
        let mut l = Line::new("C13", &format!("api/{}{}", k.fam, if cancel { "/cancelled-before" } else { "" }), "rrt");
        l.j6(&q).j6(&goal).f(planner.step_size_joint_space).n(planner.max_try).b(cancel).j6(&f).j6(&t).arrow();
        match catch(AssertUnwindSafe(|| planner.plan_rrt(&q, &goal, &k.kws, &stop))) {
            None => { l.s("panic"); }
            Some(Ok(path)) => {
                l.s("ok").n(path.len());
                for p in &path { l.j6(p).b(k.kws.collides(p)).b(k.kws.constraints().as_ref().unwrap().compliant(p)); }
            }
            Some(Err(e)) => { l.s("err").s(if e == "Cancelled" { "cancelled" } else { "failed" }); }
        }
        l.emit();
        if cancel {
            // the caller never lowered the flag: a second call on the SAME flag is cancelled as well
            let mut l = Line::new("C13", &format!("api/{}/cancelled-before/reused-flag", k.fam), "rrt");
            l.j6(&q).j6(&goal).f(planner.step_size_joint_space).n(planner.max_try).b(true).j6(&f).j6(&t).arrow();
            match catch(AssertUnwindSafe(|| planner.plan_rrt(&q, &goal, &k.kws, &stop))) {
                None => { l.s("panic"); }
                Some(Ok(path)) => { l.s("ok").n(path.len()); for p in &path { l.j6(p).b(k.kws.collides(p)).b(k.kws.constraints().as_ref().unwrap().compliant(p)); } }
                Some(Err(e)) => { l.s("err").s(if e == "Cancelled" { "cancelled" } else { "failed" }); }
            }
            l.emit();
        }
        if i % 3 == 2 {
            // a planner step below a milliradian and a goal close by: the three-step bound is about the CONFIGURED step
            let tiny = RRTPlanner { step_size_joint_space: *r.pick(&[4e-4, 2.5e-4, 8e-4]), max_try: 4000, debug: false };
            let mut near = q; for kk in 0..6 { near[kk] += r.range(-0.004, 0.004); }
            if !k.kws.collides(&near) && k.kws.constraints().as_ref().unwrap().compliant(&near) {
                let stop4 = AtomicBool::new(false);
                let mut l = Line::new("C13", "api/tiny-step", "rrt");
                l.j6(&q).j6(&near).f(tiny.step_size_joint_space).n(tiny.max_try).b(false).j6(&f).j6(&t).arrow();
                match catch(AssertUnwindSafe(|| tiny.plan_rrt(&q, &near, &k.kws, &stop4))) {
                    None => { l.s("panic"); }
                    Some(Ok(path)) => { l.s("ok").n(path.len()); for p in &path { l.j6(p).b(k.kws.collides(p)).b(k.kws.constraints().as_ref().unwrap().compliant(p)); } }
                    Some(Err(e)) => { l.s("err").s(if e == "Cancelled" { "cancelled" } else { "failed" }); }
                }
                l.emit();
            }
        }
        if i % 4 == 1 {
            // start and goal identical, flag raised: still an error, not a trivial path
            let stop3 = AtomicBool::new(true);
            let mut l = Line::new("C13", "api/same-start-goal/cancelled-before", "rrt");
            l.j6(&q).j6(&q).f(planner.step_size_joint_space).n(planner.max_try).b(true).j6(&f).j6(&t).arrow();
            match catch(AssertUnwindSafe(|| planner.plan_rrt(&q, &q, &k.kws, &stop3))) {
                None => { l.s("panic"); }
                Some(Ok(path)) => { l.s("ok").n(path.len()); for p in &path { l.j6(p).b(k.kws.collides(p)).b(k.kws.constraints().as_ref().unwrap().compliant(p)); } }
                Some(Err(e)) => { l.s("err").s(if e == "Cancelled" { "cancelled" } else { "failed" }); }
            }
            l.emit();
        }
        if i % 5 == 1 {
            // limits NARROWED through update_range from a wide range (or from an unconstrained object), free space, a goal
            // that is inside the limits only modulo a turn: the line to it sweeps the forbidden arc, so either no path or
            // every node inside the limits
            let mut f2 = [0.0; 6]; let mut t2 = [0.0; 6];
            for kk in 0..6 { f2[kk] = -r.range(2.6, 3.0); t2[kk] = r.range(2.6, 3.0); }
            let kk = r.below(6);
            f2[kk] = -r.range(0.8, 1.2); t2[kk] = r.range(0.8, 1.2);
            crate::gen::FORCE_HISTORY.store(if r.chance(0.5) { 9 } else { 10 }, Ordering::Relaxed);
            let start2 = rand_joints(r, 0.7);
            let mut k2 = gen_kws(r, &start2, Some((f2, t2, 0.0)));
            crate::gen::FORCE_HISTORY.store(0, Ordering::Relaxed);
            k2.kws.body.collision_environment.clear();
            let mut goal2 = rand_joints(r, 0.7);
            goal2[kk] = t2[kk] - r.range(0.05, 0.3) - 2.0 * PI;
            if !k2.kws.collides(&start2) && !k2.kws.collides(&goal2) {
                let pl = RRTPlanner { step_size_joint_space: 0.1, max_try: 1500, debug: false };
                let stop5 = AtomicBool::new(false);
                let mut l = Line::new("C13", "api/narrowed-limits/goal-outside-box", "rrt");
                l.j6(&start2).j6(&goal2).f(pl.step_size_joint_space).n(pl.max_try).b(false).j6(&f2).j6(&t2).arrow();
                match catch(AssertUnwindSafe(|| pl.plan_rrt(&start2, &goal2, &k2.kws, &stop5))) {
                    None => { l.s("panic"); }
                    Some(Ok(path)) => { l.s("ok").n(path.len()); for p in &path { l.j6(p).b(k2.kws.collides(p)).b(k2.kws.constraints().as_ref().unwrap().compliant(p)); } }
                    Some(Err(e)) => { l.s("err").s(if e == "Cancelled" { "cancelled" } else { "failed" }); }
                }
                l.emit();
            }
        }
        if i % 7 == 0 {
            // cancellation raised from another thread during planning of an infeasible problem (goal buried in an obstacle is
            // not allowed; use a tiny step and a huge budget instead so that planning takes long)
            let slow = RRTPlanner { step_size_joint_space: 1e-4, max_try: 200000, debug: false };
            let stop2 = std::sync::Arc::new(AtomicBool::new(false));
            let s2 = stop2.clone();
            let h = std::thread::spawn(move || { std::thread::sleep(std::time::Duration::from_millis(30)); s2.store(true, Ordering::Relaxed); });
            let mut far = goal; for kk in 0..6 { far[kk] = -q[kk]; }
            let res = catch(AssertUnwindSafe(|| slow.plan_rrt(&q, &far, &k.kws, &stop2)));
            let _ = h.join();
            let mut l = Line::new("C13", "api/cancelled-during", "rrt_cancel");
            l.arrow();
            match res { None => { l.s("panic"); } Some(Ok(p)) => { l.s("ok").n(p.len()); } Some(Err(e)) => { l.s("err").s(if e == "Cancelled" { "cancelled" } else { "failed" }); } }
            l.emit();
        }
    }
}

pub fn c13(seed: u64, n: usize) {
    let mut r = Rng::new(seed ^ 0xC13);
    c13_hook(&mut r, n);
    c13_api(&mut r, (n / 4).max(8));
}

// ---------------------------------------------------------------- C12 Cartesian strokes
use nalgebra::{Isometry3, Translation3, UnitQuaternion, Vector3};
use rs_opw_kinematics::cartesian::{Cartesian, DEFAULT_TRANSITION_COSTS};
use rs_opw_kinematics::collisions::CollisionBody;
use rs_opw_kinematics::kinematic_traits::Pose;

fn in_pool2<T: Send>(n: usize, f: impl FnOnce() -> T + Send) -> T {
    rayon::ThreadPoolBuilder::new().num_threads(n).build().unwrap().install(f)
}

pub fn c12(seed: u64, n: usize) {
    let mut r = Rng::new(seed ^ 0xC12);
    // hook level: densification
    for _ in 0..(n * 5).max(50) {
        let land = rand_iso(&mut r, 1.0);
        let ns = r.below(4);
        let mut steps = vec![];
        let mut cur = land;
        for _ in 0..ns {
            let d = Vector3::new(r.range(-0.2, 0.2), r.range(-0.2, 0.2), r.range(-0.2, 0.2));
            let rot = UnitQuaternion::from_scaled_axis(Vector3::new(r.range(-0.3, 0.3), r.range(-0.3, 0.3), r.range(-0.3, 0.3)));
            cur = Isometry3::from_parts(Translation3::from(cur.translation.vector + d), if r.chance(0.5) { cur.rotation } else { rot * cur.rotation });
            steps.push(cur);
        }
        let park = Isometry3::from_parts(Translation3::from(cur.translation.vector + Vector3::new(0.0, 0.0, r.range(0.0, 0.1))), cur.rotation);
        let q0 = rand_joints(&mut r, 1.0);
        let k = gen_kws(&mut r, &q0, None);
        let step_m = *r.pick(&[0.01, 0.02, 0.05, 0.5]);
        let step_rad = *r.pick(&[1f64.to_radians(), 3f64.to_radians(), 0.5]);
        let planner = Cartesian { robot: &k.kws, check_step_m: step_m, check_step_rad: step_rad, max_transition_cost: 0.1, transition_coefficients: DEFAULT_TRANSITION_COSTS,
            linear_recursion_depth: 4, rrt: RRTPlanner { step_size_joint_space: 0.05, max_try: 10, debug: false }, include_linear_interpolation: true, debug: false };
        let out = planner.verif_intermediate_poses(&land, &steps, &park);
        let mut l = Line::new("C12", "hook/densify", "h_dense");
        l.iso(&land).n(steps.len()); for s in &steps { l.iso(s); } l.iso(&park).f(step_m).f(step_rad).arrow();
        l.n(out.len()); for (p, f) in &out { l.iso(p).n(*f as usize); }
        l.emit();
    }
    // API level: plan
    let mut done = 0; let mut tries = 0;
    while done < n && tries < 20 * n {
        tries += 1;
        let q_land: Joints = [r.range(-1.0, 1.0), r.range(-0.3, 0.8), r.range(-0.6, 0.6), r.range(-0.5, 0.5), r.range(0.4, 1.2), r.range(-1.0, 1.0)];
        let mut f = [0.0; 6]; let mut t = [0.0; 6];
        for k in 0..6 { f[k] = -r.range(2.2, 3.0); t[k] = r.range(2.2, 3.0); }
        let mut k = gen_kws(&mut r, &q_land, Some((f, t, 0.0)));
        k.kws.body.collision_environment.clear();
        let land: Pose = k.kws.forward(&q_land);
        // stroke: a few steps along a random direction, park lifted
        let dir = Vector3::new(r.range(-1.0, 1.0), r.range(-1.0, 1.0), r.range(-0.3, 0.3)).normalize();
        let len = *r.pick(&[0.03, 0.08, 0.15, 0.25]);
        let ns = 1 + r.below(3);
        let steps: Vec<Pose> = (1..=ns).map(|i| Isometry3::from_parts(Translation3::from(land.translation.vector + dir * (len * i as f64 / ns as f64)), land.rotation)).collect();
        let last = *steps.last().unwrap();
        let park = Isometry3::from_parts(Translation3::from(last.translation.vector + Vector3::new(0.0, 0.0, 0.03)), last.rotation);
        // obstacle layouts: free, grazing (next to the stroke), blocking (plate across the stroke)
        let layout = [0usize, 1, 3, 2, 4, 3, 4][done % 7];
        // (the grazed first step is visible in the result only when interpolated waypoints are returned)
        let include = layout == 4 || r.chance(0.6);
        let p_step = *r.pick(&[0.01, 0.02, 0.05]);
        let p_cost = *r.pick(&[3f64.to_radians(), 6f64.to_radians(), 0.3]);
        let p_coef = match r.below(3) { 0 => DEFAULT_TRANSITION_COSTS, 1 => [*r.pick(&[0.5, 2.0, 4.0]); 6],
                _ => [r.range(0.3, 3.0), r.range(0.3, 3.0), r.range(0.3, 3.0), r.range(0.3, 3.0), r.range(0.3, 3.0), r.range(0.3, 3.0)] };
        let p_depth = *r.pick(&[0usize, 2, 6, 8]);
        let mut from = q_land; for kk in 0..6 { from[kk] += r.range(-0.3, 0.3); }
        if layout == 3 { from = q_land; }
        let midp = land.translation.vector + dir * (len * 0.5);
        let side = dir.cross(&Vector3::z()).normalize();
        match layout {
            1 => { let c = midp + side * r.range(0.25, 0.4);
                   k.kws.body.collision_environment.push(CollisionBody { mesh: box_mesh([0.05, 0.05, 0.05], [0.0; 3], false), pose: Isometry3::translation(c.x as f32, c.y as f32, c.z as f32) }); }
            2 => { let c = midp;
                   let rotq = nalgebra::UnitQuaternion::rotation_between(&Vector3::y(), &dir).unwrap_or(nalgebra::UnitQuaternion::identity());
                   k.kws.body.collision_environment.push(CollisionBody { mesh: box_mesh([0.3, 0.004, 0.3], [0.0; 3], false),
                       pose: Isometry3::from_parts(Translation3::new(c.x, c.y, c.z), rotq).cast::<f32>() }); }
            3 => {
                // a small cube where the elbow (link 3) of the START branch passes mid-stroke: that branch lands and moves
                // continuously but fails the final collision check; another branch has to be found
                let mid_pose = Isometry3::from_parts(Translation3::from(midp), land.rotation);
                if let Some(qm) = k.kws.inverse_continuing(&mid_pose, &q_land).first() {
                    let e = k.kws.forward_with_joint_poses(qm)[2].translation.vector;
                    k.kws.body.collision_environment.push(CollisionBody { mesh: box_mesh([0.03, 0.03, 0.03], [0.0; 3], false), pose: Isometry3::translation(e.x as f32, e.y as f32, e.z as f32) });
                }
            }
            4 => {
                // a small cube that only the FIRST Cartesian waypoint after landing touches (waypoints taken from the plan
                // of the obstacle-free cell): every waypoint of a successful plan is checked, this one included
                if k.kws.body.safety.mode == rs_opw_kinematics::collisions::CheckMode::NoCheck { k.kws.body.safety.mode = rs_opw_kinematics::collisions::CheckMode::FirstCollisionOnly; }
                let pre = catch(AssertUnwindSafe(|| {
                    let pl = Cartesian { robot: &k.kws, check_step_m: p_step, check_step_rad: 3f64.to_radians(), max_transition_cost: p_cost, transition_coefficients: p_coef,
                        linear_recursion_depth: p_depth, rrt: RRTPlanner { step_size_joint_space: 3f64.to_radians(), max_try: 500, debug: false },
                        include_linear_interpolation: true, debug: false };
                    pl.plan(&from, &land, steps.clone(), &park).ok()
                })).flatten();
                if let Some(path) = pre {
                    if let Some(li) = path.iter().position(|w| w.flags.bits() & 16 != 0) {
                        if li + 2 < path.len() {
                            let w1 = path[li + 1].joints;
                            let at = k.kws.forward_with_joint_poses(&w1)[5];
                            let at0 = k.kws.forward_with_joint_poses(&path[li].joints)[5];
                            let verts: Vec<nalgebra::Point3<f64>> = k.kws.body.tool.as_ref().unwrap_or(&k.kws.body.joint_meshes[5]).vertices().iter()
                                .map(|v| nalgebra::Point3::new(v.x as f64, v.y as f64, v.z as f64)).collect();
                            for attempt in 0..200 {
                                // a cube centred on a vertex of the tool as it stands at the first step, smaller than the step
                                // that vertex makes (so the landing pose and the second step stay clear); or anywhere near
                                let (c, h) = if attempt % 2 == 0 && !verts.is_empty() {
                                    let v = verts[r.below(verts.len())];
                                    let (p1, p0) = (at * v, at0 * v);
                                    let m = (p1 - p0).norm();
                                    (p1, ((0.4 * m).min(0.015).max(0.001)) as f32)
                                } else {
                                    (at * nalgebra::Point3::new(r.range(-0.1, 0.1), r.range(-0.1, 0.1), r.range(-0.05, 0.2)), *r.pick(&[0.004f32, 0.008, 0.015]))
                                };
                                k.kws.body.collision_environment.push(CollisionBody { mesh: box_mesh([h, h, h], [0.0; 3], false), pose: Isometry3::translation(c.x as f32, c.y as f32, c.z as f32) });
                                let good = k.kws.collides(&w1) && !k.kws.collides(&from) && path.iter().enumerate().all(|(i, w)| i == li + 1 || !k.kws.collides(&w.joints));
                                if good { break; }
                                k.kws.body.collision_environment.pop();
                            }
                        }
                    }
                }
            }
            _ => {}
        }
        if k.kws.body.safety.mode == rs_opw_kinematics::collisions::CheckMode::NoCheck { k.kws.body.safety.mode = rs_opw_kinematics::collisions::CheckMode::FirstCollisionOnly; }
        if k.kws.collides(&from) { continue; }
        done += 1;
        let planner = Cartesian { robot: &k.kws, check_step_m: p_step, check_step_rad: 3f64.to_radians(),
            max_transition_cost: p_cost, transition_coefficients: p_coef,
            linear_recursion_depth: p_depth, rrt: RRTPlanner { step_size_joint_space: 3f64.to_radians(), max_try: 500, debug: false },
            include_linear_interpolation: include, debug: false };
        let pools = [1usize, 2, 4, 16];
        let pool = pools[done % 4];
        let fam = format!("plan/{}/{}", ["free", "grazing", "blocking", "branch-blocked", "first-step-grazed"][layout], if include { "with-interp" } else { "no-interp" });
        let mut l = Line::new("C12", &fam, "plan");
        k.ks.encode(&mut l);
        l.j6(&from).iso(&land).n(steps.len()); for s in &steps { l.iso(s); } l.iso(&park);
        l.f(planner.check_step_m).f(planner.check_step_rad).f(planner.max_transition_cost).j6(&planner.transition_coefficients).n(planner.linear_recursion_depth).b(include).n(pool);
        l.arrow();
        let res = catch(AssertUnwindSafe(|| in_pool2(pool, || planner.plan(&from, &land, steps.clone(), &park))));
        match &res {
            None => { l.s("panic"); }
            Some(Err(_)) => { l.s("err"); }
            Some(Ok(path)) => {
                l.s("ok").n(path.len());
                for w in path { l.j6(&w.joints).n(w.flags.bits() as usize).b(k.kws.collides(&w.joints)).b(k.kws.constraints().as_ref().unwrap().compliant(&w.joints)); }
            }
        }
        l.emit();
        // planning failed: is there a landing branch that works on its own and can be reached from the start? then the
        // planner has to find it, whichever strategy finishes first (decided only on repeated agreement: RRT is random)
        if matches!(res, Some(Err(_))) {
            let strategies = k.kws.inverse_continuing(&land, &from);
            let mut exists = false;
            for s in strategies.iter().take(8) {
                // the plan started AT this branch must land on this very branch (not on another one reached from it)
                let lands_here = |path: &Vec<rs_opw_kinematics::cartesian::AnnotatedJoints>| path.iter()
                    .find(|w| w.flags.bits() & 16 != 0).map_or(false, |w| (0..6).all(|kk| (w.joints[kk] - s[kk]).abs() < 1e-9));
                // (on one thread: the strategies are then tried in order of closeness to the start, this branch first)
                let alone = (0..2).all(|_| in_pool2(1, || planner.plan(s, &land, steps.clone(), &park)).map_or(false, |p| lands_here(&p)));
                if !alone { continue; }
                let stop = AtomicBool::new(false);
                let reach = (0..3).all(|_| planner.rrt.plan_rrt(&from, s, &k.kws, &stop).is_ok());
                if reach { exists = true; break; }
            }
            let retries: Vec<bool> = (0..3).map(|_| in_pool2(pool, || planner.plan(&from, &land, steps.clone(), &park).is_ok())).collect();
            let mut l = Line::new("C12", &fam, "plan_exists");
            l.b(exists).arrow();
            l.n(retries.len()); for o in retries { l.b(o); }
            l.emit();
        }
        // scheduling: the same problem under other pool sizes and repeated
        if done % 2 == 0 {
            let mut l = Line::new("C12", &fam, "plan_sched");
            // without obstacles no random re-planning is needed: only then is success promised to be schedule-independent
            l.b(layout == 0).arrow();
            let first_ok = matches!(res, Some(Ok(_)));
            l.b(first_ok);
            let mut outcomes = vec![];
            for p in [1usize, 3, 16] {
                let o = catch(AssertUnwindSafe(|| in_pool2(p, || planner.plan(&from, &land, steps.clone(), &park).is_ok())));
                outcomes.push(o.unwrap_or(false));
            }
            l.n(outcomes.len()); for o in outcomes { l.b(o); }
            l.emit();
        }
    }
}
