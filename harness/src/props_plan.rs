//! Case generators for the planners: C13 (RRT), C12 (Cartesian strokes).
use crate::gen::*;
use crate::props_coll::*;
use rs_opw_kinematics::kinematic_traits::{Joints, Kinematics};
#[allow(unused_imports)]
use rs_opw_kinematics::rrt::RRTPlanner;
use rs_opw_kinematics::verif_dual_rrt_connect;
use std::cell::Cell;
use std::f64::consts::PI;
use std::panic::AssertUnwindSafe;
use std::sync::atomic::{AtomicBool, Ordering};

fn inside(b: &([f64; 6], [f64; 6]), q: &[f64]) -> bool { (0..6).all(|k| q[k] >= b.0[k] && q[k] <= b.1[k]) }

/// hook level: `dual_rrt_connect` with a seeded sample stream, box obstacles in joint space and a stop flag
/// raised by the k-th sampling call
pub fn c13_hook(r: &mut Rng, n: usize) {
    for _ in 0..n {
        let dim = 6;
        let lo = -2.0; let hi = 2.0;
        let nb = r.below(4);
        let mut boxes: Vec<([f64; 6], [f64; 6])> = vec![];
        for _ in 0..nb {
            let mut a = [0.0; 6]; let mut b = [0.0; 6];
            for k in 0..6 {
                if r.chance(0.5) { a[k] = lo - 1.0; b[k] = hi + 1.0; } else { let c = r.range(lo, hi); let w = r.range(0.2, 1.0); a[k] = c - w; b[k] = c + w; }
            }
            boxes.push((a, b));
        }
        let free = |q: &[f64]| !boxes.iter().any(|b| inside(b, q));
        let mut start = rand_joints(r, 2.0); let mut goal = rand_joints(r, 2.0);
        let mut t = 0;
        while (!free(&start) || !free(&goal)) && t < 100 { start = rand_joints(r, 2.0); goal = rand_joints(r, 2.0); t += 1; }
        if t >= 100 { continue; }
        if r.chance(0.1) { for k in 0..6 { goal[k] = start[k] + r.range(-0.01, 0.01); } if !free(&goal) { continue; } }
        let ext = *r.pick(&[0.05, 0.1, 0.3, 3f64.to_radians()]);
        let max_try = *r.pick(&[1usize, 3, 20, 200, 200]);
        let samples: Vec<Vec<f64>> = (0..max_try).map(|_| (0..dim).map(|_| r.range(lo, hi)).collect()).collect();
        let stop_after = if r.chance(0.25) { r.below(max_try.min(6) + 1) } else { usize::MAX };
        let stop = AtomicBool::new(stop_after == 0);
        let calls = Cell::new(0usize);
        let sampler = || { let i = calls.get(); calls.set(i + 1); if i + 1 >= stop_after { stop.store(true, Ordering::Relaxed); } samples[i.min(samples.len() - 1)].clone() };
        let mut l = Line::new("C13", &format!("hook/boxes{}/ext{:.2}/try{}{}", nb, ext, max_try, if stop_after != usize::MAX { "/cancel" } else { "" }), "h_rrt");
        l.j6(&start).j6(&goal).f(ext).n(max_try).n(if stop_after == usize::MAX { 1_000_000 } else { stop_after });
        l.n(boxes.len()); for b in &boxes { l.j6(&b.0).j6(&b.1); }
        l.n(samples.len()); for s in &samples { for x in s { l.f(*x); } }
        l.arrow();
        let out = catch(AssertUnwindSafe(|| verif_dual_rrt_connect(&start, &goal, |q: &[f64]| free(q), sampler, ext, max_try, &stop)));
        match out {
            None => { l.s("panic"); }
            Some(Ok(path)) => { l.s("ok").n(path.len()); for p in &path { for x in p { l.f(*x); } } }
            Some(Err(e)) => { l.s("err").s(if e == "Cancelled" { "cancelled" } else { "failed" }); }
        }
        l.emit();
    }
}

/// API level: `plan_rrt` on a robot with shape; per-node collision verdicts of the same robot
pub fn c13_api(r: &mut Rng, n: usize) {
    for i in 0..n {
        let q = rand_joints(r, 1.5);
        let mut f = [0.0; 6]; let mut t = [0.0; 6];
        for k in 0..6 { f[k] = -r.range(1.8, 3.0); t[k] = r.range(1.8, 3.0); }
        let mut goal = rand_joints(r, 1.5);
        // obstacles are placed around the links of the configuration half way, so that the direct
        // connection comes close to them; every second robot keeps large safety distances
        let mid: Joints = std::array::from_fn(|k| 0.5 * (q[k] + goal[k]));
        let mut k = gen_kws(r, &mid, Some((f, t, 0.0)));
        if i % 2 == 0 {
            k.kws.body.safety.to_environment = *r.pick(&[0.1f32, 0.2, 0.3]);
            if k.kws.body.safety.mode == rs_opw_kinematics::collisions::CheckMode::NoCheck { k.kws.body.safety.mode = rs_opw_kinematics::collisions::CheckMode::FirstCollisionOnly; }
            k.fam.push_str("/safety-margin");
        }
        let mut tries = 0;
        while (k.kws.collides(&goal) || k.kws.collides(&q)) && tries < 30 { goal = rand_joints(r, 1.5); tries += 1; }
        if k.kws.collides(&goal) || k.kws.collides(&q) { continue; }
        let planner = RRTPlanner { step_size_joint_space: *r.pick(&[3f64.to_radians(), 0.1, 0.2]), max_try: *r.pick(&[50usize, 500, 2000]), debug: false };
        let cancel = i % 5 == 4;
        let stop = AtomicBool::new(cancel);
        let mut l = Line::new("C13", &format!("api/{}{}", k.fam, if cancel { "/cancelled-before" } else { "" }), "rrt");
        l.j6(&q).j6(&goal).f(planner.step_size_joint_space).n(planner.max_try).b(cancel).j6(&f).j6(&t).arrow();
        match catch(AssertUnwindSafe(|| planner.plan_rrt(&q, &goal, &k.kws, &stop))) {
            None => { l.s("panic"); }
            Some(Ok(path)) => {
                l.s("ok").n(path.len());
                for p in &path { l.j6(p).b(k.kws.collides(p)).b(k.kws.constraints().as_ref().unwrap().compliant(p)); }
            }
            Some(Err(e)) => { l.s("err").s(if e == "Cancelled" { "cancelled" } else { "failed" }); }
        }
        l.emit();
        if i % 7 == 0 {
            // cancellation raised from another thread during planning of an infeasible problem (goal buried in an obstacle is
            // not allowed; use a tiny step and a huge budget instead so that planning takes long)
            let slow = RRTPlanner { step_size_joint_space: 1e-4, max_try: 200000, debug: false };
            let stop2 = std::sync::Arc::new(AtomicBool::new(false));
            let s2 = stop2.clone();
            let h = std::thread::spawn(move || { std::thread::sleep(std::time::Duration::from_millis(30)); s2.store(true, Ordering::Relaxed); });
            let mut far = goal; for kk in 0..6 { far[kk] = -q[kk]; }
            let res = catch(AssertUnwindSafe(|| slow.plan_rrt(&q, &far, &k.kws, &stop2)));
            let _ = h.join();
            let mut l = Line::new("C13", "api/cancelled-during", "rrt_cancel");
            l.arrow();
            match res { None => { l.s("panic"); } Some(Ok(p)) => { l.s("ok").n(p.len()); } Some(Err(e)) => { l.s("err").s(if e == "Cancelled" { "cancelled" } else { "failed" }); } }
            l.emit();
        }
    }
}

pub fn c13(seed: u64, n: usize) {
    let mut r = Rng::new(seed ^ 0xC13);
    c13_hook(&mut r, n);
    c13_api(&mut r, (n / 4).max(8));
}
