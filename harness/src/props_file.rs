//! Case generators for the loaders: C19 (YAML), C20 (URDF).
use crate::gen::*;
use rs_opw_kinematics::parameter_error::ParameterError;
use rs_opw_kinematics::parameters::opw_kinematics::Parameters;
use std::f64::consts::PI;
use std::panic::AssertUnwindSafe;
use yaml_rust2::{Yaml, YamlLoader};

pub fn hexs(s: &str) -> String { let mut o = String::from("x"); for b in s.as_bytes() { o.push_str(&format!("{:02x}", b)); } o }

fn optf(l: &mut Line, v: Option<f64>) { match v { Some(x) => { l.n(1).f(x); } None => { l.n(0); } } }

/// the library's own tree for a text, with the float-parser results attached to scalar leaves
fn enc_yaml(l: &mut Line, y: &Yaml) {
    match y {
        Yaml::Integer(i) => { l.s("I").i(*i); }
        Yaml::Real(s) => { l.s("R").s(&hexs(s)); optf(l, y.as_f64()); optf(l, s.parse::<f64>().ok()); }
        Yaml::String(s) => {
            l.s("S").s(&hexs(s)); optf(l, s.parse::<f64>().ok());
            match s.strip_prefix("deg(").and_then(|t| t.strip_suffix(")")) {
                Some(inner) => { l.n(1); optf(l, inner.trim().parse::<f64>().ok()); }
                None => { l.n(0); }
            }
        }
        Yaml::Array(v) => { l.s("A").n(v.len()); for e in v { enc_yaml(l, e); } }
        Yaml::Hash(h) => { l.s("H").n(h.len()); for (k, v) in h { enc_yaml(l, k); enc_yaml(l, v); } }
        _ => { l.s("O"); }
    }
}

fn enc_result(l: &mut Line, r: Option<Result<Parameters, ParameterError>>) {
    match r {
        None => { l.s("panic"); }
        Some(Ok(p)) => {
            l.s("ok").f(p.a1).f(p.a2).f(p.b).f(p.c1).f(p.c2).f(p.c3).f(p.c4).j6(&p.offsets);
            for s in p.sign_corrections { l.i(s as i64); }
            l.i(p.dof as i64);
        }
        Some(Err(e)) => {
            l.s("err");
            match e {
                ParameterError::ParseError(_) => { l.s("parse"); }
                ParameterError::MissingField(f) => { l.s("missing").s(&hexs(&f)); }
                ParameterError::InvalidLength { found, .. } => { l.s("len").n(found); }
                ParameterError::IoError(_) => { l.s("io"); }
                _ => { l.s("other"); }
            }
        }
    }
}

fn tmpfile(tag: &str) -> std::path::PathBuf {
    let mut p = std::env::temp_dir();
    p.push(format!("verif_{}_{}_{}.yaml", tag, std::process::id(), std::thread::current().name().unwrap_or("m")));
    p
}

/// `yaml fam text-bytes => …`: run the reader on `text`; the line carries the library's tree
fn emit_yaml(fam: &str, text: &[u8], expected: Option<&Parameters>) {
    let path = tmpfile("c19");
    std::fs::write(&path, text).unwrap();
    let res = catch(AssertUnwindSafe(|| Parameters::from_yaml_file(&path)));
    let _ = std::fs::remove_file(&path);
    let mut l = Line::new("C19", fam, "yaml");
    // lexing by the library (the reader needs valid UTF-8 first: otherwise an IO error)
    match std::str::from_utf8(text) {
        Err(_) => { l.n(2).n(0); }
        Ok(s) => match YamlLoader::load_from_str(s) {
            Err(_) => { l.n(0).n(0); }
            Ok(docs) => { l.n(1).n(docs.len()); for d in &docs { enc_yaml(&mut l, d); } }
        },
    }
    match expected {
        Some(p) => { l.n(1).f(p.a1).f(p.a2).f(p.b).f(p.c1).f(p.c2).f(p.c3).f(p.c4).j6(&p.offsets); for s in p.sign_corrections { l.i(s as i64); } l.i(p.dof as i64); }
        None => { l.n(if fam == "malformed/must-reject" { 2 } else { 0 }); }
    }
    l.arrow();
    enc_result(&mut l, res);
    l.emit();
}

fn gen_file_params(r: &mut Rng) -> Parameters {
    let (_, mut p) = gen_params(r);
    // integral-valued lengths, negatives, tiny and large values
    for v in [&mut p.a1, &mut p.a2, &mut p.b, &mut p.c1, &mut p.c2, &mut p.c3, &mut p.c4] {
        match r.below(8) { 0 => *v = 0.0, 1 => *v = 1.0, 2 => *v = -2.0, 3 => *v = r.range(-1.0, 1.0) * 1e-7, 4 => *v = (r.below(2000) as f64 - 1000.0) / 8.0, _ => {} }
    }
    for k in 0..6 {
        p.offsets[k] = match r.below(6) { 0 => 0.0, 1 => PI / 2.0, 2 => -PI, 3 => r.range(-1e-4, 1e-4), _ => r.range(-PI, PI) };
        p.sign_corrections[k] = if r.chance(0.5) { 1 } else { -1 };
    }
    if r.chance(0.4) { p.dof = 5; p.sign_corrections[5] = 0; }
    if r.chance(0.1) { p.sign_corrections[5] = 0; }
    p
}

fn fmt_num(r: &mut Rng, x: f64) -> String {
    if x == x.trunc() && x.abs() < 1e9 {
        match r.below(4) { 0 => format!("{}", x as i64), 1 => format!("{:.1}", x), 2 => format!("{:.3}", x), _ => format!("{}", x) }
    } else {
        match r.below(3) { 0 => format!("{}", x), 1 => format!("{:e}", x), _ => format!("{:?}", x) }
    }
}

/// a file in the documented format with syntactic variation; returns the text and what it must parse to
fn gen_variant(r: &mut Rng) -> (String, Parameters) {
    let mut p = gen_file_params(r);
    let mut exp = p;
    let mut t = String::new();
    if r.chance(0.5) { t.push_str("# robot parameters\n"); }
    let nested_dof = p.dof == 5 && r.chance(0.3);
    t.push_str("opw_kinematics_geometric_parameters:\n");
    let ind = if r.chance(0.3) { "    " } else { "  " };
    for (k, v) in [("a1", p.a1), ("a2", p.a2), ("b", p.b), ("c1", p.c1), ("c2", p.c2), ("c3", p.c3), ("c4", p.c4)] {
        t.push_str(&format!("{}{}: {}{}\n", ind, k, fmt_num(r, v), if r.chance(0.1) { " # m" } else { "" }));
    }
    if nested_dof { t.push_str(&format!("{}dof: 5\n", ind)); }
    // offsets
    let five = p.dof == 5 && r.chance(0.5);
    let nent = if five { 5 } else { 6 };
    let which = r.below(4);
    if which < 3 {
        let mut items = vec![];
        for k in 0..nent {
            let o = p.offsets[k];
            let (txt, val) = match r.below(4) {
                0 => { let d = (o.to_degrees() * 1e4).round() / 1e4; (format!("deg({})", d), d.to_radians()) }
                1 => { let d = (o.to_degrees() * 10.0).round() / 10.0; (format!("\"deg({:.1})\"", d), d.to_radians()) }
                2 => { let v = (o * 1e6).round() / 1e6; (format!("{}", v), v) }
                _ => { let v = o.round(); (format!("{}", v as i64), v) }
            };
            items.push(txt); exp.offsets[k] = val;
        }
        if five { exp.offsets[5] = 0.0; }
        if which == 0 { t.push_str("opw_kinematics_joint_offsets:\n"); for it in &items { t.push_str(&format!("  - {}\n", it)); } }
        else { t.push_str(&format!("opw_kinematics_joint_offsets: [{}]\n", items.join(", "))); }
    } else { exp.offsets = [0.0; 6]; }
    // sign corrections
    if r.chance(0.85) {
        let items: Vec<String> = (0..nent).map(|k| format!("{}", p.sign_corrections[k])).collect();
        t.push_str(&format!("opw_kinematics_joint_sign_corrections: [{}]\n", items.join(", ")));
        if five { exp.sign_corrections[5] = 0; }
    } else { exp.sign_corrections = [1; 6]; if p.dof == 5 { exp.sign_corrections[5] = 0; } }
    if p.dof == 5 && !nested_dof { t.push_str("dof: 5\n"); }
    else if p.dof == 6 && r.chance(0.5) { t.push_str("dof: 6\n"); }
    if p.dof == 5 { exp.sign_corrections[5] = 0; }
    p.dof = exp.dof;
    (t, exp)
}

pub fn c19(seed: u64, n: usize) {
    let mut r = Rng::new(seed ^ 0xC19);
    // writer -> reader
    for _ in 0..n {
        let p = gen_file_params(&mut r);
        let text = p.to_yaml();
        let mut exp = p;
        for k in 0..6 { exp.offsets[k] = p.offsets[k]; }
        if p.dof == 5 { exp.sign_corrections[5] = 0; }
        emit_yaml("roundtrip", text.as_bytes(), Some(&exp));
    }
    // documented variants
    for _ in 0..(n / 2).max(20) {
        let (t, exp) = gen_variant(&mut r);
        emit_yaml("variant", t.as_bytes(), Some(&exp));
    }
    // malformed: structured damage and random bytes
    let base = Parameters::irb2400_10().to_yaml();
    let structured: Vec<String> = vec![
        "".into(), "# only a comment\n".into(), "---\n".into(), "42\n".into(), "- 1\n- 2\n".into(), "foo: bar\n".into(),
        base.replace("a1:", "a9:"), base.replace("[", "[1, "), base.replace("opw_kinematics_joint_offsets: [", "opw_kinematics_joint_offsets: [0, 0, 0, "),
        base.replace("deg(", "deg(x"), base.replace("opw_kinematics_joint_sign_corrections: [1,1,1,1,1,1]", "opw_kinematics_joint_sign_corrections: [1,1,1,1]"),
        base.replace("opw_kinematics_geometric_parameters:", "opw_kinematics_geometric_parameters: 5 #"), format!("{}---\nsecond: doc\n", base),
        base.replace("dof: 6", "dof: 300"), base.replace("dof: 6", "dof: [5]"), base.replace("c4:", "c4: [1,2] #"),
        "opw_kinematics_geometric_parameters: {a1: 1, a2: 2, b: 3, c1: 4, c2: 5, c3: 6, c4: 7}\nopw_kinematics_joint_offsets: [1,2,3,4,5,6,7,8]\n".into(),
        "opw_kinematics_geometric_parameters: {a1: .inf, a2: .nan, b: 0x10, c1: 1_000, c2: 5, c3: 6, c4: 7}\n".into(),
        "opw_kinematics_geometric_parameters: {a1: 1, a2: 2, b: 3, c1: 4, c2: 5, c3: 6, c4: 7}\nopw_kinematics_joint_offsets: [nan, inf, deg( 5 ), deg(), 1e400, ~]\n".into(),
    ];
    for s in &structured { emit_yaml("malformed/structured", s.as_bytes(), None); }
    // files that are valid YAML but not in the documented format: an error value is promised (and no panic)
    let off = "opw_kinematics_joint_offsets: [0.0, 0.0, deg(-90.0), 0.0, 0.0, deg(180.0)]";
    let with_off = |a: &str| -> String {
        let mut out = String::new();
        for line in base.lines() { if line.trim_start().starts_with("opw_kinematics_joint_offsets") { out.push_str(a); } else { out.push_str(line); } out.push('\n'); }
        out
    };
    let must: Vec<String> = vec![
        with_off(&off.replace("deg(-90.0)", "deg(-90.0")), with_off(&off.replace("deg(-90.0)", "deg(")), with_off(&off.replace("deg(-90.0)", "\"deg(90\u{b0}\"")),
        with_off(&off.replace("deg(180.0)", "deg(180.0")), with_off(&off.replace("deg(-90.0)", "deg(4")), with_off(&off.replace("deg(-90.0)", "deg(x)")),
        with_off("opw_kinematics_joint_offsets: [0, 0, 0]"), base.replace("a1:", "a9:"),
        // YAML spellings of the special floats are reals for the lexer but not for the number parser
        with_off(&off.replace("deg(-90.0)", ".inf")), with_off(&off.replace("deg(-90.0)", "-.inf")), with_off(&off.replace("deg(-90.0)", ".nan")),
        with_off(&off.replace("deg(180.0)", ".NaN")), with_off(&off.replace("deg(180.0)", "+.inf")), with_off(&off.replace("deg(180.0)", ".Inf")),
        base.replace("opw_kinematics_joint_sign_corrections: [1,1,1,1,1,1]", "opw_kinematics_joint_sign_corrections: [1,1,1,1]"),
    ];
    for s in &must { emit_yaml("malformed/must-reject", s.as_bytes(), None); }
    for _ in 0..n {
        let mut bytes = base.clone().into_bytes();
        match r.below(4) {
            0 => { let k = 1 + r.below(8); for _ in 0..k { let i = r.below(bytes.len()); bytes[i] = (r.next() & 0xff) as u8; } }
            1 => { let cut = r.below(bytes.len()); bytes.truncate(cut); }
            2 => { let k = 1 + r.below(5); for _ in 0..k { let i = r.below(bytes.len()); let c = *r.pick(&[b':', b'[', b']', b'-', b'\n', b' ', b'#', b'"', b'{', b'}', b',']); bytes.insert(i, c); } }
            _ => { let len = r.below(200); bytes = (0..len).map(|_| (r.next() & 0xff) as u8).collect(); }
        }
        emit_yaml("malformed/bytes", &bytes, None);
    }
}

// ---------------------------------------------------------------- C20 URDF
use rs_opw_kinematics::urdf::{from_urdf, URDFParameters};
use rs_opw_kinematics::verif_preprocess_joint_name;
use sxd_document::dom::Element;

fn enc_attr_tokens(l: &mut Line, v: &str) {
    let toks: Vec<Option<f64>> = v.split_whitespace().map(|t| t.parse::<f64>().ok()).collect();
    l.n(toks.len());
    for t in toks { optf(l, t); }
    optf(l, v.parse::<f64>().ok());
    match v.strip_prefix("${radians(").and_then(|t| t.strip_suffix(")}")) {
        Some(inner) => { l.n(1).s(&hexs(inner)); optf(l, inner.parse::<f64>().ok()); }
        None => { l.n(0); }
    }
}

fn enc_elem(l: &mut Line, e: Element) {
    l.s("E").s(&hexs(e.name().local_part()));
    let attrs = e.attributes();
    l.n(attrs.len());
    for a in attrs { l.s(&hexs(a.name().local_part())).s(&hexs(a.value())); enc_attr_tokens(l, a.value()); }
    let kids: Vec<Element> = e.children().into_iter().filter_map(|c| c.element()).collect();
    l.n(kids.len());
    for k in kids { enc_elem(l, k); }
}

fn emit_urdf(prop: &str, fam: &str, xml: &str, names: Option<[&str; 6]>, expected: Option<&URDFParameters>) {
    let mut l = Line::new(prop, fam, "urdf");
    match sxd_document::parser::parse(xml) {
        Err(_) => { l.n(0); }
        Ok(pkg) => {
            let doc = pkg.as_document();
            match doc.root().children().into_iter().find_map(|c| c.element()) {
                None => { l.n(0); }
                Some(root) => { l.n(1); enc_elem(&mut l, root); }
            }
        }
    }
    match &names { Some(ns) => { l.n(1); for n in ns { l.s(&hexs(n)); } } None => { l.n(0); } }
    let enc_up = |l: &mut Line, u: &URDFParameters| {
        l.f(u.a1).f(u.a2).f(u.b).f(u.c1).f(u.c2).f(u.c3).f(u.c4);
        for s in u.sign_corrections { l.i(s as i64); }
        l.j6(&u.from).j6(&u.to).i(u.dof as i64);
    };
    // #2: the description lacks a joint, has a conflicting duplicate or is not XML: an error value is promised
    let must_err = ["error/missing-joint", "error/conflicting-duplicate", "error/duplicate-adds-limits", "error/truncated", "error/empty"].contains(&fam);
    match expected { Some(u) => { l.n(1); enc_up(&mut l, u); } None => { l.n(if must_err { 2 } else { 0 }); } }
    l.arrow();
    match catch(AssertUnwindSafe(|| from_urdf(xml.to_string(), &names))) {
        None => { l.s("panic"); }
        Some(Ok(u)) => {
            l.s("ok"); enc_up(&mut l, &u);
            // the solver built from it: unconstrained joints accept anything
            let robot = u.to_robot(0.0, &[0.0; 6]);
            let c = rs_opw_kinematics::kinematic_traits::Kinematics::constraints(&robot).as_ref().unwrap().clone();
            let mut probe = [0.0; 6];
            for k in 0..6 { probe[k] = if u.from[k] == u.to[k] { 2.5 } else { c.centers[k] }; }
            l.b(c.compliant(&probe));
        }
        Some(Err(e)) => {
            l.s("err").s(match e { ParameterError::XmlProcessingError(_) => "xml", ParameterError::ParameterPopulationError(_) => "populate", _ => "other" });
        }
    }
    l.emit();
}

fn num(r: &mut Rng, x: f64) -> String {
    if x == 0.0 { return (*r.pick(&["0", "0.0", "0.000", "-0"])).to_string(); }
    match r.below(3) { 0 => format!("{}", x), 1 => format!("{:?}", x), _ => format!("{:e}", x) }
}

struct Layout { c2_on_x: bool, b_on_j3: bool, c3_on_j4: bool, c3_on_x: bool, c4_on_x: bool }

/// joint elements (name index 1..6 -> inner XML of the joint) for OPW parameters in a supported layout
fn joint_xml(r: &mut Rng, u: &URDFParameters, lay: &Layout, names: &[String; 6]) -> Vec<String> {
    let mut v = vec![];
    // the three numbers are separated by any amount of white space (blanks, a tab), with or without blanks around them
    let xyz = |r: &mut Rng, x: f64, y: f64, z: f64| {
        let sep = |r: &mut Rng| (*r.pick(&[" ", " ", " ", "  ", "\t", "   ", " \t "])).to_string();
        let (a, b) = (sep(r), sep(r));
        let (lead, trail) = (*r.pick(&["", "", " "]), *r.pick(&["", "", " ", "  "]));
        format!("{}{}{}{}{}{}{}", lead, num(r, x), a, num(r, y), b, num(r, z), trail)
    };
    let origins: [String; 6] = [
        xyz(r, 0.0, 0.0, u.c1),
        xyz(r, u.a1, 0.0, 0.0),
        if lay.c2_on_x { xyz(r, u.c2, if lay.b_on_j3 { u.b } else { 0.0 }, 0.0) } else { xyz(r, 0.0, if lay.b_on_j3 { u.b } else { 0.0 }, u.c2) },
        if lay.c3_on_j4 { if lay.c3_on_x { xyz(r, u.c3, 0.0, -u.a2) } else { xyz(r, 0.0, u.c3, -u.a2) } } else { xyz(r, 0.0, 0.0, -u.a2) },
        if lay.c3_on_j4 { xyz(r, 0.0, 0.0, 0.0) } else if lay.c3_on_x { xyz(r, u.c3, 0.0, 0.0) } else { xyz(r, 0.0, 0.0, u.c3) },
        if lay.c4_on_x { xyz(r, u.c4, 0.0, 0.0) } else { xyz(r, 0.0, 0.0, u.c4) },
    ];
    let axes = ["0 0 1", "0 1 0", "0 1 0", "1 0 0", "0 1 0", "1 0 0"];
    for k in 0..6 {
        let s = u.sign_corrections[k];
        let axis = match s { 1 => axes[k].to_string(), -1 => axes[k].replace("1", "-1"), _ => "0 0 0".to_string() };
        let mut inner = String::new();
        if r.chance(0.5) { inner.push_str(&format!("<parent link=\"l{}\"/><child link=\"l{}\"/>", k, k + 1)); }
        inner.push_str(&format!("<origin xyz=\"{}\" rpy=\"0 0 0\"/>", origins[k]));
        if !(s == 1 && r.chance(0.3)) { inner.push_str(&format!("<axis xyz=\"{}\"/>", axis)); }
        if u.from[k] != 0.0 || u.to[k] != 0.0 {
            // whole or tenth degrees that reproduce the limit exactly are written in the xacro form ${radians(..)}
            let deg_text = |x: f64| -> Option<String> {
                let t = (x.to_degrees() * 10.0).round();
                if (t / 10.0).to_radians() != x { return None; }
                Some(if t % 10.0 == 0.0 { format!("{}", (t / 10.0) as i64) } else { format!("{:.1}", t / 10.0) })
            };
            let (dl, du) = (deg_text(u.from[k]), deg_text(u.to[k]));
            if dl.is_some() && du.is_some() && r.chance(0.7) {
                inner.push_str(&format!("<limit lower=\"${{radians({})}}\" upper=\"${{radians({})}}\" effort=\"0\" velocity=\"1.0\"/>", dl.unwrap(), du.unwrap()));
            } else {
                inner.push_str(&format!("<limit lower=\"{}\" upper=\"{}\" effort=\"0\" velocity=\"1.0\"/>", num(r, u.from[k]), num(r, u.to[k])));
            }
        }
        else if r.chance(0.35) {
            // a joint without limits written the URDF way for continuous joints: a <limit> carrying effort / velocity only
            // (or only one of the two bounds): still a joint without limits, never an error
            inner.push_str(*r.pick(&["<limit effort=\"10\" velocity=\"2.0\"/>", "<limit velocity=\"1.0\"/>", "<limit/>",
                                     "<limit lower=\"-1.0\" effort=\"0\" velocity=\"1.0\"/>", "<limit upper=\"2.0\" effort=\"0\"/>"]));
            v.push(format!("<joint name=\"{}\" type=\"continuous\">{}</joint>", names[k], inner));
            continue;
        }
        v.push(format!("<joint name=\"{}\" type=\"revolute\">{}</joint>", names[k], inner));
    }
    v
}

fn decorate(r: &mut Rng, k: usize) -> String {
    let n = k + 1;
    match r.below(13) {
        // literal prefixes that contain the infix text between "joint" and the number
        8 => format!("arm_joint_a{}", n), 9 => format!("kuka_kr6_joint_a{}", n), 10 => format!("cell_a_joint_a{}", n),
        // macro arguments whose own name contains "joint"
        11 => format!("${{joint_prefix}}joint_{}", n), 12 => format!("${{arm_joint_ns}}_joint{}", n),
        0 => format!("joint{}", n), 1 => format!("joint_{}", n), 2 => format!("JOINT_{}", n), 3 => format!("${{prefix}}joint_{}", n),
        4 => format!("left_Joint-{}", n), 5 => format!("${{prefix}}JOINT_{}!", n), 6 => format!("robot1_joint_a{}", n), _ => format!("Joint {}", n),
    }
}

pub fn c20(seed: u64, n: usize) {
    let mut r = Rng::new(seed ^ 0xC20);
    // joint-name simplification against the hand-written equivalent of the regexes
    let pieces = ["joint", "Joint", "JOINT", "_", "-", "1", "2", "6", "12", "a", "link", "${prefix}", "${p}", "${", "}", "left", "tool0", " ", "!", ".", "x", "jointjoint", "$", "{x}",
                  "joint_a", "arm_", "kuka_kr6_", "cell_a_", "joint_a1", "_a", "a_", "${joint_prefix}", "${jointPrefix}", "${arm_joint_ns}_"];
    for _ in 0..(2 * n).max(200) {
        let k = 1 + r.below(6);
        let mut s = String::new();
        for _ in 0..k { s.push_str(*r.pick(&pieces)); }
        let mut l = Line::new("C20", "name", "h_name");
        l.s(&hexs(&s)).arrow();
        match catch(AssertUnwindSafe(|| verif_preprocess_joint_name(&s))) { Some(o) => { l.s(&hexs(&o)); } None => { l.s("panic"); } }
        l.emit();
    }
    urdf_cases("C20", &mut r, n);
}

/// robot descriptions generated from OPW parameters (layouts, signs, limits in radians / whole / fractional degrees,
/// order, nesting, names, second copy) and error cases derived from them
pub fn urdf_cases(prop: &str, r: &mut Rng, n: usize) {
    for i in 0..n {
        let (_, p) = gen_params(r);
        let mut u = URDFParameters { a1: p.a1, a2: p.a2, b: 0.0, c1: p.c1, c2: p.c2, c3: p.c3, c4: p.c4, sign_corrections: [1; 6], from: [0.0; 6], to: [0.0; 6], dof: 6 };
        let lay = Layout { c2_on_x: r.chance(0.4), b_on_j3: r.chance(0.4), c3_on_j4: r.chance(0.3), c3_on_x: r.chance(0.5), c4_on_x: r.chance(0.5) };
        if lay.b_on_j3 { u.b = if p.b != 0.0 { p.b } else { r.range(0.01, 0.2) }; }
        // side conditions of the layouts (DESIGN §7 C20): a lone non-zero coordinate is read as the main length
        if u.c2 == 0.0 { u.c2 = 0.3; }
        // equal neighbouring components of one origin (b next to c2) are still two values
        if lay.b_on_j3 && r.chance(0.15) { u.b = u.c2; }
        if lay.c3_on_j4 { if u.a2 == 0.0 { u.a2 = -0.05; } if u.c3 == 0.0 { u.c3 = 0.4; } }
        for k in 0..6 {
            u.sign_corrections[k] = if r.chance(0.6) { 1 } else { -1 };
            match r.below(4) {
                0 => {}
                1 => { u.from[k] = -(r.below(180) as f64 + 1.0).to_radians(); u.to[k] = (r.below(180) as f64 + 1.0).to_radians(); }
                2 => { u.from[k] = -((r.below(1800) + 1) as f64 / 10.0).to_radians(); u.to[k] = ((r.below(1800) + 1) as f64 / 10.0).to_radians(); }
                _ => { u.from[k] = r.range(-PI, -0.1); u.to[k] = r.range(0.1, PI); }
            }
        }
        let explicit = i % 5 == 4;
        let names: [String; 6] = if explicit { std::array::from_fn(|k| format!("{}_{}", *r.pick(&["ax", "shoulder", "wrist_x", "q"]), k + 1)) }
                                 else { std::array::from_fn(|k| decorate(r, k)) };
        let mut joints = joint_xml(r, &u, &lay, &names);
        // declaration order, nesting, extra elements, identical second copy
        let mut fam = format!("layout{}{}{}", if lay.c2_on_x { "/c2x" } else { "/c2z" }, if lay.b_on_j3 { "/b" } else { "" }, if lay.c3_on_j4 { "/c3@j4" } else { "/c3@j5" });
        for k in (1..joints.len()).rev() { let j = r.below(k + 1); joints.swap(k, j); }
        // a chain written as nested elements: some joints sit inside the element of the joint declared before them
        let mut placed = joints.clone();
        if r.chance(0.2) && joints.iter().all(|j| j.ends_with("</joint>")) {
            let mut chained: Vec<String> = vec![];
            for j in joints.iter().cloned() {
                if !chained.is_empty() && r.chance(0.5) {
                    let host = chained.pop().unwrap();
                    let cut = host.rfind("</joint>").unwrap();
                    chained.push(format!("{}{}{}", &host[..cut], j, &host[cut..]));
                } else { chained.push(j); }
            }
            placed = chained;
            fam.push_str("/joint-in-joint");
        }
        let mut body = String::new();
        for (k, j) in placed.iter().enumerate() {
            if r.chance(0.3) { body.push_str(&format!("<link name=\"l{}\"><visual><origin xyz=\"1 2 3\"/></visual></link>", k)); }
            if r.chance(0.25) { body.push_str(&format!("<xacro:macro name=\"m{}\"><group>{}</group></xacro:macro>", k, j)); fam.push_str("/nested"); }
            else { body.push_str(j); }
        }
        if r.chance(0.2) { body.push_str(&joints.join("")); fam.push_str("/second-copy"); }
        let xml = format!("<?xml version=\"1.0\"?><robot name=\"r\" xmlns:xacro=\"http://www.ros.org/wiki/xacro\">{}</robot>", body);
        let nref: [&str; 6] = std::array::from_fn(|k| names[k].as_str());
        if explicit { fam.push_str("/explicit-names"); }
        emit_urdf(prop, &fam, &xml, if explicit { Some(nref) } else { None }, Some(&u));
        // error cases derived from the same description
        if i % 4 == 0 {
            let which = r.below(6);
            let damaged = match which {
                0 => { let mut js = joints.clone(); js.remove(r.below(6)); ("missing-joint", format!("<robot>{}</robot>", js.join(""))) }
                1 => { let extra = joints[0].replace("xyz=\"", "xyz=\"9 "); ("conflicting-duplicate", format!("<robot>{}{}</robot>", joints.join(""), extra.replacen("xyz=\"9 ", "xyz=\"", 1).replace("rpy=\"0 0 0\"", "rpy=\"0 0 1\"").replacen("<origin xyz=\"", "<origin xyz=\"7", 1))) }
                2 => ("truncated", xml[..xml.len() / 2].to_string()),
                3 => ("non-numeric", xml.replacen("xyz=\"", "xyz=\"abc ", 1)),
                4 => {
                    // a second declaration of a joint with the same geometry that only ADDS limits is a conflicting duplicate
                    let real = |j: &String| j.contains("<limit lower=") && j.contains(" upper=");
                    let kk = (0..6).find(|&kk| real(&joints[kk])).unwrap_or(0);
                    if real(&joints[kk]) {
                        let start = joints[kk].find("<limit").unwrap();
                        let end = joints[kk][start..].find("/>").unwrap() + start + 2;
                        let without = format!("{}{}", &joints[kk][..start], &joints[kk][end..]);
                        let mut js = joints.clone(); let with = js[kk].clone(); js[kk] = without;
                        ("duplicate-adds-limits", format!("<robot>{}{}</robot>", js.join(""), with))
                    } else { ("empty", String::new()) }
                }
                _ => ("two-values", xml.replacen("<origin xyz=\"", "<origin xyz=\"1 ", 1)),
            };
            emit_urdf(prop, &format!("error/{}", damaged.0), &damaged.1, if explicit { Some(nref) } else { None }, None);
        }
    }
}
