//! Line emitters for the `Kinematics` entry points and the query generators shared by
//! C01 C02 C03 C04 C05 C06 C08 C09 C16.
use crate::gen::*;
use nalgebra::{Isometry3, Translation3, Vector3};
use rs_opw_kinematics::kinematic_traits::{Joints, Kinematics, Pose, CONSTRAINT_CENTERED};
use rs_opw_kinematics::kinematics_impl::verif_hooks as hk;
use rs_opw_kinematics::parameters::opw_kinematics::Parameters;
use std::f64::consts::PI;
use std::panic::AssertUnwindSafe;

pub fn emit_links(prop: &str, fam: &str, ks: &KSpec, q: &Joints) {
    let k = ks.build();
    let mut l = Line::new(prop, fam, "links");
    ks.encode(&mut l);
    l.j6(q).arrow();
    match catch(AssertUnwindSafe(|| (k.forward(q), k.forward_with_joint_poses(q)))) {
        Some((f, ls)) => { l.iso(&f); for p in ls.iter() { l.iso(p); } }
        None => { l.s("panic"); }
    }
    l.emit();
}

/// two joint vectors agreeing on joints 1..=i (0-based index i); link poses 0..=i must coincide
pub fn emit_linksp(prop: &str, fam: &str, ks: &KSpec, q: &Joints, q2: &Joints, i: usize) {
    let k = ks.build();
    let mut l = Line::new(prop, fam, "linksp");
    ks.encode(&mut l);
    l.j6(q).j6(q2).n(i).arrow();
    match catch(AssertUnwindSafe(|| (k.forward_with_joint_poses(q), k.forward_with_joint_poses(q2)))) {
        Some((a, b)) => { for p in a.iter() { l.iso(p); } for p in b.iter() { l.iso(p); } }
        None => { l.s("panic"); }
    }
    l.emit();
}

fn origin(l: &mut Line, o: Option<&Joints>) {
    match o { Some(q) => { l.n(1).j6(q); } None => { l.n(0); } }
}

pub fn emit_inv(prop: &str, fam: &str, ks: &KSpec, pose: &Pose, o: Option<&Joints>) {
    let k = ks.build();
    let mut l = Line::new(prop, fam, "inv");
    ks.encode(&mut l);
    l.iso(pose); origin(&mut l, o); l.arrow();
    match catch(AssertUnwindSafe(|| k.inverse(pose))) { Some(s) => { l.sols(&s); } None => { l.s("panic"); } }
    l.emit();
}

pub fn emit_invc(prop: &str, fam: &str, ks: &KSpec, pose: &Pose, prev: &Joints, o: Option<&Joints>) {
    let k = ks.build();
    let mut l = Line::new(prop, fam, "invc");
    ks.encode(&mut l);
    l.iso(pose).j6(prev); origin(&mut l, o); l.arrow();
    match catch(AssertUnwindSafe(|| k.inverse_continuing(pose, prev))) { Some(s) => { l.sols(&s); } None => { l.s("panic"); } }
    l.emit();
}

pub fn emit_inv5(prop: &str, fam: &str, ks: &KSpec, pose: &Pose, j6: f64, o: Option<&Joints>) {
    let k = ks.build();
    let mut l = Line::new(prop, fam, "inv5");
    ks.encode(&mut l);
    l.iso(pose).f(j6); origin(&mut l, o); l.arrow();
    match catch(AssertUnwindSafe(|| k.inverse_5dof(pose, j6))) { Some(s) => { l.sols(&s); } None => { l.s("panic"); } }
    l.emit();
}

pub fn emit_invc5(prop: &str, fam: &str, ks: &KSpec, pose: &Pose, prev: &Joints, o: Option<&Joints>) {
    let k = ks.build();
    let mut l = Line::new(prop, fam, "invc5");
    ks.encode(&mut l);
    l.iso(pose).j6(prev); origin(&mut l, o); l.arrow();
    match catch(AssertUnwindSafe(|| k.inverse_continuing_5dof(pose, prev))) { Some(s) => { l.sols(&s); } None => { l.s("panic"); } }
    l.emit();
}

pub fn emit_sing(prop: &str, fam: &str, ks: &KSpec, q: &Joints) {
    let k = ks.build();
    let mut l = Line::new(prop, fam, "sing");
    ks.encode(&mut l);
    l.j6(q).arrow();
    match catch(AssertUnwindSafe(|| k.kinematic_singularity(q).is_some())) { Some(b) => { l.b(b); } None => { l.s("panic"); } }
    l.emit();
}

/// `constraints()` of a stack: `#0` or `#1 from to centers tolerances weight`
pub fn emit_consof(prop: &str, fam: &str, ks: &KSpec) {
    let k = ks.build();
    let mut l = Line::new(prop, fam, "cons_of");
    ks.encode(&mut l);
    l.arrow();
    match k.constraints() {
        None => { l.n(0); }
        Some(c) => { l.n(1).j6(&c.from).j6(&c.to).j6(&c.centers).j6(&c.tolerances).f(c.sorting_weight); }
    }
    l.emit();
}

/// hook level: candidates of `inverse_intern` / `inverse_intern_5_dof` (before constraint filtering)
pub fn emit_h_iki(prop: &str, fam: &str, p: &Parameters, pose: &Pose) {
    let ks = KSpec::bare(*p);
    let r = ks.core();
    let mut l = Line::new(prop, fam, "h_iki");
    ks.encode(&mut l);
    l.iso(pose).arrow();
    match catch(AssertUnwindSafe(|| hk::inverse_intern(&r, pose))) { Some(s) => { l.sols(&s); } None => { l.s("panic"); } }
    l.emit();
}
pub fn emit_h_iki5(prop: &str, fam: &str, p: &Parameters, pose: &Pose, j6: f64) {
    let ks = KSpec::bare(*p);
    let r = ks.core();
    let mut l = Line::new(prop, fam, "h_iki5");
    ks.encode(&mut l);
    l.iso(pose).f(j6).arrow();
    match catch(AssertUnwindSafe(|| hk::inverse_intern_5_dof(&r, pose, j6))) { Some(s) => { l.sols(&s); } None => { l.s("panic"); } }
    l.emit();
}

/// plain `inverse` and `inverse_continuing` on the same query (superset clause of C04)
pub fn emit_invcs(prop: &str, fam: &str, ks: &KSpec, pose: &Pose, prev: &Joints) {
    let k = ks.build();
    let mut l = Line::new(prop, fam, "invcs");
    ks.encode(&mut l);
    l.iso(pose).j6(prev).arrow();
    match catch(AssertUnwindSafe(|| (k.inverse(pose), k.inverse_continuing(pose, prev)))) {
        Some((a, b)) => { l.sols(&a).sols(&b); } None => { l.s("panic"); } }
    l.emit();
}

/// the same query with and without the constraints (C08): entry 0 inverse, 1 continuing, 2 5dof, 3 continuing 5dof
pub fn emit_cmp2(prop: &str, fam: &str, ks: &KSpec, entry: usize, pose: &Pose, prev: &Joints, j6: f64) {
    let with = ks.build();
    let mut ks0 = ks.clone(); ks0.cons = None;
    let without = ks0.build();
    let mut l = Line::new(prop, fam, "cmp2");
    ks.encode(&mut l);
    l.n(entry).iso(pose).j6(prev).f(j6).arrow();
    let call = |k: &std::sync::Arc<dyn Kinematics>| match entry {
        0 => k.inverse(pose), 1 => k.inverse_continuing(pose, prev), 2 => k.inverse_5dof(pose, j6), _ => k.inverse_continuing_5dof(pose, prev) };
    match catch(AssertUnwindSafe(|| (call(&with), call(&without)))) {
        Some((a, b)) => { l.sols(&a).sols(&b); } None => { l.s("panic"); } }
    l.emit();
}

/// closure of the answer set (C02): answers for forward(q), and for each answer the number of answers of its own pose
pub fn emit_invcl(prop: &str, fam: &str, ks: &KSpec, q: &Joints) {
    let k = ks.build();
    let mut l = Line::new(prop, fam, "invcl");
    ks.encode(&mut l);
    l.j6(q).arrow();
    match catch(AssertUnwindSafe(|| {
        let pose = k.forward(q);
        let sols = k.inverse(&pose);
        let counts: Vec<usize> = sols.iter().map(|s| k.inverse(&k.forward(s)).len()).collect();
        (pose, sols, counts)
    })) {
        Some((pose, sols, counts)) => { l.iso(&pose).sols(&sols); l.n(counts.len()); for c in counts { l.n(c); } }
        None => { l.s("panic"); }
    }
    l.emit();
}

/// hook level scalar helpers
pub fn emit_h_norm(prop: &str, fam: &str, now: f64, prev: f64) {
    let mut l = Line::new(prop, fam, "h_norm"); l.f(now).f(prev).arrow().f(hk::normalize_near(now, prev)); l.emit();
}
pub fn emit_h_close(prop: &str, fam: &str, a: f64, b: f64) {
    let mut l = Line::new(prop, fam, "h_close"); l.f(a).f(b).arrow().b(hk::are_angles_close(a, b)); l.emit();
}
pub fn emit_h_mpi(prop: &str, fam: &str, v: f64, thr: f64) {
    let mut l = Line::new(prop, fam, "h_mpi"); l.f(v).f(thr).arrow().b(hk::is_close_to_multiple_of_pi(v, thr)); l.emit();
}
pub fn emit_h_dist(prop: &str, fam: &str, a: &Joints, b: &Joints) {
    let mut l = Line::new(prop, fam, "h_dist"); l.j6(a).j6(b).arrow().f(hk::calculate_distance(a, b)); l.emit();
}
pub fn emit_h_cmp(prop: &str, fam: &str, a: &Pose, b: &Pose, dt: f64, at: f64) {
    let mut l = Line::new(prop, fam, "h_cmp"); l.iso(a).iso(b).f(dt).f(at).arrow().b(hk::compare_poses(a, b, dt, at)); l.emit();
}

/// LinearAxis / Gantry forward (C09)
pub fn emit_lin(prop: &str, fam: &str, ks: &KSpec, axis: u32, base: &Pose, dist: f64, q: &Joints) {
    let k = ks.build();
    let la = rs_opw_kinematics::tool::LinearAxis::verif_new(k, axis, *base);
    let mut l = Line::new(prop, fam, "lin");
    ks.encode(&mut l);
    l.n(axis as usize).iso(base).f(dist).j6(q).arrow();
    match catch(AssertUnwindSafe(|| la.forward(dist, q))) { Some(p) => { l.iso(&p); } None => { l.s("panic"); } }
    l.emit();
}
pub fn emit_gantry(prop: &str, fam: &str, ks: &KSpec, base: &Pose, tr: &Vector3<f64>, q: &Joints) {
    let k = ks.build();
    let g = rs_opw_kinematics::tool::Gantry::verif_new(k, *base);
    let mut l = Line::new(prop, fam, "gantry");
    ks.encode(&mut l);
    l.iso(base).v3(tr).j6(q).arrow();
    match catch(AssertUnwindSafe(|| g.forward(&Translation3::from(*tr), q))) { Some(p) => { l.iso(&p); } None => { l.s("panic"); } }
    l.emit();
}

/// θ-space → joint space for a parameter set with signs ±1
pub fn joints_of_theta(p: &Parameters, th: &Joints) -> Joints {
    let mut j = [0.0; 6];
    for k in 0..6 {
        let s = p.sign_corrections[k] as f64;
        j[k] = if s == 0.0 { 0.0 } else { (th[k] + p.offsets[k]) * s };
    }
    j
}

/// One IK query: robot spec, requested pose, originating joints if the pose is an FK image.
pub struct Query { pub ks: KSpec, pub pose: Pose, pub origin: Option<Joints>, pub fam: String, pub axial: bool }

/// Pose families of DESIGN §4.1 for a bare robot `p`.
pub fn gen_pose(r: &mut Rng, p: &Parameters) -> (String, Pose, Option<Joints>) {
    let ks = KSpec::bare(*p);
    let robot = ks.core();
    let k = r.below(20);
    match k {
        0..=9 => {
            let q = rand_joints(r, PI);
            ("fk-random".into(), robot.forward(&q), Some(q))
        }
        10 | 11 => {
            // near the wrist singularity at graded distances (θ5 = kπ ± δ)
            let mut th = rand_joints(r, PI);
            let d = *r.pick(&[0.0, 1e-1, 1e-3, 1e-5, 1.7e-4, 1e-7, 1e-9, 1e-12]);
            let base = *r.pick(&[0.0, 0.0, 0.0, PI, -PI]);
            th[4] = base + if r.chance(0.5) { d } else { -d };
            let q = joints_of_theta(p, &th);
            ("wrist-singular".into(), robot.forward(&q), Some(q))
        }
        12 | 13 => {
            // elbow stretched / folded: θ3 + ψ3 = 0 or π, graded
            let mut th = rand_joints(r, PI);
            let psi3 = p.a2.atan2(p.c3);
            let d = *r.pick(&[0.0, 1e-2, 1e-4, 1e-6, 1e-8]);
            th[2] = -psi3 + if r.chance(0.7) { 0.0 } else { PI } + if r.chance(0.5) { d } else { -d };
            let q = joints_of_theta(p, &th);
            ("elbow-boundary".into(), robot.forward(&q), Some(q))
        }
        14 => {
            // wrist centre on (or next to) the J1 axis
            let rot = rand_quat(r);
            let d = *r.pick(&[0.0, 1e-3, 1e-6, 1e-9]);
            let c = Vector3::new(d, if r.chance(0.5) { 0.0 } else { -d }, p.c1 + r.range(0.1, 0.9) * (p.c2 + p.c3));
            let t = c + p.c4 * (rot * Vector3::z());
            ("shoulder-axis".into(), Isometry3::from_parts(Translation3::from(t), rot), None)
        }
        15 => {
            // just outside / inside the workspace boundary: scale a stretched pose radially
            let mut th = rand_joints(r, PI);
            let psi3 = p.a2.atan2(p.c3);
            th[2] = -psi3;
            let q = joints_of_theta(p, &th);
            let pose = robot.forward(&q);
            let s = 1.0 + *r.pick(&[1e-7, -1e-7, 1e-8, 3e-7, 1e-6, -1e-6, 1e-9]);
            let t = pose.translation.vector * s;
            ("workspace-boundary".into(), Isometry3::from_parts(Translation3::from(t), pose.rotation), None)
        }
        16 | 17 => ("far-outside".into(), rand_iso(r, 10.0), None),
        18 => {
            // tiny poses inside the dead zone / at the origin
            ("inner-zone".into(), rand_iso(r, 0.02), None)
        }
        _ => {
            let mut pose = rand_iso(r, 1.0);
            let bad = *r.pick(&[f64::NAN, f64::INFINITY, f64::NEG_INFINITY]);
            match r.below(4) {
                0 => pose.translation.vector.x = bad,
                1 => pose.translation.vector.z = bad,
                2 => { pose.translation.vector.y = bad; }
                _ => {
                    let q = pose.rotation.into_inner();
                    pose.rotation = nalgebra::UnitQuaternion::new_unchecked(nalgebra::Quaternion::new(bad, q.i, q.j, q.k));
                }
            }
            ("non-finite".into(), pose, None)
        }
    }
}

/// previous-vector families
pub fn gen_prev(r: &mut Rng, origin: Option<&Joints>) -> (String, Joints) {
    match r.below(10) {
        0..=2 if origin.is_some() => ("origin".into(), *origin.unwrap()),
        3 if origin.is_some() => {
            let mut q = *origin.unwrap();
            for k in 0..6 { if r.chance(0.3) { q[k] += 2.0 * PI * if r.chance(0.5) { 1.0 } else { -1.0 }; } }
            ("origin+turns".into(), q)
        }
        4 if origin.is_some() => {
            let mut q = *origin.unwrap();
            for k in 0..6 { q[k] += r.range(-0.05, 0.05); }
            ("origin+small".into(), q)
        }
        5 => ("sentinel".into(), CONSTRAINT_CENTERED),
        6 => ("far".into(), rand_joints(r, 50.0)),
        7 => {
            let mut q = rand_joints(r, 2.0 * PI);
            if r.chance(0.3) { q[r.below(5) + 1] = f64::NAN; }
            ("uniform/nonfinite".into(), q)
        }
        _ => ("uniform-2pi".into(), rand_joints(r, 2.0 * PI)),
    }
}

/// wrap the pose of the bare robot into the pose the stack must be asked for
pub fn through_stack(ks: &KSpec, q: &Joints) -> Pose { ks.build().forward(q) }

pub fn gen_query(r: &mut Rng, wrappers: bool, dof5: bool, with_cons: bool) -> Query {
    let (rfam, mut p) = gen_params(r);
    if dof5 && r.chance(0.5) { p.dof = 5; p.sign_corrections[5] = 0; }
    let (pfam, pose0, origin) = gen_pose(r, &p);
    let mut ks = KSpec::bare(p);
    let mut fam = format!("{}/{}", rfam, pfam);
    if p.dof == 5 { fam.push_str("/dof5"); }
    if with_cons {
        let (cf, c) = gen_cons(r, origin.as_ref());
        ks.cons = c;
        fam.push_str("/cons-"); fam.push_str(&cf);
    }
    let mut pose = pose0;
    let mut axial = true;
    if wrappers && r.chance(0.4) {
        let depth = 1 + r.below(3);
        axial = p.dof == 5 || r.chance(0.4);
        ks.stack = gen_stack(r, depth, axial, false);
        fam.push_str(if axial { "/wrapped-axial" } else { "/wrapped" });
        // move the requested pose through the stack: base * pose * tool
        for w in &ks.stack {
            pose = match w {
                Wrap::T(t) | Wrap::F(t) => pose * t,
                Wrap::B(b) => b * pose,
                Wrap::P(..) => pose,
            };
        }
    }
    Query { ks, pose, origin, fam, axial }
}
