//! Replays the C12 witnesses (D12..D14): plan() returns colliding waypoints, does not start at `from`,
//! ignores include_linear_interpolation.
use nalgebra::{Isometry3, Point3, Translation3};
use parry3d::shape::TriMesh;
use rs_opw_kinematics::cartesian::{Cartesian, PathFlags, DEFAULT_TRANSITION_COSTS};
use rs_opw_kinematics::collisions::CollisionBody;
use rs_opw_kinematics::constraints::{Constraints, BY_PREV};
use rs_opw_kinematics::kinematic_traits::{Joints, Kinematics};
use rs_opw_kinematics::kinematics_with_shape::KinematicsWithShape;
use rs_opw_kinematics::parameters::opw_kinematics::Parameters;
use rs_opw_kinematics::rrt::RRTPlanner;

fn cube(h: [f32; 3]) -> TriMesh {
    let mut v = vec![];
    for z in [-1.0f32, 1.0] { for y in [-1.0f32, 1.0] { for x in [-1.0f32, 1.0] { v.push(Point3::new(x * h[0], y * h[1], z * h[2])); } } }
    let f: [[u32; 4]; 6] = [[0, 1, 3, 2], [4, 6, 7, 5], [0, 4, 5, 1], [2, 3, 7, 6], [0, 2, 6, 4], [1, 5, 7, 3]];
    let mut idx = vec![];
    for q in f { idx.push([q[0], q[1], q[2]]); idx.push([q[0], q[2], q[3]]); }
    TriMesh::new(v, idx).unwrap()
}

fn main() {
    let p = Parameters::irb2400_10();
    let cons = Constraints::from_degrees([-180.0..=180.0, -120.0..=120.0, -225.0..=75.0, -200.0..=200.0, -120.0..=120.0, -400.0..=400.0], BY_PREV);
    let mk = |env: Vec<CollisionBody>| KinematicsWithShape::new(p, cons, [cube([0.03; 3]), cube([0.03; 3]), cube([0.03; 3]), cube([0.03; 3]), cube([0.03; 3]), cube([0.03; 3])],
        cube([0.1, 0.1, 0.05]), Isometry3::identity(), cube([0.02, 0.02, 0.05]), Isometry3::translation(0.0, 0.0, 0.05), env, true);
    let free = mk(vec![]);
    let q_land: Joints = [0.0, 0.3, 0.1, 0.0, 0.6, 0.0];
    let land = free.forward(&q_land);
    let step = |dx: f64, dz: f64| Isometry3::from_parts(Translation3::new(land.translation.x + dx, land.translation.y + 0.0, land.translation.z + dz), land.rotation);
    let steps = vec![step(0.0, -0.05), step(0.0, -0.05).clone(), {let mut s = step(0.0, -0.05); s.translation.y += 0.4; s}];
    let park = { let mut s = step(0.0, 0.0); s.translation.y += 0.4; s };
    // obstacle: a thin plate across the stroke, half way
    let mid = Isometry3::translation(land.translation.x as f32, (land.translation.y + 0.2) as f32, (land.translation.z - 0.05) as f32);
    let blocked = mk(vec![CollisionBody { mesh: cube([0.2, 0.005, 0.2]), pose: mid }]);
    let from: Joints = [0.3, 0.1, 0.0, 0.2, 0.4, 0.1];
    for (name, robot) in [("free", &free), ("plate across the stroke", &blocked)] {
        for include in [true, false] {
            let planner = Cartesian { robot, check_step_m: 0.02, check_step_rad: 3f64.to_radians(), max_transition_cost: 6f64.to_radians(),
                transition_coefficients: DEFAULT_TRANSITION_COSTS, linear_recursion_depth: 8,
                rrt: RRTPlanner { step_size_joint_space: 2f64.to_radians(), max_try: 1000, debug: false }, include_linear_interpolation: include, debug: false };
            match planner.plan(&from, &land, steps.clone(), &park) {
                Ok(path) => {
                    let coll = path.iter().filter(|w| robot.collides(&w.joints)).count();
                    let interp = path.iter().filter(|w| w.flags.contains(PathFlags::LIN_INTERP)).count();
                    let onb = path.iter().filter(|w| w.flags.contains(PathFlags::ONBOARDING)).count();
                    eprintln!("{} include={}: Ok, {} waypoints, {} colliding (expected 0), {} LIN_INTERP (expected {} when not requested), starts at from: {} (expected true), {} ONBOARDING",
                        name, include, path.len(), coll, interp, 0, path[0].joints == from, onb);
                }
                Err(e) => eprintln!("{} include={}: Err({})", name, include, e),
            }
        }
    }
}
