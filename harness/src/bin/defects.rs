//! Replays the witnesses of the defects D1..D17 (DESIGN.md §8) against the real library and prints
//! what is observed.  Used when deciding/fixing a finding; not part of any registered check.
use nalgebra::{Isometry3, Translation3, UnitQuaternion, Vector3};
use rs_opw_kinematics::constraints::{Constraints, BY_PREV};
use rs_opw_kinematics::kinematic_traits::{Kinematics, Singularity, Joints};
use rs_opw_kinematics::kinematics_impl::OPWKinematics;
use rs_opw_kinematics::parameters::opw_kinematics::Parameters;
use std::sync::Arc;

fn main() {
    // D1
    let c = Constraints::new([0.0; 6], [0.0; 6], BY_PREV);
    println!("D1 from==to compliant([0.1;6]) = {} (expected true)", c.compliant(&[0.1; 6]));
    // D2
    let c = Constraints::new([5.0; 6], [4.0; 6], BY_PREV);
    let mut bad = 0;
    for _ in 0..1000 { if !c.compliant(&c.random_angles()) { bad += 1; } }
    println!("D2 from=5,to=4: non-compliant samples {}/1000 (expected 0)", bad);
    let c = Constraints::new([2.0 * std::f64::consts::PI; 6], [-1.5 * std::f64::consts::PI; 6], BY_PREV);
    let mut bad = 0;
    for _ in 0..1000 { if !c.compliant(&c.random_angles()) { bad += 1; } }
    println!("D2b from=2pi,to=-1.5pi: non-compliant samples {}/1000 (expected 0)", bad);
    // D3/D4
    let mut p = Parameters::irb2400_10();
    p.dof = 5;
    p.sign_corrections[5] = 0;
    let q: Joints = [0.3, 0.4, -0.2, 0.8, 0.7, 0.0];
    let r = OPWKinematics::new(p);
    let pose = r.forward(&q);
    println!("D4 dof=5 inverse count = {} (expected > 0)", r.inverse(&pose).len());
    let from = [q[0] - 0.1, q[1] - 0.1, q[2] - 0.1, q[3] - 0.1, q[4] - 0.1, -0.1];
    let to = [q[0] + 0.1, q[1] + 0.1, q[2] + 0.1, q[3] + 0.1, q[4] + 0.1, 0.1];
    let cons = Constraints::new(from, to, BY_PREV);
    let rc = OPWKinematics::new_with_constraints(p, cons);
    let sols = rc.inverse_continuing(&pose, &q);
    let nc = sols.iter().filter(|s| !cons.compliant(s)).count();
    println!("D3 dof=5 inverse_continuing: {} answers, {} non-compliant (expected 0)", sols.len(), nc);
    // D5
    let r6 = OPWKinematics::new(Parameters::irb2400_10());
    let sp = r6.kinematic_singularity(&[0.0, 0.1, 0.2, 0.3, 5e-5, 0.4]) == Some(Singularity::A);
    let sn = r6.kinematic_singularity(&[0.0, 0.1, 0.2, 0.3, -5e-5, 0.4]) == Some(Singularity::A);
    println!("D5 singular at +5e-5: {}, at -5e-5: {} (expected true true)", sp, sn);
    // D6
    let mut po = Parameters::irb2400_10();
    po.offsets[4] = 0.5;
    let ro = OPWKinematics::new(po);
    let s0 = ro.kinematic_singularity(&[0.0, 0.1, 0.2, 0.3, 0.0, 0.4]).is_some();
    let s5 = ro.kinematic_singularity(&[0.0, 0.1, 0.2, 0.3, 0.5, 0.4]).is_some();
    println!("D6 offset5=0.5: singular at raw 0: {} (expected false), at raw 0.5: {} (expected true)", s0, s5);
    let prev: Joints = [0.3, 0.4, -0.2, 0.8, 0.5, -0.4];
    let pose = ro.forward(&prev);
    let sols = ro.inverse_continuing(&pose, &prev);
    if let Some(s) = sols.first() {
        println!("D6 recovery first answer dJ4 = {:.3e}, dJ6 = {:.3e} (expected ~0)", s[3] - prev[3], s[5] - prev[5]);
    } else { println!("D6 recovery: no answers"); }
    // D11
    let mut ps = Parameters::irb2400_10();
    ps.sign_corrections[3] = -1;
    let rs = OPWKinematics::new(ps);
    let prev: Joints = [0.3, 0.4, -0.2, 0.8, 0.0, -0.4];
    let pose = rs.forward(&prev);
    let sols = rs.inverse_continuing(&pose, &prev);
    if let Some(s) = sols.first() {
        println!("D11 sign4=-1 first answer dJ4 = {:.3e}, dJ6 = {:.3e} (expected ~0)", s[3] - prev[3], s[5] - prev[5]);
    } else { println!("D11: no answers"); }
    // D7
    let tool = rs_opw_kinematics::tool::Tool {
        robot: Arc::new(OPWKinematics::new(Parameters::irb2400_10())),
        tool: Isometry3::from_parts(Translation3::new(0.0, 0.0, 0.2), UnitQuaternion::identity()),
    };
    let q: Joints = [0.3, 0.4, -0.2, 0.8, 0.7, 2.5];
    let pose = tool.forward(&q);
    let sols = tool.inverse_continuing_5dof(&pose, &q);
    let j6s: Vec<f64> = sols.iter().map(|s| s[5]).collect();
    println!("D7 Tool.inverse_continuing_5dof J6 values {:?} (expected all 2.5)", j6s);
    let _ = Vector3::<f64>::zeros();
    collisions();
    // D15-17
    let dir = std::env::temp_dir();
    let f = dir.join("verif_d15.yaml");
    std::fs::write(&f, Parameters::irb2400_10().to_yaml()).unwrap();
    println!("D15 to_yaml -> from_yaml_file: {:?}", Parameters::from_yaml_file(&f).map(|p| p.a1));
    let mut p5 = Parameters::irb2400_10(); p5.dof = 5; p5.b = 0.01;
    std::fs::write(&f, p5.to_yaml()).unwrap();
    println!("D16 dof=5 written, read back dof = {:?} (expected 5)", Parameters::from_yaml_file(&f).map(|p| p.dof));
    std::fs::write(&f, "").unwrap();
    let r = std::panic::catch_unwind(|| Parameters::from_yaml_file(&f).is_err());
    println!("D17 empty file: {:?} (expected Ok(true))", r.map_err(|_| "panic"));
    let _ = std::fs::remove_file(&f);
}

use parry3d::shape::TriMesh;
use rs_opw_kinematics::collisions::{BaseBody, CheckMode, CollisionBody, RobotBody, SafetyDistances, NEVER_COLLIDES};
use rs_opw_kinematics::kinematic_traits::{J_BASE, ENV_START_IDX};

fn cube(h: f32) -> TriMesh {
    let v = vec![
        nalgebra::Point3::new(-h, -h, -h), nalgebra::Point3::new(h, -h, -h), nalgebra::Point3::new(-h, h, -h), nalgebra::Point3::new(h, h, -h),
        nalgebra::Point3::new(-h, -h, h), nalgebra::Point3::new(h, -h, h), nalgebra::Point3::new(-h, h, h), nalgebra::Point3::new(h, h, h)];
    let idx = vec![[0u32,1,2],[2,1,3],[4,5,6],[6,5,7],[2,3,6],[6,3,7],[0,1,4],[4,1,5],[0,2,4],[4,2,6],[1,3,5],[5,3,7]];
    TriMesh::new(v, idx).unwrap()
}
fn plate(h: f32) -> TriMesh {
    // two separate triangles, 6 vertices, in the plane z = 0
    let v = vec![
        nalgebra::Point3::new(-h, -h, 0.0), nalgebra::Point3::new(h, -h, 0.0), nalgebra::Point3::new(-h, h, 0.0),
        nalgebra::Point3::new(h, h, 0.0), nalgebra::Point3::new(-h, h, 0.0), nalgebra::Point3::new(h, -h, 0.0)];
    TriMesh::new(v, vec![[0u32,1,2],[3,4,5]]).unwrap()
}
fn iso32(x: f64, y: f64, z: f64) -> Isometry3<f32> { Isometry3::translation(x as f32, y as f32, z as f32) }

fn collisions() {
    let robot = OPWKinematics::new(Parameters::irb2400_10());
    let q: Joints = [0.1, 0.3, -0.2, 0.4, 0.8, 0.2];
    let links = robot.forward_with_joint_poses(&q);
    let meshes = || [cube(0.01), cube(0.01), cube(0.01), cube(0.01), cube(0.01), cube(0.01)];
    // D8: plate 0.3 below link 6 origin, r_min 0.5
    let t6 = links[5].translation.vector;
    let mut safety = SafetyDistances::standard(CheckMode::AllCollsions);
    safety.to_environment = 0.5;
    let body = RobotBody { joint_meshes: meshes(), tool: None, base: None,
        collision_environment: vec![CollisionBody { mesh: plate(4.0), pose: iso32(t6.x, t6.y, t6.z - 0.3) }], safety };
    let rep = body.collision_details(&q, &robot);
    let has6 = rep.contains(&(5, ENV_START_IDX));
    println!("D8 link6 0.3 from a plate, r_min 0.5: reported {} (expected true); report {:?}", has6, rep);
    // D9: base box overlapping link 3 box; (J1,J3) marked never-colliding must not exempt base-J3
    let t3 = links[2].translation.vector;
    let mk = |special: Vec<((usize, usize), f32)>| {
        let mut safety = SafetyDistances::standard(CheckMode::AllCollsions);
        safety.special_distances = SafetyDistances::distances(&special);
        RobotBody { joint_meshes: meshes(), tool: None,
            base: Some(BaseBody { mesh: cube(0.02), base_pose: iso32(t3.x, t3.y, t3.z + 0.025) }),
            collision_environment: vec![], safety }
    };
    let r0 = mk(vec![]).collision_details(&q, &robot);
    let r1 = mk(vec![((0, 2), NEVER_COLLIDES)]).collision_details(&q, &robot);
    println!("D9 base cutting J3: report {:?}; with (J1,J3) never-colliding: {:?} (expected both contain (2,{}))", r0, r1, J_BASE);
    // D10: moving J2 to `to` brings link 3 into the base box; initial is free
    let mut q2 = q; q2[1] = q[1] + 0.1;
    let l2 = robot.forward_with_joint_poses(&q2);
    let t3b = l2[2].translation.vector;
    let body = RobotBody { joint_meshes: meshes(), tool: None,
        base: Some(BaseBody { mesh: cube(0.02), base_pose: iso32(t3b.x, t3b.y, t3b.z + 0.025) }),
        collision_environment: vec![], safety: SafetyDistances::standard(CheckMode::FirstCollisionOnly) };
    let from = [q[0], q[1] - 0.1, q[2], q[3], q[4], q[5]];
    let offered = body.non_colliding_offsets(&q, &from, &q2, &robot);
    let bad: Vec<_> = offered.iter().filter(|s| body.collides(s, &robot)).collect();
    println!("D10 initial collides: {}; offered {} of which colliding {} (expected 0): {:?}", body.collides(&q, &robot), offered.len(), bad.len(), bad);
    // D10b: moving J3 folds the wrist into the (un-moved) link-1 body
    let meshes2 = || [cube(0.25), cube(0.01), cube(0.01), cube(0.01), cube(0.01), cube(0.01)];
    let body = RobotBody { joint_meshes: meshes2(), tool: None, base: None,
        collision_environment: vec![], safety: SafetyDistances::standard(CheckMode::FirstCollisionOnly) };
    let q0: Joints = [0.0, 0.0, 0.0, 0.0, 0.5, 0.0];
    let mut found = None;
    for k in 0..400 {
        let j3 = -3.1 + 0.0155 * k as f64;
        let mut qq = q0; qq[2] = j3;
        let det = body.collision_details(&qq, &robot);
        if det.iter().any(|&(a, b)| a == 0 && b >= 3) { found = Some((j3, det)); break; }
    }
    if let Some((j3, det)) = found {
        let mut to = q0; to[2] = j3;
        let offered = body.non_colliding_offsets(&q0, &q0, &to, &robot);
        let bad: Vec<_> = offered.iter().filter(|s| body.collides(s, &robot)).collect();
        println!("D10b initial collides: {}; J3 -> {:.4} collides via {:?}; offered {} of which colliding {} (expected 0)",
            body.collides(&q0, &robot), j3, det, offered.len(), bad.len());
    } else { println!("D10b: no folding witness found"); }
}
